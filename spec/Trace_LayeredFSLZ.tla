-------------------------- MODULE Trace_LayeredFSLZ --------------------------
(* Second opinion on "the stored file is a valid compressed stream" (C12): every file that a
   successful write through the real LayeredFilesystem left on disk under the game's compressed
   suffix is run through the DECODER STATE MACHINE of spec/LZ.tla (not through mila's own
   decompressor): it must carry the game's wrapper / type byte, be consumed completely and
   expand to the payload.  For the empty payload C09 leaves the stream open (mila emits the
   32-bit-length form, which LZ.tla classifies as "open").
   Input: ndjson records {game, p: requested path [c, t], data: payload, stored: bytes on disk}.
   Which game uses which format, and which paths are compressed, is decided here
   (LayeredFS!Cfg, LayeredFS!HasCompSuffix), not by the harness. *)
EXTENDS LayeredFS, Json, IOUtils
LZ == INSTANCE LZ

Rec == ndJsonDeserialize(IOEnv.TRACE)

VARIABLES i, bad, checked
vars == <<i, bad, checked>>
Init == i = 1 /\ bad = <<>> /\ checked = 0

StreamOK(fmt, x, s) ==
  /\ LZ!Wrapped(fmt, s)
  /\ Len(s) >= 4 + LZ!CompOff(fmt)
  /\ s[1] = TypeByte(fmt)
  /\ LET dd == LZ!Decode(LZ!CompFmt(fmt), s, LZ!CompOff(fmt)) IN
       \/ dd.st = "done" /\ dd.out = x
       \/ x = <<>> /\ dd.st = "open"

\* the localised single-component corner (requested and on-disk name differ in suffix) is left out
Applies(r) == Len(r.p.c) >= 2 /\ HasCompSuffix(Cfg(r.game).comp, r.p)

Next == /\ i <= Len(Rec)
        /\ i' = i + 1
        /\ LET r == Rec[i] IN
             IF Applies(r)
             THEN /\ checked' = checked + 1
                  /\ bad' = IF StreamOK(Cfg(r.game).comp, r.data, r.stored) THEN bad ELSE Append(bad, i)
             ELSE UNCHANGED <<bad, checked>>
Spec == Init /\ [][Next]_vars
Report == (i = Len(Rec) + 1) => PrintT("R " \o ToJson([n |-> Len(Rec), bad |-> bad, checked |-> checked]))
=============================================================================
