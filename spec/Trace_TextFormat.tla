-------------------------- MODULE Trace_TextFormat --------------------------
(* impl -> spec for C06: text archives built through mila's API, the bytes mila
   serialized and what mila parsed back.  TLC reads the bytes with the reference
   bin-archive parser and the reference text walk, and compares with the value. *)
EXTENDS TextFormat, Json, IOUtils

Rec == ndJsonDeserialize(IOEnv.TRACE)

VARIABLES i, bad
vars == <<i, bad>>

\* a large archive built by rule (n entries, messages "abc" / "abcdefg" alternating, title "T"): header totals
BigTextClause(ev) ==
  LET h == ev.head  e == ev.endian  n == ev.n
      half == n \div 2  odd == n - half          \* entries 0,2,4,.. carry "abc" (odd many when n is odd), the others "abcdefg"
      ds == IF ev.fmt = "unicode" THEN 4 + odd * 8 + half * 16 ELSE odd * 4 + half * 8
  \* (the data size is at least what the messages need and a multiple of 4: the statement does not fix the padding)
  IN IF Rd32(h, 4, e) < ds \/ Rd32(h, 4, e) % 4 # 0 \/ Rd32(h, 8, e) # 0 \/ Rd32(h, 12, e) # n \/ Rd32(h, 0, e) # ev.len THEN 1
     ELSE IF ~ev.reparsed_equal THEN 3
     ELSE 0

Clause(ev) ==
  IF ev.op = "bigtext" THEN BigTextClause(ev) ELSE
  IF ev.op # "text" THEN 8                       \* mila failed to serialize or re-parse
  ELSE
  LET v == [title |-> ev.title, entries |-> ev.entries]
      r == RefParse(ev.bytes, ev.endian)
  IN IF ~KeysDistinct(v) THEN 9
     ELSE IF ~r.ok THEN 1
     ELSE IF RefParseText(r.c, ev.fmt) # Expected(v, ev.fmt) THEN 2
     ELSE IF ev.reparsed # [title |-> Expected(v, ev.fmt).title, entries |-> v.entries] THEN 3
     ELSE IF ImageDetermined(v, ev.fmt, ev.endian) /\ ev.bytes # TextImage(v, ev.fmt, ev.endian) THEN 4   \* information only
     ELSE 0

Init == i = 1 /\ bad = <<>>
Next ==
  /\ i <= Len(Rec)
  /\ LET k == Clause(Rec[i]) IN bad' = IF k = 0 THEN bad ELSE Append(bad, <<i, k>>)
  /\ i' = i + 1
Spec == Init /\ [][Next]_vars
Report == (i = Len(Rec) + 1) => PrintT("R " \o ToJson([n |-> Len(Rec), bad |-> bad]))
=============================================================================
