-------------------------- MODULE Trace_TextFormat --------------------------
(* impl -> spec for C06: text archives built through mila's API, the bytes mila
   serialized and what mila parsed back.  TLC reads the bytes with the reference
   bin-archive parser and the reference text walk, and compares with the value. *)
EXTENDS TextFormat, Json, IOUtils

Rec == ndJsonDeserialize(IOEnv.TRACE)

VARIABLES i, bad
vars == <<i, bad>>

Clause(ev) ==
  IF ev.op # "text" THEN 8                       \* mila failed to serialize or re-parse
  ELSE
  LET v == [title |-> ev.title, entries |-> ev.entries]
      r == RefParse(ev.bytes, ev.endian)
  IN IF ~KeysDistinct(v) THEN 9
     ELSE IF ~r.ok THEN 1
     ELSE IF RefParseText(r.c, ev.fmt) # Expected(v, ev.fmt) THEN 2
     ELSE IF ev.reparsed # [title |-> Expected(v, ev.fmt).title, entries |-> v.entries] THEN 3
     ELSE IF ImageDetermined(v, ev.fmt, ev.endian) /\ ev.bytes # TextImage(v, ev.fmt, ev.endian) THEN 4   \* information only
     ELSE 0

Init == i = 1 /\ bad = <<>>
Next ==
  /\ i <= Len(Rec)
  /\ LET k == Clause(Rec[i]) IN bad' = IF k = 0 THEN bad ELSE Append(bad, <<i, k>>)
  /\ i' = i + 1
Spec == Init /\ [][Next]_vars
Report == (i = Len(Rec) + 1) => PrintT("R " \o ToJson([n |-> Len(Rec), bad |-> bad]))
=============================================================================
