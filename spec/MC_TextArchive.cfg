SPECIFICATION Spec
INVARIANT Inv
PROPERTY StepProps
CHECK_DEADLOCK FALSE
