--------------------------- MODULE MC_AssetBinary ---------------------------
(* Bounded model for C18.  2^51 presence combinations cannot be exhausted; the scope is
   all-absent, all-present, every single field, every PAIR of fields (a wrong width / order /
   bit of field i shows when another field j follows or precedes it), every field removed from
   all-present, and lists of 0..3 specs.  Thorough adds seeded pseudo-random presence sets.
   States: root -> bucket -> value.  MC_AssetBinary.cfg checks the laws; Gen_AssetBinary.cfg
   prints value, expected re-read value, expected archive content and expected file image. *)
EXTENDS AssetBinary, TLC, Json, IOUtils

BF == INSTANCE BinFormat

Tier == IF "VERIF_TIER" \in DOMAIN IOEnv THEN IOEnv.VERIF_TIER ELSE "quick"
Quick == Tier = "quick"
SeedBase == IF "VERIF_SEED" \in DOMAIN IOEnv THEN atoi(IOEnv.VERIF_SEED) ELSE 1

\* file image: one line to change if the container format gets another canonical writer
Image(c) == BF!Canon(c)
ImageLimit == 48
ImageOrNone(c) == IF Len(c.text) <= ImageLimit THEN Image(c) ELSE <<>>

\* ---- names whose Shift-JIS form is L bytes long: one single-byte character (`tag`), then double-byte characters
\* (so one of them straddles every even offset such as 64 and 128), then one more single byte if L is even
LongLens == <<63, 64, 65, 127, 128, 129>>
LongName(L, tag) ==
  <<tag>> \o [p \in 1..(2 * ((L - 1) \div 2)) |->
                IF p % 2 = 1 THEN (IF ((p + 1) \div 2) % 2 = 0 THEN 149 ELSE 130)
                ELSE (IF (p \div 2) % 2 = 0 THEN 92 ELSE 160)]
          \o (IF (L - 1) % 2 = 1 THEN <<98>> ELSE <<>>)
\* ---- field values
StrVal(i) == CASE i % 3 = 0 -> <<>> [] i % 3 = 1 -> <<97 + (i % 26), 95, 48 + (i % 10)>> [] OTHER -> <<130, 160 + i, 149, 92>>
F32Pats == << <<63, 128, 0, 0>>,      \* 1.0
              <<127, 192, 0, 1>>,     \* quiet NaN with payload
              <<255, 160, 18, 52>>,   \* negative signalling NaN with payload
              <<128, 0, 0, 0>>,       \* -0.0
              <<127, 128, 0, 0>>,     \* +inf
              <<0, 0, 0, 1>> >>       \* smallest denormal
TypedVal(i) ==
  CASE FKind(i) = "color" -> <<i, 60 + i, 120 + i, 180 + i>>
    [] FKind(i) = "f32"   -> F32Pats[(i % 6) + 1]
    [] OTHER              -> <<200 + (i % 50), i, 255 - i, 7 * (i % 30)>>
\* absentStyle: "default" = absent typed fields hold zero, "junk" = they hold a non-default value
MkSpecWith(P, name, absentStyle, strOf(_)) ==
  [name |-> name,
   f |-> [n \in FieldNames |->
            LET i == CHOOSE i \in 1..NF : FName(i) = n IN
            IF FKind(i) = "str" THEN (IF i \in P THEN Str(strOf(i)) ELSE NoStr)
            ELSE [some |-> i \in P, v |-> IF i \in P \/ absentStyle = "junk" THEN TypedVal(i) ELSE <<0, 0, 0, 0>>]]]
MkSpec(P, name, absentStyle) == MkSpecWith(P, name, absentStyle, StrVal)
LongStr(i) == LongName(LongLens[(i % 6) + 1], 97 + (i % 26))
NameA == Str(<<110, 97, 109, 101>>)
NameB == Str(<<130, 160>>)
HeaderFlags == << <<0, 0, 0, 0>>, <<1, 2, 3, 4>>, <<255, 254, 128, 127>> >>
All == 1..NF
Style(k) == IF k % 2 = 0 THEN "default" ELSE "junk"
One(s, h) == [flags |-> HeaderFlags[h], specs |-> <<s>>]

Pool == << MkSpec({}, NoStr, "default"), MkSpec(All, NameA, "default"), MkSpec({1, 31}, NameB, "junk"), MkSpec({2, 33, 37, 51}, NameA, "junk") >>

Buckets ==
  { [t |-> "pair", i |-> i] : i \in 1..(NF - 1) }
  \cup { [t |-> x, i |-> 0] : x \in {"single", "allbut", "edge", "lists", "long"} }
ValuesOf(b) ==
  CASE b.t = "pair"   -> { One(MkSpec({b.i, j}, IF j % 5 = 0 THEN NoStr ELSE NameA, Style(b.i + j)), 1 + ((b.i + j) % 3)) : j \in (b.i + 1)..NF }
    [] b.t = "single" -> { One(MkSpec({i}, NameA, st), 1 + (i % 3)) : i \in 1..NF, st \in {"default", "junk"} }
    [] b.t = "allbut" -> { One(MkSpec(All \ {i}, NameB, Style(i)), 1 + (i % 3)) : i \in 1..NF }
    [] b.t = "edge"   -> { One(MkSpec(P, nm, st), h) : P \in { {}, All, 1..31, 32..NF, 1..33, 34..NF }, nm \in {NoStr, Str(<<>>), NameA},
                                                       st \in {"default", "junk"}, h \in 1..3 }
    [] b.t = "long"   -> { One(MkSpecWith(P, Str(LongName(L, 78)), "junk", LongStr), 2) :
                             P \in { All, 1..31, {1, 33}, {5}, {32, 33, 40} }, L \in {63, 64, 65, 127, 128, 129} }
    [] b.t = "lists"  -> { [flags |-> HeaderFlags[2], specs |-> <<>>] }
                         \cup { [flags |-> HeaderFlags[1], specs |-> <<Pool[i]>>] : i \in 1..4 }
                         \cup { [flags |-> HeaderFlags[2], specs |-> <<Pool[i], Pool[j]>>] : i \in 1..4, j \in 1..4 }
                         \cup { [flags |-> HeaderFlags[3], specs |-> <<Pool[i], Pool[j], Pool[k]>>] : i \in 1..4, j \in 1..4, k \in 1..4 }

\* ---- seeded pseudo-random presence sets (thorough)
Lcg(x) == (x * 75 + 74) % 65537
RECURSIVE LcgSeq(_, _, _)
LcgSeq(x, n, acc) == IF n = 0 THEN acc ELSE LcgSeq(Lcg(x), n - 1, Append(acc, Lcg(x)))
RndSpec(r, off) ==     \* density from r[off]: sparse / half / dense
  LET d == r[off] % 3
      P == { i \in 1..NF : IF d = 0 THEN r[off + i] % 8 = 0 ELSE IF d = 1 THEN r[off + i] % 2 = 0 ELSE r[off + i] % 8 # 0 }
  IN MkSpec(P, IF r[off] % 7 = 0 THEN NoStr ELSE NameA, Style(r[off + 1]))
RndValue(seed) ==
  LET r == LcgSeq(seed, 3 * (NF + 1) + 2, <<>>)
      n == 1 + (r[1] % 3)
  IN [flags |-> HeaderFlags[1 + (r[2] % 3)], specs |-> [k \in 1..n |-> RndSpec(r, 2 + (k - 1) * (NF + 1) + 1)]]
RndSeeds == IF Quick THEN {} ELSE { (3000 + 211 * k + 13 * SeedBase) % 65537 : k \in 1..6 }
RndSteps == 4000
GenRndSteps == 2000     \* of which this many per chain are also printed for replay

VARIABLE c
Init == c = [k |-> "root"]
PickBucket == c.k = "root" /\ c' \in { [k |-> "bucket", b |-> b] : b \in Buckets }
PickValue == c.k = "bucket" /\ c' \in { [k |-> "val", v |-> v] : v \in ValuesOf(c.b) }
PickSeed == c.k = "root" /\ c' \in { [k |-> "rnd", seed |-> s, step |-> 0] : s \in RndSeeds }
StepSeed == c.k = "rnd" /\ c.step < RndSteps /\ c' = [k |-> "rnd", seed |-> Lcg(c.seed), step |-> c.step + 1]
Next == PickBucket \/ PickValue \/ PickSeed \/ StepSeed
Spec == Init /\ [][Next]_c

Laws(v) ==
  LET ct == AssetContent(v) IN
  /\ IsAssetValue(v)
  /\ RoundTrip(v) /\ Idempotent(v) /\ SizeLaw(v)
  /\ \A k \in 1..Len(v.specs) : FormLaw(v.specs[k])
  /\ Len(ct.text) <= ImageLimit =>
        /\ BF!ValidContent(ct)
        /\ LET p == BF!RefParse(Image(ct), "le") IN p.ok /\ BF!SameContent(ct, p.c)

\* the reference reader is not vacuous: moving one flag bit changes what is read
Damage ==
  LET v == One(MkSpec({3, 40}, NameA, "default"), 2)
      ct == AssetContent(v)
      \* flag byte 0: marker + bit 3 -> marker + bit 4  (SubSeq forces the lazily defined data into a tuple)
      bad == [ct EXCEPT !.data = [SubSeq(ct.data, 1, Len(ct.data)) EXCEPT ![4 + 1] = 17]]
  IN RefParseAsset(ct) = [ok |-> TRUE, v |-> Norm(v)] /\ RefParseAsset(bad) # RefParseAsset(ct)

Inv == CASE c.k = "val" -> Laws(c.v)
         [] c.k = "rnd" -> Laws(RndValue(c.seed))
         [] c.k = "root" -> TableOK /\ Damage
                            /\ \A r \in { [n_specs |-> n, present |-> pr, named |-> nm] : n \in {0, 2}, nm \in BOOLEAN,
                                            pr \in { <<>>, <<"voice">>, <<"hid", "unk3">>, [i \in 1..33 |-> FName(i)] } } : BigRuleLaw(r)
         [] OTHER -> TRUE

EmitOne(v) == LET ct == AssetContent(v) IN
              PrintT("G " \o ToJson([value |-> v, expect |-> Norm(v), content |-> ct, image |-> ImageOrNone(ct)]))
Emit == CASE c.k = "val" -> EmitOne(c.v)
          [] c.k = "rnd" /\ c.step < GenRndSteps -> EmitOne(RndValue(c.seed))
          [] OTHER -> TRUE
=============================================================================
