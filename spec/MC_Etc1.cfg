SPECIFICATION LawSpec
INVARIANT LawInv
CHECK_DEADLOCK FALSE
