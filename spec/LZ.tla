-------------------------------- MODULE LZ --------------------------------
(* LZ10 / LZ11 / LZ13 (properties C08 - C11).

   Bytes are integers 0..255, byte strings are sequences (1-based).

   A FORMAT is a record
     [name, type, W, MinLen, LA, LB, MaxLen, forms, ext]
   type    first byte of the stream (0x10 / 0x11)
   W       window: largest displacement a back-reference may carry
   forms   1: one reference layout (2 bytes);  3: the three LZ11 layouts,
           selected by the high nibble of the first reference byte
   MinLen..LA   lengths of the 2-byte form   (LZ10: MinLen..MaxLen)
   LA+1..LB     lengths of the 3-byte form   (indicator nibble 0)
   LB+1..MaxLen lengths of the 4-byte form   (indicator nibble 1)
   ext     a zero 24-bit length announces a 32-bit length (LZ11 only)
   The byte layouts are the real ones; the SCALED formats used for exhaustive
   model checking keep the layouts and only narrow the legal ranges (a
   reference outside them is a decoding error, which cannot happen at the real
   constants where the ranges are exactly what the bit fields can hold).

   TOKENS  Lit(b) | Ref(len, disp) | Run(n, seed)   (Run = macro for n literals)

   DECODER = state machine over a stream s, one step per header / flag byte /
   token.  State  [st, pos, out, flags, bits, declared, why]:
     st   "hdr" -> "run" -> one of the terminal classes
          "done"  Finish: declared bytes produced and no stream byte left
          "err"   Fail(why): short | type | trunc | range | before
          "open"  the property statements leave the outcome open:
                  trail (bytes left after completion), over (final reference
                  overshoots the declared length), ext (32-bit length header)
     why  name of the last action taken (vacuity/coverage guard)

   Contents: Expand / ExpandSlow (token semantics), Encode / EncodeN / Wrap / Stored,
   DStep (one decoder action), RunFrom / RunIter / Decode, WellFormed, SizeBound /
   PeriodBound (C10), StreamOKd / CompressOK (abstract nondeterministic compressor,
   C08 / C09), Greedy (scaled model of mila's tokeniser), Route / Classify /
   ResAllowed (outcome classes of the decompression entry points, C11).       *)
EXTENDS Naturals, Sequences, FiniteSets
LOCAL SX == INSTANCE SequencesExt      \* FoldLeft (evaluated iteratively by TLC)

\* ------------------------------------------------------------------ formats
LZ10 == [name |-> "lz10", type |-> 16, W |-> 4096, MinLen |-> 3, LA |-> 18, LB |-> 18,
         MaxLen |-> 18, forms |-> 1, ext |-> FALSE]
LZ11 == [name |-> "lz11", type |-> 17, W |-> 4096, MinLen |-> 3, LA |-> 16, LB |-> 272,
         MaxLen |-> 65808, forms |-> 3, ext |-> TRUE]
\* scaled variants for exhaustive model checking
LZ10s == [LZ10 EXCEPT !.W = 6, !.LA = 5, !.LB = 5, !.MaxLen = 5]
LZ11s == [LZ11 EXCEPT !.W = 6, !.LA = 4, !.LB = 6, !.MaxLen = 8]

WrapType == 19      \* 0x13: LZ13 wrapper
StoredType == 0

Min(a, b) == IF a < b THEN a ELSE b
CeilDiv(a, b) == (a + b - 1) \div b

\* ------------------------------------------------------------------ tokens
Lit(b)       == [k |-> "lit", b |-> b, len |-> 1, disp |-> 0]
Ref(l, dd)   == [k |-> "ref", b |-> 0, len |-> l, disp |-> dd]
Run(n, seed) == [k |-> "run", b |-> seed, len |-> n, disp |-> 0]

\* j-th byte (1-based) of a literal run: never constant, no short period
RunByte(seed, j) == (seed + 7 * j + (j \div 64)) % 256
RunBytes(t) == [j \in 1..t.len |-> RunByte(t.b, j)]

\* macro expansion: token sequence without Run tokens
RECURSIVE Flat(_)
Flat(ts) ==
  IF Len(ts) = 0 THEN <<>>
  ELSE LET t == ts[1] IN
       (IF t.k = "run" THEN [j \in 1..t.len |-> Lit(RunByte(t.b, j))] ELSE <<t>>)
          \o Flat(Tail(ts))

\* number of bytes a token sequence produces
RECURSIVE OutLen(_)
OutLen(ts) == IF Len(ts) = 0 THEN 0 ELSE ts[1].len + OutLen(Tail(ts))

\* ------------------------------------------------------------------ expansion
\* Definition of a back-reference: copy len bytes ONE AT A TIME from disp bytes
\* back (so the copy may overlap the bytes it produces).
RECURSIVE CopySlow(_, _, _)
CopySlow(out, dd, n) ==
  IF n = 0 THEN out ELSE CopySlow(Append(out, out[Len(out) - dd + 1]), dd, n - 1)

\* Closed form of the same copy (used by the decoder; MC_LZ checks the two agree)
Copied(out, len, dd) == [j \in 1..len |-> out[Len(out) - dd + ((j - 1) % dd) + 1]]

RefOK(t, m) == t.k # "ref" \/ (1 <= t.disp /\ t.disp <= m)

RECURSIVE ExpandFrom(_, _, _)
ExpandFrom(out, ts, slow) ==
  IF Len(ts) = 0 THEN out
  ELSE LET t == ts[1] IN
       ExpandFrom(CASE t.k = "lit" -> Append(out, t.b)
                    [] t.k = "run" -> out \o RunBytes(t)
                    [] t.k = "ref" -> IF slow THEN CopySlow(out, t.disp, t.len)
                                      ELSE out \o Copied(out, t.len, t.disp),
                  Tail(ts), slow)
Expand(ts)     == ExpandFrom(<<>>, ts, FALSE)
ExpandSlow(ts) == ExpandFrom(<<>>, ts, TRUE)

\* every reference reaches only into data already produced
RECURSIVE RefsOK(_, _)
RefsOK(ts, m) == Len(ts) = 0 \/ (RefOK(ts[1], m) /\ RefsOK(Tail(ts), m + ts[1].len))

InFormat(F, t) ==
  t.k # "ref" \/ (F.MinLen <= t.len /\ t.len <= F.MaxLen /\ 1 <= t.disp /\ t.disp <= F.W)

\* ------------------------------------------------------------------ encoder
Hi(dd) == (dd - 1) \div 256
Lo(dd) == (dd - 1) % 256

EncRef(F, t) ==
  IF F.forms = 1 THEN << (t.len - F.MinLen) * 16 + Hi(t.disp), Lo(t.disp) >>
  ELSE IF t.len <= F.LA THEN << (t.len - F.MinLen + 2) * 16 + Hi(t.disp), Lo(t.disp) >>
  ELSE IF t.len <= F.LB THEN
       LET v == t.len - F.LA - 1 IN << v \div 16, (v % 16) * 16 + Hi(t.disp), Lo(t.disp) >>
  ELSE LET v == t.len - F.LB - 1 IN
       << 16 + v \div 4096, (v \div 16) % 256, (v % 16) * 16 + Hi(t.disp), Lo(t.disp) >>

EncTok(F, t) == IF t.k = "lit" THEN <<t.b>> ELSE EncRef(F, t)

\* flag byte of a group of <= 8 tokens: first token = most significant bit, 1 = reference
RECURSIVE FlagByte(_, _)
FlagByte(g, w) == IF Len(g) = 0 THEN 0
                  ELSE (IF g[1].k = "ref" THEN w ELSE 0) + FlagByte(Tail(g), w \div 2)

RECURSIVE Cat(_)
Cat(ss) == IF Len(ss) = 0 THEN <<>> ELSE ss[1] \o Cat(Tail(ss))

\* tokens a..b (at most 8) as one group: flag byte, then the tokens
GroupBytes(F, ts, a, b) ==
  <<FlagByte(SubSeq(ts, a, b), 128)>> \o Cat([i \in 1..(b - a + 1) |-> EncTok(F, ts[a + i - 1])])

\* all groups in order (iteration over the group index; TLC evaluates FoldLeft without recursion)
EncGroups(F, ts) ==
  LET n == Len(ts) IN
  SX!FoldLeft(LAMBDA acc, g : acc \o GroupBytes(F, ts, 8 * (g - 1) + 1, Min(8 * g, n)), <<>>,
              [g \in 1..CeilDiv(n, 8) |-> g])

HeaderBytes(F, n) == << F.type, n % 256, (n \div 256) % 256, (n \div 65536) % 256 >>

\* stream for a token sequence, declaring n bytes of output
EncodeN(F, ts, n) == HeaderBytes(F, n) \o EncGroups(F, Flat(ts))
Encode(F, ts) == EncodeN(F, ts, OutLen(ts))

Wrap(b1, b2, b3, s) == <<WrapType, b1, b2, b3>> \o s
Stored(data) == LET n == Len(data) IN
                <<StoredType, n % 256, (n \div 256) % 256, (n \div 65536) % 256>> \o data

\* ------------------------------------------------------------------ decoder
Terminal == {"done", "err", "open"}

Dec0(off) == [st |-> "hdr", pos |-> off + 1, out |-> <<>>, flags |-> 0, bits |-> 0,
              declared |-> 0, why |-> ""]

U24(s, p) == s[p] + 256 * s[p + 1] + 65536 * s[p + 2]

Stop(d, st, why) == [d EXCEPT !.st = st, !.why = why]

Ind(s, p) == s[p] \div 16
RefSize(F, s, p) == IF F.forms = 1 THEN 2
                    ELSE IF Ind(s, p) = 0 THEN 3 ELSE IF Ind(s, p) = 1 THEN 4 ELSE 2
RefLen(F, s, p) ==
  IF F.forms = 1 THEN Ind(s, p) + F.MinLen
  ELSE IF Ind(s, p) = 0 THEN (s[p] % 16) * 16 + s[p + 1] \div 16 + F.LA + 1
  ELSE IF Ind(s, p) = 1 THEN (s[p] % 16) * 4096 + s[p + 1] * 16 + s[p + 2] \div 16 + F.LB + 1
  ELSE Ind(s, p) - 2 + F.MinLen
\* the displacement is the low 12 bits of the last two bytes of the token, plus 1
RefDisp(F, s, p) == LET q == p + RefSize(F, s, p) - 2 IN (s[q] % 16) * 256 + s[q + 1] + 1
RefLenMax(F, s, p) ==
  IF F.forms = 1 THEN F.MaxLen
  ELSE IF Ind(s, p) = 0 THEN F.LB ELSE IF Ind(s, p) = 1 THEN F.MaxLen ELSE F.LA

\* current flag bit: bits = number of unread flag bits, the most significant first
FlagBit(d) == (d.flags \div (2 ^ (d.bits - 1))) % 2

\* One step of the decoder.  Total on non-terminal states; the action taken is
\* recorded in .why.
DStep(F, s, d) ==
  LET n == Len(s)
      p == d.pos
      m == Len(d.out)
  IN
  IF d.st = "hdr" THEN
       IF n - p + 1 < 4 THEN Stop(d, "err", "short")
       ELSE IF s[p] # F.type THEN Stop(d, "err", "type")
       ELSE IF F.ext /\ U24(s, p + 1) = 0 THEN Stop(d, "open", "ext")
       ELSE [d EXCEPT !.st = "run", !.pos = p + 4, !.declared = U24(s, p + 1), !.why = "Header"]
  ELSE IF m = d.declared THEN
       \* Finish; unread flag bits of the last group are not constrained
       IF p = n + 1 THEN Stop(d, "done", "Finish") ELSE Stop(d, "open", "trail")
  ELSE IF d.bits = 0 THEN
       IF p > n THEN Stop(d, "err", "trunc")
       ELSE [d EXCEPT !.flags = s[p], !.bits = 8, !.pos = p + 1, !.why = "LoadFlags"]
  ELSE IF FlagBit(d) = 0 THEN
       IF p > n THEN Stop(d, "err", "trunc")
       ELSE [d EXCEPT !.out = Append(d.out, s[p]), !.bits = d.bits - 1, !.pos = p + 1,
                      !.why = "Literal"]
  ELSE IF p > n \/ p + RefSize(F, s, p) - 1 > n THEN Stop(d, "err", "trunc")
  ELSE LET len  == RefLen(F, s, p)
           dd   == RefDisp(F, s, p)
       IN IF len > RefLenMax(F, s, p) \/ len < F.MinLen \/ dd > F.W THEN Stop(d, "err", "range")
          ELSE IF dd > m THEN Stop(d, "err", "before")      \* reaches before the start of the output
          ELSE IF m + len > d.declared THEN Stop(d, "open", "over")
          ELSE [d EXCEPT !.out = d.out \o Copied(d.out, len, dd), !.bits = d.bits - 1,
                         !.pos = p + RefSize(F, s, p), !.why = "BackRef"]

RECURSIVE RunFrom(_, _, _)
RunFrom(F, s, d) == IF d.st \in Terminal THEN d ELSE RunFrom(F, s, DStep(F, s, d))

\* Derived macro step: when all unread flag bits of the current group announce literals and
\* the stream and the declared length have room for them, take them in one step.  Equal to
\* d.bits consecutive Literal steps of DStep.
FastStep(F, s, d) ==
  LET b == d.bits IN
  IF d.st = "run" /\ b >= 2 /\ d.flags % (2 ^ b) = 0
     /\ d.pos + b - 1 <= Len(s) /\ Len(d.out) + b <= d.declared
  THEN [d EXCEPT !.out = d.out \o SubSeq(s, d.pos, d.pos + b - 1), !.bits = 0, !.pos = d.pos + b,
                 !.why = "Literal"]
  ELSE DStep(F, s, d)

\* The same run written as a bounded iteration (every step consumes a stream byte or
\* terminates, so Len(s) + 3 steps suffice) over FastStep; TLC evaluates FoldLeft without
\* recursion, which matters for streams of thousands of tokens.  MC_LZ checks
\* RunIter = RunFrom on every stream variant of the scaled model.
RunIter(F, s, d) ==
  SX!FoldLeft(LAMBDA acc, x : IF acc.st \in Terminal THEN acc ELSE FastStep(F, s, acc), d,
              [i \in 1..(Len(s) + 3) |-> i])

\* decode the stream that starts off bytes into s
Decode(F, s, off) == RunIter(F, s, Dec0(off))

WellFormed(F, s, off) == Decode(F, s, off).st = "done"

\* ------------------------------------------------------------------ validating decoder
\* The decoder machine run against a KNOWN expected output: n bytes, the i-th being In(i).
\* `out` is not stored: the invariant out = <<In(1), ..., In(m)>> replaces it, so a literal must
\* be In(m+1) and a back-reference is legal iff it reaches only into the m bytes produced, does
\* not pass n, and copies exactly the next bytes of the expected output (CopyOK).  Same token
\* layouts, same order of checks as DStep; terminal "done" iff Decode ends in Finish with
\* out = the expected output and the header declares n (MC_LZ checks this equivalence on every
\* stream variant).  Used for inputs too large to carry `out` through TLC (up to 16 MiB).
V0(off) == [st |-> "hdr", pos |-> off + 1, m |-> 0, flags |-> 0, bits |-> 0, why |-> ""]

CopyOK(In(_), m, len, dd) == \A j \in 1..len : In(m + j) = In(m - dd + ((j - 1) % dd) + 1)

VStep(F, s, n, In(_), Copy(_, _, _), v) ==
  LET z == Len(s)
      p == v.pos
      m == v.m
  IN
  IF v.st = "hdr" THEN
       IF z - p + 1 < 4 THEN Stop(v, "err", "short")
       ELSE IF s[p] # F.type THEN Stop(v, "err", "type")
       ELSE IF U24(s, p + 1) # n THEN Stop(v, "err", "declared")
       ELSE [v EXCEPT !.st = "run", !.pos = p + 4, !.why = "Header"]
  ELSE IF m = n THEN
       IF p = z + 1 THEN Stop(v, "done", "Finish") ELSE Stop(v, "err", "trail")
  ELSE IF v.bits = 0 THEN
       IF p > z THEN Stop(v, "err", "trunc")
       ELSE [v EXCEPT !.flags = s[p], !.bits = 8, !.pos = p + 1, !.why = "LoadFlags"]
  ELSE IF FlagBit(v) = 0 THEN
       IF p > z THEN Stop(v, "err", "trunc")
       ELSE IF s[p] # In(m + 1) THEN Stop(v, "err", "mismatch")
       ELSE [v EXCEPT !.m = m + 1, !.bits = v.bits - 1, !.pos = p + 1, !.why = "Literal"]
  ELSE IF p > z \/ p + RefSize(F, s, p) - 1 > z THEN Stop(v, "err", "trunc")
  ELSE LET len == RefLen(F, s, p)
           dd  == RefDisp(F, s, p)
       IN IF len > RefLenMax(F, s, p) \/ len < F.MinLen \/ dd > F.W THEN Stop(v, "err", "range")
          ELSE IF dd > m THEN Stop(v, "err", "before")
          ELSE IF m + len > n THEN Stop(v, "err", "over")
          ELSE IF ~Copy(m, len, dd) THEN Stop(v, "err", "mismatch")
          ELSE [v EXCEPT !.m = m + len, !.bits = v.bits - 1, !.pos = p + RefSize(F, s, p),
                         !.why = "BackRef"]

VRun(F, s, off, n, In(_), Copy(_, _, _)) ==
  SX!FoldLeft(LAMBDA acc, x : IF acc.st \in Terminal THEN acc ELSE VStep(F, s, n, In, Copy, acc),
              V0(off), [i \in 1..(Len(s) + 3) |-> i])

\* expected output given as a sequence
VRunSeq(F, s, off, x) ==
  VRun(F, s, off, Len(x), LAMBDA i : x[i], LAMBDA m, l, dd : CopyOK(LAMBDA i : x[i], m, l, dd))

\* expected output given by its SHAPE  sh = [head, pat, nb, tail]:  the bytes of head, then the
\* pattern pat repeated to nb bytes (the body), then the bytes of tail.  (Run = pattern of one
\* byte; purely periodic = empty head and tail; "long compressible body, incompressible tail" and
\* the mirrored form are the other members.)  A copy that lies entirely inside the body - source
\* and destination - from a multiple of the period back reproduces the periodic continuation by
\* construction (ShapeLemma, checked by MC_LZ at small scale), so it is not re-examined byte by
\* byte; every other copy is.
Shape(head, pat, nb, tail) == [head |-> head, pat |-> pat, nb |-> nb, tail |-> tail]
SLen(sh) == Len(sh.head) + sh.nb + Len(sh.tail)
PIn(pat, i) == pat[((i - 1) % Len(pat)) + 1]
SIn(sh, i) == IF i <= Len(sh.head) THEN sh.head[i]
              ELSE IF i <= Len(sh.head) + sh.nb THEN PIn(sh.pat, i - Len(sh.head))
              ELSE sh.tail[i - Len(sh.head) - sh.nb]
InBody(sh, m, len, dd) == m - dd >= Len(sh.head) /\ m + len <= Len(sh.head) + sh.nb
SCopyOK(sh, m, len, dd) ==
  (InBody(sh, m, len, dd) /\ dd % Len(sh.pat) = 0) \/ CopyOK(LAMBDA i : SIn(sh, i), m, len, dd)
VRunShaped(F, s, off, sh) ==
  VRun(F, s, off, SLen(sh), LAMBDA i : SIn(sh, i), LAMBDA m, l, dd : SCopyOK(sh, m, l, dd))
ShapeLemma(sh, m, len, dd) ==
  (dd >= 1 /\ dd <= m /\ InBody(sh, m, len, dd) /\ dd % Len(sh.pat) = 0)
     => CopyOK(LAMBDA i : SIn(sh, i), m, len, dd)

\* ------------------------------------------------------------------ size bounds (C10)
\* fmt = "lz10" | "lz13".  H header bytes, R bytes per reference at most, L longest match.
HdrLen(fmt) == IF fmt = "lz10" THEN 4 ELSE 8
RefCost(fmt) == IF fmt = "lz10" THEN 2 ELSE 4
MatchMax(fmt) == IF fmt = "lz10" THEN 18 ELSE 4096

\* n input bytes, c compressed bytes: never more than header + input + one flag byte per 8 input bytes
SizeBoundG(H, n, c) == c <= H + n + CeilDiv(n, 8)
SizeBound(fmt, n, c) == SizeBoundG(HdrLen(fmt), n, c)

\* input of n bytes with period p: header, p+2 literals, ceil((n-p)/L)+1 references, one flag byte per 8 tokens
PeriodBoundG(H, R, L, n, p, c) ==
  LET refs == CeilDiv(n - p, L) + 1
      toks == (p + 2) + refs
  IN c <= H + (p + 2) + R * refs + CeilDiv(toks, 8)
PeriodBound(fmt, n, p, c) == PeriodBoundG(HdrLen(fmt), RefCost(fmt), MatchMax(fmt), n, p, c)

HasPeriod(x, p) == p >= 1 /\ p < Len(x) /\ \A i \in 1..(Len(x) - p) : x[i] = x[i + p]
Periods(x) == { p \in 1..(Len(x) - 1) : HasPeriod(x, p) }

\* ------------------------------------------------------------------ abstract compressor (C08, C09)
\* Nondeterministic specification of compression: ANY stream is acceptable that is
\* well-formed, expands to the input, declares its length and respects the size bound.
\* CompOff: where the LZ10 / LZ11 stream starts inside the compressor's output.
CompFmt(fmt) == IF fmt = "lz10" THEN LZ10 ELSE LZ11
CompOff(fmt) == IF fmt = "lz10" THEN 0 ELSE 4
\* lz13: byte 1 = 0x13, bytes 2..4 of the wrapper are not constrained by the statement
Wrapped(fmt, s) == fmt = "lz10" \/ (Len(s) >= 4 /\ s[1] = WrapType)
\* d = terminal state of the decoder machine run over s from CompOff(fmt).
\* StreamOKd is what C08 / C09 demand of the stream (well-formed, expands to the input, header
\* carries the input length); the size bound is C10's and is part of the abstract compressor.
StreamOKd(fmt, x, s, d) ==
  /\ Wrapped(fmt, s)
  /\ d.st = "done" /\ d.out = x /\ d.declared = Len(x)
CompressOKd(fmt, x, s, d) == StreamOKd(fmt, x, s, d) /\ SizeBound(fmt, Len(x), Len(s))
CompressOK(fmt, x, s) ==
  Wrapped(fmt, s) /\ CompressOKd(fmt, x, s, Decode(CompFmt(fmt), s, CompOff(fmt)))

\* C08 / C09 acceptance for an input given by its shape (SLen >= 1).  For LZ13 only byte 1 of the
\* wrapper is examined: bytes 2..4 are whatever the compressor writes (mila: an in-place
\* decompression margin, reduced modulo 2^24), the statement gives them no meaning, and neither
\* this acceptance nor the outcome classes of the decompression entry points (Route) read them -
\* a decoder must not depend on them.
StreamOKShaped(fmt, sh, s) ==
  Wrapped(fmt, s) /\ VRunShaped(CompFmt(fmt), s, CompOff(fmt), sh).st = "done"
StreamOKPeriodic(fmt, pat, n, s) == StreamOKShaped(fmt, Shape(<<>>, pat, n, <<>>), s)

\* ------------------------------------------------------------------ greedy tokeniser (scaled model of mila's compressor)
\* longest match at position i (0-based count of bytes consumed) with displacement dd, look-ahead look
RECURSIVE MatchLen(_, _, _, _, _)
MatchLen(x, i, dd, look, k) ==
  IF k < look /\ x[i + k + 1] = x[i + k + 1 - dd] THEN MatchLen(x, i, dd, look, k + 1) ELSE k

\* as get_occurrence_length: displacements old_length down to 2 (never 1), first longest wins
Best(F, x, i) ==
  LET win  == Min(i, F.W)
      look == Min(Len(x) - i, F.MaxLen)
      cand == { <<MatchLen(x, i, dd, look, 0), dd>> : dd \in 2..win }
      top  == IF cand = {} THEN 0 ELSE CHOOSE l \in { c[1] : c \in cand } : \A c \in cand : c[1] <= l
  IN IF top = 0 THEN <<0, 0>>
     ELSE <<top, CHOOSE dd \in 2..win : <<top, dd>> \in cand /\ \A e \in 2..win : <<top, e>> \in cand => e <= dd>>

RECURSIVE GreedyFrom(_, _, _)
GreedyFrom(F, x, i) ==
  IF i >= Len(x) THEN <<>>
  ELSE LET b == Best(F, x, i) IN
       IF b[1] < F.MinLen THEN <<Lit(x[i + 1])>> \o GreedyFrom(F, x, i + 1)
       ELSE <<Ref(b[1], b[2])>> \o GreedyFrom(F, x, i + b[1])
Greedy(F, x) == GreedyFrom(F, x, 0)

\* reference cost at a (scaled) format, bytes
RefBytes(F, t) == IF F.forms = 1 \/ t.len <= F.LA THEN 2 ELSE IF t.len <= F.LB THEN 3 ELSE 4

\* ------------------------------------------------------------------ decompression entry points (C11)
\* Classification of an arbitrary byte string handed to an entry point:
\*   cls "ok"    must return Ok(out)
\*       "err"   must return Err
\*       "okerr" Ok(out) or Err        (stream of the sibling format: accepting it is not demanded)
\*       "open"  Ok(anything) or Err   (statement silent)
\* and never a panic / abort in any class.
Cls(c, out, why) == [cls |-> c, out |-> out, why |-> why]
OfDecode(d) == CASE d.st = "done" -> Cls("ok", d.out, "")
                 [] d.st = "err"  -> Cls("err", <<>>, d.why)
                 [] d.st = "open" -> Cls("open", <<>>, d.why)
Weaken(c) == IF c.cls = "ok" THEN [c EXCEPT !.cls = "okerr", !.why = "sibling"] ELSE c

Base(entry) == IF entry \in {"lz10", "cf10"} THEN "lz10" ELSE "lz13"

\* Dispatch on the first bytes: either the outcome class is known directly, or it is the
\* class of the terminal state of the decoder machine run with format F from offset off.
Direct(c)       == [run |-> FALSE, F |-> LZ10, off |-> 0, weak |-> FALSE, direct |-> c]
Machine(F, o, w) == [run |-> TRUE, F |-> F, off |-> o, weak |-> w, direct |-> Cls("err", <<>>, "")]

Route(entry, s) ==
  LET n == Len(s) IN
  IF n = 0 THEN Direct(Cls("err", <<>>, "empty"))
  ELSE IF Base(entry) = "lz10" THEN
       IF s[1] = LZ10.type THEN Machine(LZ10, 0, FALSE)
       ELSE IF s[1] = LZ11.type THEN Machine(LZ11, 0, TRUE)
       ELSE Direct(Cls("err", <<>>, IF n < 4 THEN "short" ELSE "type"))
  ELSE IF s[1] = StoredType THEN
            IF n < 4 THEN Direct(Cls("err", <<>>, "short"))
            ELSE IF U24(s, 2) = n - 4 THEN Direct(Cls("ok", SubSeq(s, 5, n), "stored"))
            ELSE Direct(Cls("open", <<>>, "storedlen"))
       ELSE IF s[1] = WrapType THEN
            IF n < 8 THEN Direct(Cls("err", <<>>, "short"))
            ELSE IF s[5] = LZ11.type THEN Machine(LZ11, 4, FALSE)
            ELSE IF s[5] = LZ10.type THEN Machine(LZ10, 4, TRUE)
            ELSE IF s[5] \in {StoredType, WrapType} THEN Direct(Cls("open", <<>>, "nested"))
            ELSE Direct(Cls("err", <<>>, "type"))
       ELSE IF s[1] = LZ10.type THEN Machine(LZ10, 0, FALSE)
       ELSE IF s[1] = LZ11.type THEN Machine(LZ11, 0, FALSE)
       ELSE Direct(Cls("err", <<>>, IF n < 4 THEN "short" ELSE "type"))

\* 32-bit length header (zero 24-bit field, then the length as a little-endian u32).  The statement leaves open
\* whether an entry point accepts this form ("open"/"ext" above).  But when the tokens after the 8-byte header are a
\* conforming encoding of exactly the announced number of bytes, the stream encodes that data under the accepting
\* reading and is "the rest" under the other: Ok(encoded data) or Err; Ok(anything else) satisfies neither.
\* (Lengths >= 2^30 stay open: TLC integers.)
ExtApplies(F, s, off) == /\ F.ext /\ Len(s) - off >= 8 /\ s[off + 1] = F.type /\ U24(s, off + 2) = 0
                         /\ s[off + 8] < 64
ExtDecode(F, s, off) == RunIter(F, s, [Dec0(off) EXCEPT !.st = "run", !.pos = off + 9, !.why = "Header",
                                          !.declared = U24(s, off + 5) + 16777216 * s[off + 8]])
ExtRefine(r, s, c) ==
  IF r.run /\ c.cls = "open" /\ c.why = "ext" /\ ExtApplies(r.F, s, r.off)
  THEN LET x == ExtDecode(r.F, s, r.off) IN IF x.st = "done" THEN Cls("okerr", x.out, "extdone") ELSE c
  ELSE c

\* class given the route and the decoder's terminal state
ClassOf(r, d) == IF ~r.run THEN r.direct
                 ELSE IF r.weak THEN Weaken(OfDecode(d)) ELSE OfDecode(d)
Classify(entry, s) == LET r == Route(entry, s) IN
                      ClassOf(r, IF r.run THEN Decode(r.F, s, r.off) ELSE Dec0(0))

\* ------------------------------------------------------------------ large literal-only streams (C11, stream sizes 2^16 .. 2^20)
\* A stream of n literals taken from an 8-byte pattern pat is: header, then groups of a zero flag
\* byte and 8 literals (the last group possibly shorter).  Its body therefore has period 9 and
\* starts with <<0>> \o pat; TLC decides that with two native sequence comparisons instead of a
\* million decoder steps.  LitLemma (checked by MC_LZ at small n): such a stream decodes to pat
\* repeated to n bytes; a proper prefix that keeps the header is a truncation (err).
LitBodyLen(n) == n + CeilDiv(n, 8)
LitBodyOK(s, off, pat) ==
  LET L == Len(s) - off - 4
      g == <<0>> \o pat
  IN /\ Len(pat) = 8
     /\ L >= 0
     /\ L >= 1 => SubSeq(s, off + 5, off + 4 + Min(9, L)) = SubSeq(g, 1, Min(9, L))
     /\ L > 9 => SubSeq(s, off + 5, Len(s) - 9) = SubSeq(s, off + 14, Len(s))
LitHeaderOK(F, s, off, n) == Len(s) >= off + 4 /\ s[off + 1] = F.type /\ U24(s, off + 2) = n /\ n >= 1
IsLitStream(F, s, off, pat, n) ==
  LitHeaderOK(F, s, off, n) /\ LitBodyOK(s, off, pat) /\ Len(s) - off - 4 = LitBodyLen(n)
IsLitTrunc(F, s, off, pat, n) ==
  LitHeaderOK(F, s, off, n) /\ LitBodyOK(s, off, pat) /\ Len(s) - off - 4 < LitBodyLen(n)

LitLemma(F, s, off, pat, n) ==
  /\ IsLitStream(F, s, off, pat, n) =>
        LET d == Decode(F, s, off) IN d.st = "done" /\ d.out = [i \in 1..n |-> PIn(pat, i)]
  /\ IsLitTrunc(F, s, off, pat, n) =>
        LET d == Decode(F, s, off) IN d.st = "err" /\ d.why = "trunc"

\* outcome class of such a stream at an entry point (the expected output is pat repeated to n bytes;
\* out is not materialised: the harness reports whether the result equals it).  "undecided" when the
\* bytes are neither the literal stream nor a truncation of it: the closed form does not apply.
LitClassify(entry, s, pat, n) ==
  LET r == Route(entry, s) IN
  IF ~r.run THEN r.direct
  ELSE LET c == IF IsLitStream(r.F, s, r.off, pat, n) THEN Cls("ok", <<>>, "lit")
                ELSE IF IsLitTrunc(r.F, s, r.off, pat, n) THEN Cls("err", <<>>, "trunc")
                ELSE Cls("undecided", <<>>, "")
       IN IF r.weak THEN Weaken(c) ELSE c
\* res = [kind, same |-> result = pat repeated to n bytes]
LitResAllowed(c, res) ==
  CASE c.cls = "ok"    -> res.kind = "ok" /\ res.same
    [] c.cls = "err"   -> res.kind = "err"
    [] c.cls = "okerr" -> (res.kind = "ok" /\ res.same) \/ res.kind = "err"
    [] c.cls = "open"  -> res.kind \in {"ok", "err"}
    [] OTHER           -> FALSE

\* res = [kind |-> "ok" | "err" | "panic" | "abort" | "timeout", out |-> bytes, alloc |-> BOOLEAN]
\* (alloc: the worker died because a single allocation request above the harness allocator's
\*  refusal threshold of 1 GiB was made.  Only for the 32-bit length header, whose handling the
\*  statement leaves open, is that tolerated: the decoder may reserve the declared size.)
ResAllowed(c, res) ==
  CASE c.cls = "ok"    -> res.kind = "ok" /\ res.out = c.out
    [] c.cls = "err"   -> res.kind = "err"
    [] c.cls = "okerr" -> (res.kind = "ok" /\ res.out = c.out) \/ res.kind = "err"
    [] c.cls = "open"  -> \/ res.kind \in {"ok", "err"}
                          \/ (c.why = "ext" /\ res.kind = "abort" /\ res.alloc)
=============================================================================
