------------------------- MODULE MC_TextArchive -------------------------
(* Bounded model of the text archive state machine: exhaustive check of the
   C07 laws (MC_TextArchive.cfg) and emission of every (state, call) with its
   allowed outcomes for replay against the real TextArchive (Gen_TextArchive.cfg). *)
EXTENDS TextArchive, TLC, Json, IOUtils, SequencesExt

Tier == IF "VERIF_TIER" \in DOMAIN IOEnv THEN IOEnv.VERIF_TIER ELSE "quick"

KeySet == {"k1", "k2", "k3"}
Titles == {"", "T"}
MsgQuick == { <<>>, <<97>>, <<BS, LN>>, <<BS, BS, LN>>, <<LF, LN>> }
MsgThorough == MsgQuick \cup { <<LF>>, <<BS>>, <<LN>>, <<BS, LF>>, <<97, BS, LN, 97>>,
                               <<BS, LN, BS, LN>>, <<BS, BS>> }
Msgs == IF Tier = "quick" THEN MsgQuick ELSE MsgThorough

Events ==
  { [op |-> "set", k |-> k, m |-> m, t |-> ""] : k \in KeySet, m \in Msgs }
  \cup { [op |-> o, k |-> k, m |-> <<>>, t |-> ""] : o \in {"delete", "get", "has"}, k \in KeySet }
  \cup { [op |-> "settitle", k |-> "", m |-> <<>>, t |-> t] : t \in Titles }
  \cup { [op |-> "reparse", k |-> "", m |-> <<>>, t |-> ""] }

VARIABLE st

Init == st = New("")

DoSet      == \E k \in KeySet, m \in Msgs : \E o \in SetOutcomes(st, k, m) : st' = o.st
DoDelete   == \E k \in KeySet : \E o \in DeleteOutcomes(st, k) : st' = o.st
DoSetTitle == \E t \in Titles : \E o \in SetTitleOutcomes(st, t) : st' = o.st
DoReparse  == \E o \in ReparseOutcomes(st, TRUE, "") : st' = o.st
Next == DoSet \/ DoDelete \/ DoSetTitle \/ DoReparse

Spec == Init /\ [][Next]_st

\* ---- state invariants (the property over the reference semantics)
Inv ==
  /\ KeysDistinct(st)
  /\ NoStoredPair(st)
  /\ EscapeSymmetric(st)
  /\ SetGetIsNoop(st)
  \* lookups return the last value set
  /\ \A k \in KeySet, m \in Msgs : \A o \in SetOutcomes(st, k, m) :
        /\ o.st.dirty
        /\ \A g \in GetOutcomes(o.st, k) : g.res = SomeRes(Escape(Unescape(m)))
        /\ \A h \in HasOutcomes(o.st, k) : h.res.some
        \* re-setting keeps the place, a new key is appended
        /\ IF HasKey(st, k) THEN KeySeq(o.st) = KeySeq(st) ELSE KeySeq(o.st) = Append(KeySeq(st), k)
  \* deletion removes exactly that key
  /\ \A k \in KeySet : \A o \in DeleteOutcomes(st, k) :
        /\ ~HasKey(o.st, k)
        /\ Keys(o.st) = Keys(st) \ {k}
  \* observers do not change the state
  /\ \A k \in KeySet : \A o \in GetOutcomes(st, k) \cup HasOutcomes(st, k) : o.st = st

\* ---- step properties
StepProps == [][OrderStable(st, st') /\ NewKeyLast(st, st')]_st

\* ---- the pure escaping law on all short messages (ASSUME-level check)
Alphabet == {97, BS, LN, LF}
RECURSIVE SeqsUpTo(_)
SeqsUpTo(n) == IF n = 0 THEN { <<>> }
               ELSE LET s == SeqsUpTo(n - 1) IN s \cup { Append(x, c) : x \in s, c \in Alphabet }
EscapeLaw == \A m \in SeqsUpTo(IF Tier = "quick" THEN 4 ELSE 6) :
                LET u == Unescape(m) IN ~HasPair(u) /\ Unescape(Escape(u)) = u
ASSUME EscapeLaw

\* ---- generator: one line per (state, call)
Emit == \A ev \in Events :
          PrintT("G " \o ToJson([pre |-> st, ev |-> ev,
                                allowed |-> SetToSeq(Outcomes(st, ev, TRUE, ""))]))
=============================================================================
