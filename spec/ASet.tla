-------------------------------- MODULE ASet --------------------------------
(* Animation-set file (property C17): value <-> bin-archive CONTENT.

   Value:  [meta  : optional string,
            clips : 257 optional strings                      (AnimClipNameTable),
            sets  : sequence of [label : optional string, slots : 256 optional strings]]
   optional string = [some |-> BOOLEAN, v |-> Shift-JIS byte sequence]  (absent: v = <<>>).
   In mila: ASetFile { meta, anim_clip_table (257), sets: each a Vec of 257 = label, slot 1..256 }.

   The file is a little-endian bin archive whose data region is a sequence of 4-byte cells:
     u32 4 | string cell (meta) | u32 0x100 | 257 string cells, labelled "AnimClipNameTable" |
     per set: [label on the set's first byte] main flags (bit g set iff group g of 32 slots has a
              present slot), then for every non-empty group its 32-bit flag word followed by one
              string cell per present slot in slot order.
   Absent slots cost nothing; an entirely absent group is omitted.

   ASetContent(v)      the archive content [endian,data,text,ptrs,labels,cstr] (BinFormat's record)
   RefParseASet(c)     the inverse walk (total): [ok |-> TRUE, v |-> value] or [ok |-> FALSE]
   SetSize(s)          bytes a set occupies
   The file image is BinFormat!Canon(ASetContent(v)) (wired in MC_ASet / Trace_ASet). *)
EXTENDS Bytes

NoStr == [some |-> FALSE, v |-> <<>>]
Str(s) == [some |-> TRUE, v |-> s]

ClipCount == 257
SlotCount == 256
GroupCount == 8
GroupSize == 32
HeaderLen == 12
SetsStart == HeaderLen + 4 * ClipCount        \* 1040
ClipLabel == <<65, 110, 105, 109, 67, 108, 105, 112, 78, 97, 109, 101, 84, 97, 98, 108, 101>>  \* "AnimClipNameTable"

IsOpt(o) == /\ o.some \in BOOLEAN
            /\ \A k \in 1..Len(o.v) : o.v[k] \in 1..255
            /\ (~o.some => o.v = <<>>)
IsASetValue(v) ==
  /\ IsOpt(v.meta)
  /\ Len(v.clips) = ClipCount /\ \A i \in 1..ClipCount : IsOpt(v.clips[i])
  /\ \A k \in 1..Len(v.sets) :
        /\ IsOpt(v.sets[k].label)
        /\ Len(v.sets[k].slots) = SlotCount /\ \A i \in 1..SlotCount : IsOpt(v.sets[k].slots[i])

\* ------------------------------------------------------------------ flags
\* group g in 0..7, bit b in 0..31  <->  slot g*32 + b + 1 in 1..256
Slot(g, b) == g * GroupSize + b + 1
Has(s, g, b) == s.slots[Slot(g, b)].some
GroupPresent(s, g) == \E b \in 0..(GroupSize - 1) : Has(s, g, b)
B(cond, w) == IF cond THEN w ELSE 0
\* byte k (0 = least significant) of the flag word of group g
FlagByte(s, g, k) ==
  B(Has(s, g, 8 * k), 1) + B(Has(s, g, 8 * k + 1), 2) + B(Has(s, g, 8 * k + 2), 4) + B(Has(s, g, 8 * k + 3), 8)
  + B(Has(s, g, 8 * k + 4), 16) + B(Has(s, g, 8 * k + 5), 32) + B(Has(s, g, 8 * k + 6), 64) + B(Has(s, g, 8 * k + 7), 128)
MainFlags(s) ==
  B(GroupPresent(s, 0), 1) + B(GroupPresent(s, 1), 2) + B(GroupPresent(s, 2), 4) + B(GroupPresent(s, 3), 8)
  + B(GroupPresent(s, 4), 16) + B(GroupPresent(s, 5), 32) + B(GroupPresent(s, 6), 64) + B(GroupPresent(s, 7), 128)

PresentSlots(s) == Cardinality({ i \in 1..SlotCount : s.slots[i].some })
NonEmptyGroups(s) == Cardinality({ g \in 0..(GroupCount - 1) : GroupPresent(s, g) })
SetSize(s) == 4 * (1 + NonEmptyGroups(s) + PresentSlots(s))

\* ------------------------------------------------------------------ value -> cells -> content
\* a cell = [bytes |-> 4 bytes, str |-> optional string carried by the cell]
WordCell(bytes) == [bytes |-> bytes, str |-> NoStr]
StrCell(o) == [bytes |-> Zeros(4), str |-> o]

GroupCells(s, g) ==
  IF ~GroupPresent(s, g) THEN <<>>
  ELSE LET present == SelectSeq([b \in 1..GroupSize |-> Slot(g, b - 1)], LAMBDA i : s.slots[i].some)
       IN <<WordCell(<<FlagByte(s, g, 0), FlagByte(s, g, 1), FlagByte(s, g, 2), FlagByte(s, g, 3)>>)>>
          \o [k \in 1..Len(present) |-> StrCell(s.slots[present[k]])]
SetCells(s) ==
  <<WordCell(<<MainFlags(s), 0, 0, 0>>)>>
  \o GroupCells(s, 0) \o GroupCells(s, 1) \o GroupCells(s, 2) \o GroupCells(s, 3)
  \o GroupCells(s, 4) \o GroupCells(s, 5) \o GroupCells(s, 6) \o GroupCells(s, 7)

RECURSIVE ConcatAcc(_, _, _)
ConcatAcc(ss, i, acc) == IF i > Len(ss) THEN acc ELSE ConcatAcc(ss, i + 1, acc \o ss[i])
Concat(ss) == ConcatAcc(ss, 1, <<>>)

FileCells(v) ==
  <<WordCell(U32(4, "le")), StrCell(v.meta), WordCell(U32(256, "le"))>>
  \o [i \in 1..ClipCount |-> StrCell(v.clips[i])]
  \o Concat([k \in 1..Len(v.sets) |-> SetCells(v.sets[k])])

\* start address of every set
RECURSIVE SetAddrAcc(_, _, _, _)
SetAddrAcc(sets, k, a, acc) ==
  IF k > Len(sets) THEN acc ELSE SetAddrAcc(sets, k + 1, a + SetSize(sets[k]), Append(acc, a))
SetAddrs(v) == SetAddrAcc(v.sets, 1, SetsStart, <<>>)

CellsData(cells) == [p \in 1..(4 * Len(cells)) |-> cells[((p - 1) \div 4) + 1].bytes[((p - 1) % 4) + 1]]
CellsText(cells) ==
  LET idx == SelectSeq([k \in 1..Len(cells) |-> k], LAMBDA k : cells[k].str.some)
  IN [j \in 1..Len(idx) |-> <<4 * (idx[j] - 1), cells[idx[j]].str.v>>]

ASetContent(v) ==
  LET cells == FileCells(v)
      addrs == SetAddrs(v)
      labelled == SelectSeq([k \in 1..Len(v.sets) |-> k], LAMBDA k : v.sets[k].label.some)
  IN [endian |-> "le",
      data   |-> CellsData(cells),
      text   |-> CellsText(cells),
      ptrs   |-> <<>>,
      labels |-> << <<HeaderLen, <<ClipLabel>>>> >>
                 \o [j \in 1..Len(labelled) |-> <<addrs[labelled[j]], <<v.sets[labelled[j]].label.v>>>>],
      cstr   |-> <<>>]

\* ------------------------------------------------------------------ content -> value (inverse walk)
\* string carried by the cell at address a (text is sorted by address: binary search)
RECURSIVE TextFind(_, _, _, _)
TextFind(text, a, lo, hi) ==
  IF lo > hi THEN NoStr
  ELSE LET mid == (lo + hi) \div 2 IN
       IF text[mid][1] = a THEN Str(text[mid][2])
       ELSE IF text[mid][1] < a THEN TextFind(text, a, mid + 1, hi) ELSE TextFind(text, a, lo, mid - 1)
StringAt(c, a) == TextFind(c.text, a, 1, Len(c.text))

\* first label on address a
LabelAt(c, a) ==
  IF \E i \in 1..Len(c.labels) : c.labels[i][1] = a
  THEN Str(c.labels[CHOOSE i \in 1..Len(c.labels) : c.labels[i][1] = a][2][1])
  ELSE NoStr
\* address carrying the label `name`, -1 if none
AddrOfLabel(c, name) ==
  IF \E i \in 1..Len(c.labels) : \E j \in 1..Len(c.labels[i][2]) : c.labels[i][2][j] = name
  THEN c.labels[CHOOSE i \in 1..Len(c.labels) : \E j \in 1..Len(c.labels[i][2]) : c.labels[i][2][j] = name][1]
  ELSE -1

BitOfByte(byte, j) == (byte \div (2 ^ j)) % 2 = 1
\* bit b (0..31) of the little-endian word at address a
BitAt(c, a, b) == BitOfByte(c.data[a + (b \div 8) + 1], b % 8)
PopAt(c, a) == Cardinality({ b \in 0..31 : BitAt(c, a, b) })

(* one group: its slots (32 optional strings) given the address of its flag word *)
GroupSlots(c, ga) ==
  [b \in 1..GroupSize |->
     IF BitAt(c, ga, b - 1)
     THEN StringAt(c, ga + 4 * (1 + Cardinality({ x \in 0..(b - 2) : BitAt(c, ga, x) })))
     ELSE NoStr]
EmptyGroup == [b \in 1..GroupSize |-> NoStr]

\* walk the groups of the set whose main flag word is at address a; g = next group, ga = next free address
RECURSIVE GroupsAcc(_, _, _, _, _)
GroupsAcc(c, a, g, ga, acc) ==
  IF g = GroupCount THEN [ok |-> TRUE, slots |-> acc, next |-> ga]
  ELSE IF ~BitOfByte(c.data[a + 1], g) THEN GroupsAcc(c, a, g + 1, ga, acc \o EmptyGroup)
  ELSE IF ga + 4 > Len(c.data) THEN [ok |-> FALSE]
  ELSE IF ga + 4 + 4 * PopAt(c, ga) > Len(c.data) THEN [ok |-> FALSE]
  ELSE GroupsAcc(c, a, g + 1, ga + 4 + 4 * PopAt(c, ga), acc \o GroupSlots(c, ga))

RECURSIVE SetsAcc(_, _, _)
SetsAcc(c, a, acc) ==
  IF a >= Len(c.data) THEN [ok |-> TRUE, sets |-> acc]
  ELSE IF a + 4 > Len(c.data) THEN [ok |-> FALSE]
  ELSE LET g == GroupsAcc(c, a, 0, a + 4, <<>>) IN
       IF ~g.ok THEN [ok |-> FALSE]
       ELSE SetsAcc(c, g.next, Append(acc, [label |-> LabelAt(c, a), slots |-> g.slots]))

RefParseASet(c) ==
  LET ca == AddrOfLabel(c, ClipLabel) IN
  IF ca < 0 \/ Len(c.data) < 8 \/ ca + 4 * ClipCount > Len(c.data) THEN [ok |-> FALSE]
  ELSE LET s == SetsAcc(c, ca + 4 * ClipCount, <<>>) IN
       IF ~s.ok THEN [ok |-> FALSE]
       ELSE [ok |-> TRUE,
             v  |-> [meta  |-> StringAt(c, 4),
                     clips |-> [i \in 1..ClipCount |-> StringAt(c, ca + 4 * (i - 1))],
                     sets  |-> s.sets]]

\* ------------------------------------------------------------------ laws (the statement over the reference)
RoundTrip(v) == RefParseASet(ASetContent(v)) = [ok |-> TRUE, v |-> v]
Idempotent(v) == LET r == RefParseASet(ASetContent(v)) IN r.ok /\ ASetContent(r.v) = ASetContent(v)
\* absent slots cost nothing, an all-absent group is omitted: the set occupies exactly SetSize bytes
SizeLaw(v) ==
  /\ Len(ASetContent(v).data) = SetsStart + 4 * Len(Concat([k \in 1..Len(v.sets) |-> SetCells(v.sets[k])]))
  /\ \A k \in 1..Len(v.sets) :
       /\ 4 * Len(SetCells(v.sets[k])) = SetSize(v.sets[k])
       /\ SetSize(v.sets[k]) = 4 * (1 + NonEmptyGroups(v.sets[k]) + PresentSlots(v.sets[k]))
\* dropping one present slot shrinks the set by one cell, or by two if its group becomes empty
Without(s, i) == [s EXCEPT !.slots[i] = NoStr]
DropLaw(s) ==
  \A i \in 1..SlotCount : s.slots[i].some =>
     LET g == (i - 1) \div GroupSize
         alone == \A b \in 0..(GroupSize - 1) : Has(s, g, b) => Slot(g, b) = i
     IN SetSize(Without(s, i)) = SetSize(s) - (IF alone THEN 8 ELSE 4)

\* ------------------------------------------------------------------ values too large to travel as JSON
(* rule = [n_sets, slots, labelled, meta, clips]: n_sets sets, each with its first `slots` slots present,
   every set labelled or none, meta present or not, `clips` clip names present.  The harness builds the value by
   this rule; the specification decides from the rule alone what the container header must announce
   (data size, number of pointer-table entries = string cells, number of labels), and the round trip
   must succeed whatever these numbers are (2^16 is not a limit of the format). *)
BigGroups(k) == (k + GroupSize - 1) \div GroupSize
BigSetSize(rule) == 4 * (1 + BigGroups(rule.slots) + rule.slots)
BigDataSize(rule) == SetsStart + rule.n_sets * BigSetSize(rule)
BigStrings(rule) == (IF rule.meta THEN 1 ELSE 0) + rule.clips + rule.n_sets * rule.slots
BigLabels(rule) == 1 + (IF rule.labelled THEN rule.n_sets ELSE 0)
\* ev = [rule, len, head (first 32 bytes of the image), status, reparsed_equal, re_same]
BigHeaderOK(ev) ==
  /\ Len(ev.head) = 32
  /\ Rd32(ev.head, 0, "le") = ev.len
  /\ Rd32(ev.head, 4, "le") = BigDataSize(ev.rule)
  /\ Rd32(ev.head, 8, "le") = BigStrings(ev.rule)
  /\ Rd32(ev.head, 12, "le") = BigLabels(ev.rule)
\* the rule's totals agree with the general definitions (checked on small instances in MC_ASet)
BigRuleValue(rule, nameOf(_), labelOf(_)) ==
  [meta |-> IF rule.meta THEN Str(<<114>>) ELSE NoStr,
   clips |-> [i \in 1..ClipCount |-> IF i <= rule.clips THEN Str(nameOf(i)) ELSE NoStr],
   sets |-> [k \in 1..rule.n_sets |->
               [label |-> IF rule.labelled THEN Str(labelOf(k)) ELSE NoStr,
                slots |-> [i \in 1..SlotCount |-> IF i <= rule.slots THEN Str(nameOf(i)) ELSE NoStr]]]]
BigRuleLaw(rule) ==
  LET c == ASetContent(BigRuleValue(rule, LAMBDA i : <<115, 48 + (i % 10)>>, LAMBDA k : <<76, 48 + (k % 10)>>)) IN
  /\ Len(c.data) = BigDataSize(rule)
  /\ Len(c.text) = BigStrings(rule)
  /\ Len(c.labels) = BigLabels(rule)
=============================================================================
