------------------------ MODULE Trace_TexContainers ------------------------
(* Trace validation (impl -> spec) for C20.  mila has no container writer, so
   the recorded events are the outputs of the four readers on the generated
   files: {id, c, v, ok, out} with v the packed texture list and out the returned
   textures [key, name (code points), w, h, pixels] (+ mode, via).  An event is accepted iff the
   reader returned Ok and the list is the expected reading of v: same length and
   order, names (TPL: empty), dimensions, and pixel data that is an allowed
   decoding (Pixel!DecodeOK) of each texture's own payload.
   Events are independent: validated as leaves of a two-level tree so that TLC's
   workers share them; one line "E {i, ok, why}" per event.  *)
EXTENDS TexContainers, TLC, Json, IOUtils

Rec == ndJsonDeserialize(IOEnv.TRACE)
NB == 12

VARIABLE i          \* 0 root, -k bucket k, > 0 event index
Init == i = 0
Next == \/ i = 0 /\ i' \in { 0 - k : k \in 1..NB }
        \/ i < 0 /\ i' \in { j \in 1..Len(Rec) : (j % NB) + 1 = 0 - i }
Spec == Init /\ [][Next]_i

\* mode "list": the reader's own result; mode "map": the same file read through the layered filesystem's
\* typed readers (plain and LZ-compressed name), which return the textures keyed by name
Accept(ev) == /\ ev.ok /\ ValueOK(ev.c, ev.v)
              /\ IF ev.mode = "map" THEN MapReadOK(ev.c, ev.v, ev.out) ELSE ReadOK(ev.c, ev.v, ev.out)

\* which part of the expected reading fails first
Why(ev) ==
  IF ~ev.ok THEN "not Ok"
  ELSE IF ev.mode = "map" THEN "map"
  ELSE IF Len(ev.out) # Len(ev.v) THEN "count"
  ELSE IF \E t \in 1..Len(ev.v) : ev.out[t].name # (IF ev.c = "tpl" THEN <<>> ELSE ev.v[t].name) THEN "name"
  ELSE IF \E t \in 1..Len(ev.v) : ev.out[t].w # ev.v[t].w \/ ev.out[t].h # ev.v[t].h THEN "dimensions"
  ELSE "pixels"

Report ==
  i > 0 => LET ev == Rec[i]
               acc == Accept(ev)
           IN PrintT("E " \o ToJson([i |-> i, ok |-> acc, why |-> IF acc THEN "" ELSE Why(ev)]))
=============================================================================
