------------------------------- MODULE Pixel -------------------------------
(* Pixel formats of the 3DS (PICA200) and of the GameCube/Wii palette images
   (property C19): where the texel at (x, y) lives in the payload and which RGBA
   values a decoder may produce for it.

   The output of a decoder is w*h RGBA quadruples, row-major.  For every channel
   the specification gives either
     * an exact value (ETC1 colours; 255 for a channel the format does not store:
       alpha of opaque formats, colour of A8; palette look-up), or
     * the source bits v of width k, and then every out with
         Near(out, v, k) == |out * (2^k - 1) - 255 * v| <= 255
       is allowed: one quantisation step of the linear expansion 255*v/(2^k-1),
       inclusive.  (For k = 1 every value satisfies Near: a 1-bit alpha is
       unconstrained by the statement.)
   Offsets are 0-based, sequences 1-based; bytes are 0..255.  *)
EXTENDS Integers, Sequences, FiniteSets, Etc1

\* ------------------------------------------------------------------ formats
\* PICA200 texture format numbers as stored by CTPK / BCH / CGFX
RGBA8    == 0
RGBA5551 == 2
RGB565   == 3
RGBA4    == 4
LA8      == 5
L8       == 7
A8       == 8
ETC1     == 12
ETC1A4   == 13
PlainFormats == {RGBA8, RGBA5551, RGB565, RGBA4, LA8, L8, A8}
EtcFormats   == {ETC1, ETC1A4}
Formats3DS   == PlainFormats \cup EtcFormats
\* 4-bit formats the containers can also carry.  The pixel statement (C19) does not name them: their
\* decoding is not specified here (any w*h RGBA quadruples are accepted); their payload size is the
\* de-facto one of the readers' format table (L4: 4 bits per texel, A4: one byte per texel).
L4 == 10
A4 == 11
OpaqueFormats == {L4, A4}
ContainerFormats == Formats3DS \cup OpaqueFormats

BytesPerPixel(fmt) ==
  CASE fmt = RGBA8 -> 4
    [] fmt \in {RGBA5551, RGB565, RGBA4, LA8} -> 2
    [] fmt \in {L8, A8} -> 1

\* power-of-two sides from 8 up (the statement), as far as the u16 size fields of the containers reach usefully
TexSides == {8, 16, 32, 64, 128, 256, 512, 1024}

PayloadSize(fmt, w, h) ==
  IF fmt = L4 THEN (w * h) \div 2
  ELSE IF fmt = A4 THEN w * h
  ELSE IF fmt \in EtcFormats THEN EtcPayloadSize(w, h, fmt = ETC1A4)
  ELSE w * h * BytesPerPixel(fmt)

\* ------------------------------------------------------------------ tile order
Bit(v, k) == (v \div (2 ^ k)) % 2
\* de-interleave the 6-bit in-tile index: even bits -> x, odd bits -> y
MortonX(i) == Bit(i, 0) + 2 * Bit(i, 2) + 4 * Bit(i, 4)
MortonY(i) == Bit(i, 1) + 2 * Bit(i, 3) + 4 * Bit(i, 5)
Morton(i)  == <<MortonX(i), MortonY(i)>>
\* the inverse for x, y in 0..7 (bit j of x -> bit 2j, bit j of y -> bit 2j+1)
ZInterleave(x, y) ==
  (x % 2) + 2 * (y % 2) + 4 * ((x \div 2) % 2) + 8 * ((y \div 2) % 2) + 16 * (x \div 4) + 32 * (y \div 4)
\* index (in pixels) of texel (x, y) in the payload: 8x8 tiles row-major, Z-order inside
TileIndex(w, x, y) ==
  ((y \div 8) * (w \div 8) + (x \div 8)) * 64 + ZInterleave(x % 8, y % 8)
\* the same order as the customary 64-entry table (entry i = 8*y + x of the i-th texel)
TileTable ==
  << 0, 1, 8, 9, 2, 3, 10, 11, 16, 17, 24, 25, 18, 19, 26, 27,
     4, 5, 12, 13, 6, 7, 14, 15, 20, 21, 28, 29, 22, 23, 30, 31,
     32, 33, 40, 41, 34, 35, 42, 43, 48, 49, 56, 57, 50, 51, 58, 59,
     36, 37, 44, 45, 38, 39, 46, 47, 52, 53, 60, 61, 54, 55, 62, 63 >>

\* ------------------------------------------------------------------ tolerance
Abs(a) == IF a < 0 THEN 0 - a ELSE a
Near(out, v, k) == Abs(out * (2 ^ k - 1) - 255 * v) <= 255
\* the same set as an interval (checked equal to {o \in 0..255 : Near(o, v, k)} by MC_Pixel)
NearLo(v, k) == LET m == 2 ^ k - 1
                    n == 255 * v - 255
                IN IF n <= 0 THEN 0 ELSE (n + m - 1) \div m
NearHi(v, k) == LET m == 2 ^ k - 1
                    q == (255 * v + 255) \div m
                IN IF q > 255 THEN 255 ELSE q

\* A channel source is <<v, k>>: v = source bits, k = their width;
\* k = 0 stands for "exactly v".
Exact(v) == <<v, 0>>
SrcOK(out, s) == IF s[2] = 0 THEN out = s[1] ELSE Near(out, s[1], s[2])
SrcLo(s) == IF s[2] = 0 THEN s[1] ELSE NearLo(s[1], s[2])
SrcHi(s) == IF s[2] = 0 THEN s[1] ELSE NearHi(s[1], s[2])

\* ------------------------------------------------------------------ 3DS plain formats
U16LE(b, off) == b[off + 1] + 256 * b[off + 2]
Field(v, lo, n) == (v \div (2 ^ lo)) % (2 ^ n)

\* sources of the channels <<R, G, B, A>> of the pixel word at byte offset off.
\* The pixel word is little-endian; RGBA8 has R in bits 31..24 ... A in bits 7..0,
\* i.e. the bytes A, B, G, R in memory.
PlainSrc(fmt, b, off) ==
  CASE fmt = RGBA8 ->
         << <<b[off + 4], 8>>, <<b[off + 3], 8>>, <<b[off + 2], 8>>, <<b[off + 1], 8>> >>
    [] fmt = RGBA5551 ->
         LET v == U16LE(b, off) IN
         << <<Field(v, 11, 5), 5>>, <<Field(v, 6, 5), 5>>, <<Field(v, 1, 5), 5>>, <<Field(v, 0, 1), 1>> >>
    [] fmt = RGB565 ->
         LET v == U16LE(b, off) IN
         << <<Field(v, 11, 5), 5>>, <<Field(v, 5, 6), 6>>, <<Field(v, 0, 5), 5>>, Exact(255) >>
    [] fmt = RGBA4 ->
         LET v == U16LE(b, off) IN
         << <<Field(v, 12, 4), 4>>, <<Field(v, 8, 4), 4>>, <<Field(v, 4, 4), 4>>, <<Field(v, 0, 4), 4>> >>
    [] fmt = LA8 ->
         LET l == <<b[off + 2], 8>> IN << l, l, l, <<b[off + 1], 8>> >>
    [] fmt = L8 ->
         LET l == <<b[off + 1], 8>> IN << l, l, l, Exact(255) >>
    [] fmt = A8 ->
         << Exact(255), Exact(255), Exact(255), <<b[off + 1], 8>> >>

\* ------------------------------------------------------------------ ETC formats
\* A differential channel whose base + delta leaves 0..31 is outside the ETC1
\* rules: the sub-block-2 texels of that channel are then unconstrained.
Anything == <<0, 1>>          \* Near(out, 0, 1) holds for every out in 0..255
EtcSrc(fmt, b, w, x, y) ==
  LET al  == fmt = ETC1A4
      co  == EtcColourOffset(w, x, y, al)
      sub == EtcSub(b, co, x % 4, y % 4)
      C(ch) == IF sub = 2 /\ ~EtcChanValid(b, co, ch) THEN Anything
               ELSE Exact(EtcColour(b, co, x % 4, y % 4, ch))
  IN << C(0), C(1), C(2),
        IF al THEN <<EtcTexelAlpha4(b, w, x, y), 4>> ELSE Exact(255) >>

\* sources of texel (x, y) of a 3DS texture of width w with payload b
TexelSrc(fmt, b, w, x, y) ==
  IF fmt \in EtcFormats THEN EtcSrc(fmt, b, w, x, y)
  ELSE PlainSrc(fmt, b, TileIndex(w, x, y) * BytesPerPixel(fmt))

QuadOK(px, at, s) ==    \* px[at+1 .. at+4] is an allowed rendering of the sources s
  /\ SrcOK(px[at + 1], s[1]) /\ SrcOK(px[at + 2], s[2])
  /\ SrcOK(px[at + 3], s[3]) /\ SrcOK(px[at + 4], s[4])

TexelOK(fmt, b, w, x, y, px) == QuadOK(px, 4 * (y * w + x), TexelSrc(fmt, b, w, x, y))

\* Decode as a relation: px is an allowed decoding of (fmt, w, h, payload b)
ImageOK(fmt, w, h, b, px) ==
  /\ Len(px) = 4 * w * h
  /\ \A y \in 0..(h - 1) : \A x \in 0..(w - 1) : TexelOK(fmt, b, w, x, y, px)

BadTexels(fmt, w, h, b, px) ==
  { <<x, y>> \in (0..(w - 1)) \X (0..(h - 1)) : ~TexelOK(fmt, b, w, x, y, px) }

\* Decode as bounds: the channel sources of every texel (row-major), and from them
\* the sequences of lowest / highest allowed output bytes
ImageSrcs(fmt, w, h, b) == [p \in 1..(w * h) |-> TexelSrc(fmt, b, w, (p - 1) % w, (p - 1) \div w)]
BoundOf(srcs, hi) ==
  [k \in 1..(4 * Len(srcs)) |->
     LET s == srcs[((k - 1) \div 4) + 1][((k - 1) % 4) + 1]
     IN IF hi THEN SrcHi(s) ELSE SrcLo(s)]

\* ------------------------------------------------------------------ GameCube / Wii
\* RGB5A3: 16-bit big-endian value; bit 15 set -> RGB555 opaque, clear -> A3 RGB444
Rgb5a3Src(v) ==
  IF Field(v, 15, 1) = 1
  THEN << <<Field(v, 10, 5), 5>>, <<Field(v, 5, 5), 5>>, <<Field(v, 0, 5), 5>>, Exact(255) >>
  ELSE << <<Field(v, 8, 4), 4>>, <<Field(v, 4, 4), 4>>, <<Field(v, 0, 4), 4>>, <<Field(v, 12, 3), 3>> >>
U16BE(b, off) == 256 * b[off + 1] + b[off + 2]

\* a run of RGB5A3 values decoded one after the other (ColorFormat::decode)
Rgb5a3RunOK(b, px) ==
  /\ Len(b) % 2 = 0
  /\ Len(px) = 2 * Len(b)
  /\ \A i \in 0..((Len(b) \div 2) - 1) : QuadOK(px, 4 * i, Rgb5a3Src(U16BE(b, 2 * i)))

AlignUp(v, a) == ((v + a - 1) \div a) * a
CI8BlockW == 8
CI8BlockH == 4
CI8PayloadSize(w, h) == AlignUp(w, CI8BlockW) * AlignUp(h, CI8BlockH)
\* index in the payload of texel (x, y): 8x4 blocks row-major over the aligned
\* image, row-major inside a block
CI8Index(w, x, y) ==
  ((y \div CI8BlockH) * (AlignUp(w, CI8BlockW) \div CI8BlockW) + (x \div CI8BlockW)) * (CI8BlockW * CI8BlockH)
  + (y % CI8BlockH) * CI8BlockW + (x % CI8BlockW)
\* the inverse question: does payload offset o (0-based) hold a texel inside the w x h crop?  The other
\* offsets are padding up to the block size: their content is "don't care" (any byte, also one
\* that is no valid palette index); nothing in the expected image depends on them.
CI8InCrop(w, h, o) ==
  LET blk == o \div (CI8BlockW * CI8BlockH)
      bw  == AlignUp(w, CI8BlockW) \div CI8BlockW
      x   == (blk % bw) * CI8BlockW + (o % CI8BlockW)
      y   == (blk \div bw) * CI8BlockH + ((o % (CI8BlockW * CI8BlockH)) \div CI8BlockW)
  IN x < w /\ y < h
\* sources of texel (x, y) of a w x h palette image; pal = RGB5A3 palette bytes
CI8Src(w, b, pal, x, y) == Rgb5a3Src(U16BE(pal, 2 * b[CI8Index(w, x, y) + 1]))
\* every texel inside the crop refers to a palette entry that exists
CI8InDomain(w, h, b, pal) ==
  /\ Len(b) = CI8PayloadSize(w, h)
  /\ Len(pal) % 2 = 0
  /\ \A y \in 0..(h - 1) : \A x \in 0..(w - 1) : 2 * b[CI8Index(w, x, y) + 1] + 2 <= Len(pal)
CI8ImageOK(w, h, b, pal, px) ==
  /\ Len(px) = 4 * w * h
  /\ \A y \in 0..(h - 1) : \A x \in 0..(w - 1) :
        QuadOK(px, 4 * (y * w + x), CI8Src(w, b, pal, x, y))
CI8Srcs(w, h, b, pal) == [p \in 1..(w * h) |-> CI8Src(w, b, pal, (p - 1) % w, (p - 1) \div w)]

\* palette look-up on linear indices with an RGBA palette (ColorFormat::decode_indexed):
\* texel i is exactly palette entry idx[i]
IndexedOK(idx, rgba, px) ==
  /\ Len(px) = 4 * Len(idx)
  /\ \A i \in 0..(Len(idx) - 1) : \A c \in 1..4 : px[4 * i + c] = rgba[4 * idx[i + 1] + c]

\* ------------------------------------------------------------------ one entry point
\* t = [fmt, w, h, payload, pal]; fmt = CI8 marks a GameCube/Wii palette image
CI8 == 100
Rgb5a3Run == 101
DecodeOK(t, px) ==
  IF t.fmt = CI8 THEN CI8ImageOK(t.w, t.h, t.payload, t.pal, px)
  ELSE IF t.fmt \in OpaqueFormats THEN Len(px) = 4 * t.w * t.h /\ \A q \in 1..Len(px) : px[q] \in 0..255
  ELSE ImageOK(t.fmt, t.w, t.h, t.payload, px)
=============================================================================
