-------------------------- MODULE Trace_BinArchive --------------------------
(* impl -> spec for C03 / C04.  The harness logs every call made on a real
   BinArchive (positional or through a stream cursor) with its result, the cursor
   reported by tell() and the full projected state (pending c-strings through the
   verification hook).  Event i is accepted iff the observed outcome is one the
   specification allows from the previous logged state. *)
EXTENDS BinArchive, Json, IOUtils

Rec == ndJsonDeserialize(IOEnv.TRACE)

VARIABLES i, st, bad, noncanon
vars == <<i, st, bad, noncanon>>

Empty == [endian |-> "le", data |-> <<>>, text |-> <<>>, ptrs |-> <<>>, labels |-> <<>>, cstr |-> <<>>]
\* Two archives may be alive at the same time (events carry "obj"; histories on one object omit it): each object is
\* its own state machine - nothing done to one archive may show in the other.
Objs == {0, 1}
ObjOf(ev) == IF "obj" \in DOMAIN ev THEN ev.obj ELSE 0
Init == i = 1 /\ st = [o \in Objs |-> Empty] /\ bad = <<>> /\ noncanon = <<>>

\* serialize() after an arbitrary history (C02 "whatever the order of the calls that built them", C01 well-formedness):
\* when the logged state is inside the domain of the format properties, the image must be well-formed for it,
\* re-parse (reference parser) to the same content and - without pending c-strings, where the byte image is
\* determined - be exactly the canonical image of the state.  The call never changes the archive.
BF == INSTANCE BinFormat
\* structure (C01): well-formed for the state and re-parses to it;  canonical (C02): exactly the canonical image
SerializeStructOK(s, f) ==
  IF ~BF!ValidContent(s) THEN TRUE
  ELSE /\ BF!WellFormedFor(f, s)
       /\ LET r == BF!RefParse(f, s.endian) IN r.ok /\ BF!SameContent(r.c, BF!Reparsed(s))
SerializeCanonOK(s, f) ==
  (BF!ValidContent(s) /\ Len(s.cstr) = 0 /\ (s.endian = "le" \/ BF!BEOrderDetermined(s))) => f = BF!Canon(s)

AcceptAt(s, ev) ==
  \/ ev.op = "reset"
  \/ ev.op = "serialize" /\ ev.post = s /\ (BF!ValidContent(s) => ev.res.ok) /\ (ev.res.ok => SerializeStructOK(s, ev.res.v))
  \/ ev.op = "session" /\ "steps" \in DOMAIN ev.res /\ SessionAllowed(s, ev.a, ev.steps, ev.res.steps, ev.post)
  \/ ev.op \notin {"serialize", "session", "reset"} /\ Allowed(s, ev, [res |-> ev.res, pos |-> ev.pos, st |-> ev.post])
\* assert_equal_regions against the OTHER live archive (twin histories only)
AcceptTwin(ev) ==
  LET o == ObjOf(ev) IN
  /\ ev.post = st[o]
  /\ \E out \in EqualRegions2Outcomes(st[o], st[1 - o], ev.a, ev.t, ev.n) : out.res = ev.res
Accept(ev) == IF ev.op = "equal_regions2" THEN AcceptTwin(ev) ELSE AcceptAt(st[ObjOf(ev)], ev)
\* serialize events whose image is structurally fine but not the canonical image
NonCanonical(ev) == ev.op = "serialize" /\ ev.res.ok /\ Accept(ev) /\ ~SerializeCanonOK(st[ObjOf(ev)], ev.res.v)

Next ==
  /\ i <= Len(Rec)
  /\ LET ev == Rec[i] IN
       /\ bad' = IF Accept(ev) THEN bad ELSE Append(bad, i)
       /\ noncanon' = IF NonCanonical(ev) THEN Append(noncanon, i) ELSE noncanon
       /\ st' = [st EXCEPT ![ObjOf(ev)] = ev.post]
       /\ i' = i + 1
Spec == Init /\ [][Next]_vars

Report == (i = Len(Rec) + 1) => PrintT("R " \o ToJson([n |-> Len(Rec), bad |-> bad, noncanon |-> noncanon]))
=============================================================================
