-------------------------- MODULE Trace_BinArchive --------------------------
(* impl -> spec for C03 / C04.  The harness logs every call made on a real
   BinArchive (positional or through a stream cursor) with its result, the cursor
   reported by tell() and the full projected state (pending c-strings through the
   verification hook).  Event i is accepted iff the observed outcome is one the
   specification allows from the previous logged state. *)
EXTENDS BinArchive, Json, IOUtils

Rec == ndJsonDeserialize(IOEnv.TRACE)

VARIABLES i, st, bad
vars == <<i, st, bad>>

Empty == [endian |-> "le", data |-> <<>>, text |-> <<>>, ptrs |-> <<>>, labels |-> <<>>, cstr |-> <<>>]
Init == i = 1 /\ st = Empty /\ bad = <<>>

Accept(ev) ==
  \/ ev.op = "reset"
  \/ Allowed(st, ev, [res |-> ev.res, pos |-> ev.pos, st |-> ev.post])

Next ==
  /\ i <= Len(Rec)
  /\ LET ev == Rec[i] IN
       /\ bad' = IF Accept(ev) THEN bad ELSE Append(bad, i)
       /\ st' = ev.post
       /\ i' = i + 1
Spec == Init /\ [][Next]_vars

Report == (i = Len(Rec) + 1) => PrintT("R " \o ToJson([n |-> Len(Rec), bad |-> bad]))
=============================================================================
