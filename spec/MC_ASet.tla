------------------------------ MODULE MC_ASet ------------------------------
(* Bounded model for C17.  States: root -> bucket -> one state per value.
   MC_ASet.cfg checks the laws of ASet.tla on every value; Gen_ASet.cfg prints per value
   the expected archive content (and, for contents with few strings, the expected file
   image BinFormat!Canon(content)) for replay against mila::ASetFile.
   Thorough tier adds seeded pseudo-random chains over all 6^8 group assignments. *)
EXTENDS ASet, TLC, Json, IOUtils

BF == INSTANCE BinFormat

Tier == IF "VERIF_TIER" \in DOMAIN IOEnv THEN IOEnv.VERIF_TIER ELSE "quick"
Quick == Tier = "quick"
SeedBase == IF "VERIF_SEED" \in DOMAIN IOEnv THEN atoi(IOEnv.VERIF_SEED) ELSE 1

\* file image: one line to change if the container format gets another canonical writer
Image(c) == BF!Canon(c)
\* Canon is cubic in the number of distinct strings: images are produced for contents with few strings
ImageLimit == 48
ImageOrNone(c) == IF Len(c.text) <= ImageLimit THEN Image(c) ELSE <<>>

\* ---- names: "" / ASCII / 2-byte Shift-JIS (hiragana), either few (shared) or distinct per index
NameFew(i) == CASE i % 3 = 0 -> <<>> [] i % 3 = 1 -> <<65, 110, 105, 109>> [] OTHER -> <<130, 160, 149, 92>>
NameDistinct(i) == IF i % 2 = 0 THEN <<97 + (i % 26), 48 + ((i \div 26) % 10)>> ELSE <<130, 160 + (i % 80), 48 + (i \div 80)>>
\* ---- names whose Shift-JIS form is L bytes long: one single-byte character (`tag`), then double-byte characters
\* (so one of them straddles every even offset such as 64 and 128), then one more single byte if L is even
LongLens == <<63, 64, 65, 127, 128, 129>>
LongName(L, tag) ==
  <<tag>> \o [p \in 1..(2 * ((L - 1) \div 2)) |->
                IF p % 2 = 1 THEN (IF ((p + 1) \div 2) % 2 = 0 THEN 149 ELSE 130)
                ELSE (IF (p \div 2) % 2 = 0 THEN 92 ELSE 160)]
          \o (IF (L - 1) % 2 = 1 THEN <<98>> ELSE <<>>)
Name(nm, i) == IF nm = "few" THEN NameFew(i)
              ELSE IF nm = "long" THEN LongName(LongLens[(i % 6) + 1], 97 + (i % 26))
              ELSE NameDistinct(i)

\* ---- group patterns
Pat == << {}, {0}, {31}, {0, 31}, { b \in 0..31 : b % 2 = 0 }, 0..31 >>
SlotsFrom(assign, nm) ==      \* assign : 0..7 -> 1..6
  [i \in 1..SlotCount |->
     IF ((i - 1) % GroupSize) \in Pat[assign[(i - 1) \div GroupSize]] THEN Str(Name(nm, i)) ELSE NoStr]
AllEmpty == [g \in 0..7 |-> 1]
PairAssign == { [AllEmpty EXCEPT ![pr[1]] = p1, ![pr[2]] = p2] : pr \in { <<0, 1>>, <<2, 7>> }, p1 \in 1..6, p2 \in 1..6 }
SingleAssign == { [AllEmpty EXCEPT ![g] = p] : g \in 0..7, p \in 2..6 }
UniformAssign == { [g \in 0..7 |-> p] : p \in {1, 5, 6} }
Assignments == PairAssign \cup SingleAssign \cup UniformAssign

SetLabel == <<83, 101, 116, 95, 130, 160>>     \* "Set_" + hiragana a
MkSet(assign, nm, labelled) == [label |-> IF labelled THEN Str(SetLabel) ELSE NoStr, slots |-> SlotsFrom(assign, nm)]

\* ---- meta / clip table / naming combinations
Clips(kind, nm) ==
  [i \in 1..ClipCount |->
     CASE kind = "none"   -> NoStr
       [] kind = "sparse" -> IF i \in {1, ClipCount} THEN Str(Name(nm, i)) ELSE NoStr
       [] kind = "alt"    -> IF i % 2 = 0 THEN Str(Name(nm, i)) ELSE NoStr
       [] OTHER           -> Str(Name(nm, i))]
Combos == << [meta |-> NoStr, clips |-> "none", nm |-> "few"],
             [meta |-> Str(<<109, 101, 116, 97>>), clips |-> "dense", nm |-> "distinct"],
             [meta |-> Str(<<>>), clips |-> "sparse", nm |-> "few"],
             [meta |-> Str(<<130, 160>>), clips |-> "alt", nm |-> "distinct"] >>
MkValue(cb, sets) == [meta |-> cb.meta, clips |-> Clips(cb.clips, cb.nm), sets |-> sets]

\* ---- buckets (units of parallel work)
Pool6(nm) == << MkSet(AllEmpty, nm, FALSE), MkSet([g \in 0..7 |-> 6], nm, TRUE), MkSet([AllEmpty EXCEPT ![3] = 4], nm, TRUE),
                MkSet([g \in 0..7 |-> 5], nm, FALSE), MkSet([AllEmpty EXCEPT ![7] = 3], nm, FALSE), MkSet(AllEmpty, nm, TRUE) >>
Buckets ==
  { [t |-> "one", cb |-> k, lab |-> l] : k \in 1..4, l \in BOOLEAN }
  \cup { [t |-> "none", cb |-> 0, lab |-> FALSE] }
  \cup { [t |-> "two", cb |-> k, lab |-> FALSE] : k \in {1, 2} }
  \cup { [t |-> "three", cb |-> 3, lab |-> FALSE] }
  \cup { [t |-> "long", cb |-> 0, lab |-> TRUE] }
ValuesOf(b) ==
  CASE b.t = "one"   -> { MkValue(Combos[b.cb], <<MkSet(a, Combos[b.cb].nm, b.lab)>>) : a \in Assignments }
    [] b.t = "none"  -> { [meta |-> m, clips |-> Clips(ck, "few"), sets |-> <<>>] :
                            m \in {NoStr, Str(<<>>), Str(<<109>>)}, ck \in {"none", "sparse", "alt", "dense"} }
    [] b.t = "two"   -> { MkValue(Combos[b.cb], <<Pool6(Combos[b.cb].nm)[i], Pool6(Combos[b.cb].nm)[j]>>) : i \in 1..6, j \in 1..6 }
    [] b.t = "long"  -> { [meta |-> Str(LongName(65, 109)), clips |-> Clips(ck, "long"),
                             sets |-> << [label |-> Str(LongName(129, 76)), slots |-> SlotsFrom(a, "long")],
                                         [label |-> Str(LongName(64, 77)), slots |-> SlotsFrom(AllEmpty, "long")] >>] :
                            ck \in {"sparse", "alt"},
                            a \in { [AllEmpty EXCEPT ![3] = 4], [AllEmpty EXCEPT ![0] = 6], [g \in 0..7 |-> 5], [AllEmpty EXCEPT ![7] = 3, ![1] = 2] } }
    [] b.t = "three" -> { MkValue(Combos[b.cb], <<Pool6("few")[i], Pool6("few")[j], Pool6("few")[k]>>) :
                            i \in {1, 2, 3}, j \in {1, 2, 3}, k \in {1, 2, 3} }

\* ---- seeded pseudo-random values (thorough): any of the 6^8 assignments per set, 1..3 sets
Lcg(x) == (x * 75 + 74) % 65537
RECURSIVE LcgSeq(_, _, _)
LcgSeq(x, n, acc) == IF n = 0 THEN acc ELSE LcgSeq(Lcg(x), n - 1, Append(acc, Lcg(x)))
RndValue(seed) ==
  LET r == LcgSeq(seed, 40, <<>>)
      n == 1 + (r[1] % 3)
      nm == IF r[2] % 2 = 0 THEN "few" ELSE "distinct"
      sets == [k \in 1..n |-> MkSet([g \in 0..7 |-> 1 + (r[3 + 9 * (k - 1) + g] % 6)], nm, r[3 + 9 * (k - 1) + 8] % 2 = 0)]
  IN MkValue(Combos[1 + (r[32] % 4)], sets)
RndSeeds == IF Quick THEN {} ELSE { (2000 + 131 * k + 17 * SeedBase) % 65537 : k \in 1..6 }
RndSteps == 1200
GenRndSteps == 300     \* of which this many per chain are also printed for replay

VARIABLE c
Init == c = [k |-> "root"]
PickBucket == c.k = "root" /\ c' \in { [k |-> "bucket", b |-> b] : b \in Buckets }
PickValue == c.k = "bucket" /\ c' \in { [k |-> "val", v |-> v] : v \in ValuesOf(c.b) }
PickSeed == c.k = "root" /\ c' \in { [k |-> "rnd", seed |-> s, step |-> 0] : s \in RndSeeds }
StepSeed == c.k = "rnd" /\ c.step < RndSteps /\ c' = [k |-> "rnd", seed |-> Lcg(c.seed), step |-> c.step + 1]
Next == PickBucket \/ PickValue \/ PickSeed \/ StepSeed
Spec == Init /\ [][Next]_c

Laws(v) ==
  LET ct == ASetContent(v) IN
  /\ IsASetValue(v)
  /\ RoundTrip(v) /\ Idempotent(v) /\ SizeLaw(v)
  /\ \A k \in 1..Len(v.sets) : DropLaw(v.sets[k])
  \* the content is in the container format's domain and its image re-parses to it
  /\ Len(ct.text) <= ImageLimit =>
        /\ BF!ValidContent(ct)
        /\ LET p == BF!RefParse(Image(ct), "le") IN p.ok /\ BF!SameContent(ct, p.c)
\* the reference reader is not vacuous: one flipped presence bit changes the parsed value
Damage ==
  LET v == MkValue(Combos[3], <<MkSet([AllEmpty EXCEPT ![2] = 4], "few", TRUE)>>)
      ct == ASetContent(v)
      \* group flag word: bits {0,31} -> {0,1,31}  (SubSeq forces the lazily defined data into a tuple)
      bad == [ct EXCEPT !.data = [SubSeq(ct.data, 1, Len(ct.data)) EXCEPT ![SetsStart + 4 + 1] = 3]]
  IN RefParseASet(ct) = [ok |-> TRUE, v |-> v] /\ RefParseASet(bad) # RefParseASet(ct)
Inv == CASE c.k = "val" -> Laws(c.v)
         [] c.k = "rnd" -> Laws(RndValue(c.seed))
         [] c.k = "root" -> Damage /\ \A r \in { [n_sets |-> n, slots |-> k, labelled |-> l, meta |-> m, clips |-> cl] :
                                                     n \in {0, 2}, k \in {0, 1, 32, 33, 200, 256}, l \in BOOLEAN, m \in BOOLEAN, cl \in {0, 5} } : BigRuleLaw(r)
         [] OTHER -> TRUE


EmitOne(v) == LET ct == ASetContent(v) IN
              PrintT("G " \o ToJson([value |-> v, content |-> ct, image |-> ImageOrNone(ct)]))
Emit == CASE c.k = "val" -> EmitOne(c.v)
          [] c.k = "rnd" /\ c.step < GenRndSteps -> EmitOne(RndValue(c.seed))
          [] OTHER -> TRUE
=============================================================================
