------------------------------ MODULE Trace_LZ ------------------------------
(* Trace validation (impl -> spec) for C08 - C11.  One ndjson event per call of
   the real library:
     kind "comp"  [fmt, input, res, rt]   res = compress(input), rt = decompress(res.out)
     kind "bigcomp" [fmt, head, pat, tail, n, res, rt]  input of n bytes (up to 16 MiB - 1, not listed) given by
                                          its shape: head, then pat repeated, then tail;
                                          rt = [kind, same]: own decompression compared by the harness
     kind "dec"   [entry, stream, res]    res = <entry>.decompress(stream)
     kind "bigdec" [stream, pat, n, results]  stream of 2^16 .. 2^20 bytes built by rule (n literals of an
                                          8-byte pattern, possibly truncated); results = <<[entry, res]>>,
                                          res = [kind, same]: the result compared with pat repeated to n
     kind "size"  [fmt, n, p, input, ok, clen]   compress of an n-byte input of period p
                                          (p = 0: none claimed; input listed when small)
   For "comp" and "dec" the bytes produced / consumed by the library are run through
   the DECODER STATE MACHINE of LZ.tla at the real constants, one TLC step per
   header / flag byte / token (DStep); when the machine reaches a terminal class
   the event is accepted iff the library's result is one the specification allows
   (StreamOKd, ResAllowed; the size bounds of C10 are judged on the "size" events).
   A "bigcomp" event is judged in one step by the validating decoder (LZ!VRunShaped: same
   token layouts and checks, `out` replaced by the known expected output).
   A "bigdec" event is judged in one step by the closed form LZ!LitClassify (the stream's bytes
   are examined by TLC; MC_LZ ties the closed form to the decoder machine).
   Rejected event indices are collected in `bad`.  *)
EXTENDS LZ, TLC, Json, IOUtils

Rec == ndJsonDeserialize(IOEnv.TRACE)

\* hit / nref / tally are statistics measured by TLC for the evidence file (not part of the judgement):
\* nref = events whose decoding took at least one BackRef step; tally = events per terminal class
VARIABLES i, d, bad, hit, nref, tally
vars == <<i, d, bad, hit, nref, tally>>
\* `out` only ever grows within an event; position and length identify the state
View == <<i, d.st, d.pos, d.bits, Len(d.out), bad>>

\* how an event is validated: whether the decoder machine runs, on which bytes, from where
Plan(ev) ==
  IF ev.kind = "comp" THEN
       IF ev.res.kind = "ok" /\ Wrapped(ev.fmt, ev.res.out) /\ ~(ev.fmt = "lz13" /\ Len(ev.input) = 0)
       THEN [run |-> TRUE, F |-> CompFmt(ev.fmt), off |-> CompOff(ev.fmt), s |-> ev.res.out]
       ELSE [run |-> FALSE, F |-> LZ10, off |-> 0, s |-> <<>>]
  ELSE IF ev.kind = "dec" THEN
       LET r == Route(ev.entry, ev.stream) IN [run |-> r.run, F |-> r.F, off |-> r.off, s |-> ev.stream]
  ELSE [run |-> FALSE, F |-> LZ10, off |-> 0, s |-> <<>>]

Accept(ev, t) ==
  CASE ev.kind = "comp" ->
         IF ev.fmt = "lz13" /\ Len(ev.input) = 0
         THEN ev.res.kind \in {"ok", "err"}           \* C09: Ok or Err, nothing more is demanded
         ELSE /\ ev.res.kind = "ok"
              /\ StreamOKd(ev.fmt, ev.input, ev.res.out, t)
              /\ ev.rt.kind = "ok" /\ ev.rt.out = ev.input
    [] ev.kind = "bigcomp" ->
         /\ ev.res.kind = "ok"
         /\ StreamOKShaped(ev.fmt, Shape(ev.head, ev.pat, ev.n - Len(ev.head) - Len(ev.tail), ev.tail), ev.res.out)
         /\ ev.rt.kind = "ok" /\ ev.rt.same
    [] ev.kind = "bigdec" ->
         \A k \in 1..Len(ev.results) :
            LET c == LitClassify(ev.results[k].entry, ev.stream, ev.pat, ev.n) IN
            /\ Assert(c.cls # "undecided", "bigdec: stream is not a (truncated) literal stream - harness defect")
            /\ LitResAllowed(c, ev.results[k].res)
    [] ev.kind = "dec" -> ResAllowed(ClassOf(Route(ev.entry, ev.stream), t), ev.res)
    [] ev.kind = "size" ->
         /\ ev.ok
         /\ SizeBound(ev.fmt, ev.n, ev.clen)
         /\ ev.p > 0 => PeriodBound(ev.fmt, ev.n, ev.p, ev.clen)
         /\ \A q \in Periods(ev.input) : PeriodBound(ev.fmt, ev.n, q, ev.clen)

Start(k) == IF k <= Len(Rec) THEN Dec0(Plan(Rec[k]).off) ELSE Dec0(0)

Key(ev, t) ==
  CASE ev.kind = "comp" -> "comp:" \o t.st \o ":" \o t.why
    [] ev.kind = "bigcomp" -> "bigcomp"
    [] ev.kind = "bigdec" -> "bigdec"
    [] ev.kind = "dec"  -> LET c == ClassOf(Route(ev.entry, ev.stream), t) IN "dec:" \o c.cls \o ":" \o c.why
    [] ev.kind = "size" -> IF ev.p > 0 THEN "size:periodic"
                           ELSE IF Periods(ev.input) # {} THEN "size:small-periodic" ELSE "size:other"
Bump(f, k) == IF k \in DOMAIN f THEN [f EXCEPT ![k] = @ + 1] ELSE f @@ (k :> 1)

Init == i = 1 /\ d = Start(1) /\ bad = <<>> /\ hit = FALSE /\ nref = 0 /\ tally = <<>>

Next ==
  /\ i <= Len(Rec)
  /\ LET ev == Rec[i]
         pl == Plan(ev)
     IN IF pl.run /\ d.st \notin Terminal
        THEN /\ d' = DStep(pl.F, pl.s, d)
             /\ hit' = (hit \/ d'.why = "BackRef")
             /\ UNCHANGED <<i, bad, nref, tally>>
        ELSE /\ i' = i + 1
             /\ bad' = IF Accept(ev, d) THEN bad ELSE Append(bad, i)
             /\ d' = Start(i + 1)
             /\ hit' = FALSE
             /\ nref' = IF hit THEN nref + 1 ELSE nref
             /\ tally' = Bump(tally, Key(ev, d))

Spec == Init /\ [][Next]_vars

Report == (i = Len(Rec) + 1) => PrintT("R " \o ToJson([n |-> Len(Rec), bad |-> bad, nref |-> nref, tally |-> tally]))
=============================================================================
