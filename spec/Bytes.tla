------------------------------- MODULE Bytes -------------------------------
(* Byte-level vocabulary shared by the format specifications.
   Bytes are integers 0..255, byte strings are sequences, offsets are 0-based
   (as in the file formats); TLA+ sequences are 1-based, hence the "+ 1"s.
   TLC integers are 32-bit: a 32-bit field read from untrusted bytes is returned
   as a natural number when it is below 2^31 and as Huge (-1) otherwise; every
   use compares it against small lengths, for which "huge" is simply "too big". *)
EXTENDS Naturals, Integers, Sequences, SequencesExt, FiniteSets

Byte == 0..255
Huge == -1

Pow2(n) == 2 ^ n

\* ---- writing words (value < 2^31) in the given endianness ("le" / "be")
U16(n, e) ==
  LET b0 == n % 256
      b1 == (n \div 256) % 256
  IN IF e = "le" THEN <<b0, b1>> ELSE <<b1, b0>>

U32(n, e) ==
  LET b0 == n % 256
      b1 == (n \div 256) % 256
      b2 == (n \div 65536) % 256
      b3 == (n \div 16777216) % 256
  IN IF e = "le" THEN <<b0, b1, b2, b3>> ELSE <<b3, b2, b1, b0>>

\* a 32-bit pattern given as 4 bytes in significance order (most significant first)
Word32(digits, e) == IF e = "be" THEN digits ELSE <<digits[4], digits[3], digits[2], digits[1]>>
Word16(digits, e) == IF e = "be" THEN digits ELSE <<digits[2], digits[1]>>

\* ---- reading words; b is a byte sequence, off a 0-based offset, off + width <= Len(b) assumed
Rd16(b, off, e) ==
  IF e = "le" THEN b[off + 1] + 256 * b[off + 2] ELSE b[off + 2] + 256 * b[off + 1]

Rd32(b, off, e) ==
  LET hi == IF e = "le" THEN b[off + 3] + 256 * b[off + 4] ELSE b[off + 2] + 256 * b[off + 1]
      lo == IF e = "le" THEN b[off + 1] + 256 * b[off + 2] ELSE b[off + 4] + 256 * b[off + 3]
  IN IF hi >= 32768 THEN Huge ELSE hi * 65536 + lo

\* the four bytes of a word at off, most significant first
Digits32(b, off, e) ==
  IF e = "be" THEN <<b[off + 1], b[off + 2], b[off + 3], b[off + 4]>>
  ELSE <<b[off + 4], b[off + 3], b[off + 2], b[off + 1]>>

\* ---- padding / alignment
Zeros(n) == [i \in 1..n |-> 0]
PadLen(n, k) == (k - (n % k)) % k
PadTo(b, k) == b \o Zeros(PadLen(Len(b), k))
AlignUp(n, k) == n + PadLen(n, k)

\* ---- NUL-terminated strings inside a buffer
\* index (1-based) of the first 0 at or after 1-based position p, or 0 if none
RECURSIVE NulAt(_, _)
NulAt(b, p) == IF p > Len(b) THEN 0 ELSE IF b[p] = 0 THEN p ELSE NulAt(b, p + 1)
\* the string starting at 0-based offset off; requires Terminated(b, off)
Terminated(b, off) == off >= 0 /\ off < Len(b) /\ NulAt(b, off + 1) # 0
CStrAt(b, off) == SubSeq(b, off + 1, NulAt(b, off + 1) - 1)

\* ---- UTF-16LE strings inside a buffer (code units are read pairwise from the start position)
\* end (1-based index of the terminator start) of the string starting at 1-based p, 0 if unterminated
RECURSIVE Utf16End(_, _)
Utf16End(d, p) ==
  IF p + 1 > Len(d) THEN 0
  ELSE IF d[p] = 0 /\ d[p + 1] = 0 THEN p
  ELSE Utf16End(d, p + 2)
UnitsOf(b) == [k \in 1..(Len(b) \div 2) |-> b[2 * k - 1] + 256 * b[2 * k]]
\* every surrogate is half of a high-low pair
HighSur(u) == u >= 55296 /\ u <= 56319
LowSur(u) == u >= 56320 /\ u <= 57343
WellFormedUtf16(u) ==
  \A k \in 1..Len(u) :
     (HighSur(u[k]) => (k < Len(u) /\ LowSur(u[k + 1]))) /\ (LowSur(u[k]) => (k > 1 /\ HighSur(u[k - 1])))

\* ---- lexicographic order on byte strings (and on sequences of anything ordered by lt)
RECURSIVE LexLessFrom(_, _, _)
LexLessFrom(a, b, i) ==
  IF i > Len(a) THEN i <= Len(b)
  ELSE IF i > Len(b) THEN FALSE
  ELSE IF a[i] < b[i] THEN TRUE
  ELSE IF a[i] > b[i] THEN FALSE
  ELSE LexLessFrom(a, b, i + 1)
LexLess(a, b) == LexLessFrom(a, b, 1)
LexLeq(a, b) == a = b \/ LexLess(a, b)

\* ---- replace the slice starting at 0-based off by w
Patch(b, off, w) == [i \in 1..Len(b) |-> IF i > off /\ i <= off + Len(w) THEN w[i - off] ELSE b[i]]

IsAscii(s) == \A i \in 1..Len(s) : s[i] < 128
=============================================================================
