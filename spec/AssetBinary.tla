----------------------------- MODULE AssetBinary -----------------------------
(* Asset binary (property C18): value <-> bin-archive CONTENT.

   Value:  [flags : 4 bytes (header word, most significant byte first),
            specs : sequence of spec]
   spec:   [name : optional string, f : [field name -> [some |-> BOOLEAN, v |-> bytes]]]
           for kind "str"   v = Shift-JIS bytes (<<>> when absent)
               kind "color" v = <<R, G, B, A>>           stored as B, G, R, A (bytes 0 and 2 swapped)
               kind "f32" / "u32"  v = the 32-bit pattern, most significant byte first
                                   (stored little-endian; NaN payloads are just bits)
           The value of an ABSENT typed field is not part of the file: it is don't-care.

   ONE table (Fields) drives flags, the extended form, the record size, the writer
   and the reader: row = <<field name, kind, flag bit>>, rows in record order.

   Record: flag bytes (4, or 8 when some field with bit >= 32 is present; bit 0 of byte 0
   is set exactly in the 8-byte form), the name cell (always there), then one 4-byte cell per
   present field in table order.  File content: u32 header flags, the records, 4 zero bytes.

   AssetContent(v)   archive content [endian,data,text,ptrs,labels,cstr]
   RefParseAsset(c)  flag-driven inverse walk, stops at the first record that does not fit
   The file image is BinFormat!Canon(AssetContent(v)) (wired in MC_/Trace_AssetBinary). *)
EXTENDS Bytes

Fields == <<
  <<"conditional1", "str", 1>>, <<"conditional2", "str", 2>>, <<"body_model", "str", 3>>,
  <<"body_texture", "str", 4>>, <<"head_model", "str", 5>>, <<"head_texture", "str", 6>>,
  <<"hair_model", "str", 7>>, <<"hair_texture", "str", 8>>, <<"outer_clothing_model", "str", 9>>,
  <<"outer_clothing_texture", "str", 10>>, <<"underwear_model", "str", 11>>, <<"underwear_texture", "str", 12>>,
  <<"mount_model", "str", 13>>, <<"mount_texture", "str", 14>>, <<"mount_outer_clothing_model", "str", 15>>,
  <<"mount_outer_clothing_texture", "str", 16>>, <<"weapon_model_dual", "str", 17>>, <<"weapon_model", "str", 18>>,
  <<"skeleton", "str", 19>>, <<"mount_skeleton", "str", 20>>, <<"accessory1_model", "str", 21>>,
  <<"accessory1_texture", "str", 22>>, <<"accessory2_model", "str", 23>>, <<"accessory2_texture", "str", 24>>,
  <<"accessory3_model", "str", 25>>, <<"accessory3_texture", "str", 26>>, <<"attack_animation", "str", 27>>,
  <<"attack_animation2", "str", 28>>, <<"visual_effect", "str", 29>>, <<"hid", "str", 30>>,
  <<"footstep_sound", "str", 31>>,
  <<"clothing_sound", "str", 32>>, <<"voice", "str", 33>>,
  <<"hair_color", "color", 34>>, <<"skin_color", "color", 35>>, <<"weapon_trail_color", "color", 36>>,
  <<"model_size", "f32", 37>>, <<"head_size", "f32", 38>>, <<"pupil_y", "f32", 39>>,
  <<"unk3", "u32", 40>>, <<"unk4", "u32", 41>>, <<"unk5", "u32", 42>>, <<"unk6", "u32", 43>>,
  <<"bitflags", "color", 44>>,
  <<"unk7", "u32", 45>>, <<"unk8", "u32", 46>>, <<"unk9", "u32", 47>>,
  <<"unk10", "u32", 48>>, <<"unk11", "u32", 49>>, <<"unk12", "u32", 50>>, <<"unk13", "u32", 51>> >>

NF == Len(Fields)
FName(i) == Fields[i][1]
FKind(i) == Fields[i][2]
FBit(i) == Fields[i][3]
FieldNames == { FName(i) : i \in 1..NF }
ExtendedFrom == 32

TableOK ==
  /\ NF = 51
  /\ Cardinality(FieldNames) = NF
  /\ \A i \in 1..NF : FKind(i) \in {"str", "color", "f32", "u32"}
  /\ \A i \in 1..(NF - 1) : FBit(i) < FBit(i + 1)              \* record order = flag order, bits distinct
  /\ FBit(1) >= 1 /\ FBit(NF) < 64                              \* bit 0 is the extended-form marker
  /\ Cardinality({ i \in 1..NF : FKind(i) = "str" }) = 33
  /\ Cardinality({ i \in 1..NF : FKind(i) # "str" }) = 18

NoStr == [some |-> FALSE, v |-> <<>>]
Str(s) == [some |-> TRUE, v |-> s]
AbsentOf(kind) == IF kind = "str" THEN NoStr ELSE [some |-> FALSE, v |-> <<0, 0, 0, 0>>]

IsSpec(s) ==
  /\ s.name.some \in BOOLEAN /\ (~s.name.some => s.name.v = <<>>)
  /\ DOMAIN s.f = FieldNames
  /\ \A i \in 1..NF : LET x == s.f[FName(i)] IN
        /\ x.some \in BOOLEAN
        /\ IF FKind(i) = "str" THEN (~x.some => x.v = <<>>) /\ \A k \in 1..Len(x.v) : x.v[k] \in 1..255
           ELSE Len(x.v) = 4 /\ \A k \in 1..4 : x.v[k] \in 0..255
IsAssetValue(v) == Len(v.flags) = 4 /\ \A k \in 1..Len(v.specs) : IsSpec(v.specs[k])

\* ------------------------------------------------------------------ flags and sizes
Present(s, i) == s.f[FName(i)].some
PresentRows(s) == SelectSeq([i \in 1..NF |-> i], LAMBDA i : Present(s, i))
Extended(s) == \E i \in 1..NF : Present(s, i) /\ FBit(i) >= ExtendedFrom
FlagLen(s) == IF Extended(s) THEN 8 ELSE 4
RECURSIVE SumBits(_, _, _, _)
SumBits(s, k, i, acc) ==      \* value of flag byte k from the rows i..NF
  IF i > NF THEN acc
  ELSE SumBits(s, k, i + 1, acc + (IF Present(s, i) /\ FBit(i) \div 8 = k THEN 2 ^ (FBit(i) % 8) ELSE 0))
FlagByte(s, k) == SumBits(s, k, 1, IF k = 0 /\ Extended(s) THEN 1 ELSE 0)
Flags(s) == [k \in 1..FlagLen(s) |-> FlagByte(s, k - 1)]
RecordSize(s) == FlagLen(s) + 4 + 4 * Len(PresentRows(s))

\* ------------------------------------------------------------------ value -> cells -> content
WordCell(bytes) == [bytes |-> bytes, str |-> NoStr]
StrCell(o) == [bytes |-> Zeros(4), str |-> o]
FieldCell(kind, x) ==
  CASE kind = "str"   -> StrCell(x)
    [] kind = "color" -> WordCell(<<x.v[3], x.v[2], x.v[1], x.v[4]>>)
    [] OTHER          -> WordCell(Word32(x.v, "le"))
RecordCells(s) ==
  LET fl == Flags(s)
      rows == PresentRows(s)
  IN [k \in 1..(FlagLen(s) \div 4) |-> WordCell(SubSeq(fl, 4 * k - 3, 4 * k))]
     \o <<StrCell(s.name)>>
     \o [j \in 1..Len(rows) |-> FieldCell(FKind(rows[j]), s.f[FName(rows[j])])]

RECURSIVE ConcatAcc(_, _, _)
ConcatAcc(ss, i, acc) == IF i > Len(ss) THEN acc ELSE ConcatAcc(ss, i + 1, acc \o ss[i])
Concat(ss) == ConcatAcc(ss, 1, <<>>)

FileCells(v) ==
  <<WordCell(Word32(v.flags, "le"))>>
  \o Concat([k \in 1..Len(v.specs) |-> RecordCells(v.specs[k])])
  \o <<WordCell(Zeros(4))>>

CellsData(cells) == [p \in 1..(4 * Len(cells)) |-> cells[((p - 1) \div 4) + 1].bytes[((p - 1) % 4) + 1]]
CellsText(cells) ==
  LET idx == SelectSeq([k \in 1..Len(cells) |-> k], LAMBDA k : cells[k].str.some)
  IN [j \in 1..Len(idx) |-> <<4 * (idx[j] - 1), cells[idx[j]].str.v>>]

AssetContent(v) ==
  LET cells == FileCells(v)
  IN [endian |-> "le", data |-> CellsData(cells), text |-> CellsText(cells),
      ptrs |-> <<>>, labels |-> <<>>, cstr |-> <<>>]

\* ------------------------------------------------------------------ content -> value
RECURSIVE TextFind(_, _, _, _)
TextFind(text, a, lo, hi) ==
  IF lo > hi THEN NoStr
  ELSE LET mid == (lo + hi) \div 2 IN
       IF text[mid][1] = a THEN Str(text[mid][2])
       ELSE IF text[mid][1] < a THEN TextFind(text, a, mid + 1, hi) ELSE TextFind(text, a, lo, mid - 1)
StringAt(c, a) == TextFind(c.text, a, 1, Len(c.text))

\* is flag bit b set in the record whose flag bytes start at address a and are fl long
BitSet(c, a, fl, b) == (b \div 8) < fl /\ (c.data[a + (b \div 8) + 1] \div (2 ^ (b % 8))) % 2 = 1
CellBytes(c, a) == SubSeq(c.data, a + 1, a + 4)
ReadField(c, kind, a) ==
  CASE kind = "str"   -> StringAt(c, a)
    [] kind = "color" -> LET w == CellBytes(c, a) IN [some |-> TRUE, v |-> <<w[3], w[2], w[1], w[4]>>]
    [] OTHER          -> [some |-> TRUE, v |-> Digits32(c.data, a, "le")]

\* one record at address a: [ok, spec, next]; ok = FALSE when it does not fit in the data region
RecordAt(c, a) ==
  IF a + 1 > Len(c.data) THEN [ok |-> FALSE]
  ELSE LET fl == IF c.data[a + 1] % 2 = 1 THEN 8 ELSE 4 IN
       IF a + fl + 4 > Len(c.data) THEN [ok |-> FALSE]
       ELSE LET rows == SelectSeq([i \in 1..NF |-> i], LAMBDA i : BitSet(c, a, fl, FBit(i)))
                size == fl + 4 + 4 * Len(rows)
                \* the j-th present row sits in cell j after the name cell
                PosOf(i) == CHOOSE j \in 1..Len(rows) : rows[j] = i
            IN IF a + size > Len(c.data) THEN [ok |-> FALSE]
               ELSE [ok |-> TRUE, next |-> a + size,
                     spec |-> [name |-> StringAt(c, a + fl),
                               f |-> [n \in FieldNames |->
                                        LET i == CHOOSE i \in 1..NF : FName(i) = n IN
                                        IF BitSet(c, a, fl, FBit(i))
                                        THEN ReadField(c, FKind(i), a + fl + 4 * PosOf(i))
                                        ELSE AbsentOf(FKind(i))]]]

RECURSIVE RecordsAcc(_, _, _)
RecordsAcc(c, a, acc) ==
  LET r == RecordAt(c, a) IN IF ~r.ok THEN acc ELSE RecordsAcc(c, r.next, Append(acc, r.spec))

RefParseAsset(c) ==
  IF Len(c.data) < 4 THEN [ok |-> FALSE]
  ELSE [ok |-> TRUE, v |-> [flags |-> Digits32(c.data, 0, "le"), specs |-> RecordsAcc(c, 4, <<>>)]]

\* ------------------------------------------------------------------ comparison: absent fields are don't-care
NormSpec(s) == [name |-> s.name,
                f |-> [n \in FieldNames |-> LET i == CHOOSE i \in 1..NF : FName(i) = n IN
                                            IF s.f[n].some THEN s.f[n] ELSE AbsentOf(FKind(i))]]
Norm(v) == [flags |-> v.flags, specs |-> [k \in 1..Len(v.specs) |-> NormSpec(v.specs[k])]]
SameValue(a, b) == Norm(a) = Norm(b)

\* ------------------------------------------------------------------ laws
RoundTrip(v) == RefParseAsset(AssetContent(v)) = [ok |-> TRUE, v |-> Norm(v)]
Idempotent(v) == LET r == RefParseAsset(AssetContent(v)) IN r.ok /\ AssetContent(r.v) = AssetContent(v)
\* short form exactly when no extended field is present; the marker bit says which form it is
FormLaw(s) ==
  /\ Extended(s) <=> (Len(Flags(s)) = 8)
  /\ ~Extended(s) <=> (Len(Flags(s)) = 4)
  /\ Extended(s) <=> (Flags(s)[1] % 2 = 1)
\* each record occupies exactly the bytes its flags announce
RECURSIVE PopByte(_)
PopByte(x) == IF x = 0 THEN 0 ELSE (x % 2) + PopByte(x \div 2)
AnnouncedSize(fl) ==      \* from the flag bytes alone: bit 0 of byte 0 is the form marker, not a field
  Len(fl) + 4 + 4 * (PopByte(fl[1] - (fl[1] % 2)) + PopByte(fl[2]) + PopByte(fl[3]) + PopByte(fl[4])
                     + (IF Len(fl) = 8 THEN PopByte(fl[5]) + PopByte(fl[6]) + PopByte(fl[7]) + PopByte(fl[8]) ELSE 0))
SizeLaw(v) ==
  /\ \A k \in 1..Len(v.specs) :
        /\ 4 * Len(RecordCells(v.specs[k])) = RecordSize(v.specs[k])
        /\ RecordSize(v.specs[k]) = AnnouncedSize(Flags(v.specs[k]))
  /\ Len(AssetContent(v).data) = 4 + 4 * Len(Concat([k \in 1..Len(v.specs) |-> RecordCells(v.specs[k])])) + 4

\* ------------------------------------------------------------------ values too large to travel as JSON
(* rule = [n_specs, present (names of the optional fields every spec carries), named]: the harness builds
   n_specs such specs; the specification decides from the rule what the container header must announce.
   The round trip must succeed whatever these numbers are (2^16 is not a limit of the format). *)
BigSpec(rule) ==
  [name |-> IF rule.named THEN Str(<<110>>) ELSE NoStr,
   f |-> [n \in FieldNames |-> LET i == CHOOSE i \in 1..NF : FName(i) = n
                                   on == \E k \in 1..Len(rule.present) : rule.present[k] = n
                               IN IF FKind(i) = "str" THEN (IF on THEN Str(<<118>>) ELSE NoStr)
                                  ELSE [some |-> on, v |-> <<0, 0, 0, 0>>]]]
BigRuleOK(rule) == \A k \in 1..Len(rule.present) : rule.present[k] \in FieldNames
BigDataSize(rule) == 4 + rule.n_specs * RecordSize(BigSpec(rule)) + 4
BigStrings(rule) ==
  rule.n_specs * ((IF rule.named THEN 1 ELSE 0)
                  + Cardinality({ i \in 1..NF : FKind(i) = "str" /\ Present(BigSpec(rule), i) }))
BigHeaderOK(ev) ==
  /\ BigRuleOK(ev.rule)
  /\ Len(ev.head) = 32
  /\ Rd32(ev.head, 0, "le") = ev.len
  /\ Rd32(ev.head, 4, "le") = BigDataSize(ev.rule)
  /\ Rd32(ev.head, 8, "le") = BigStrings(ev.rule)
  /\ Rd32(ev.head, 12, "le") = 0
\* the rule's totals agree with the general definitions (checked on a small instance in MC_AssetBinary)
BigRuleLaw(rule) ==
  LET c == AssetContent([flags |-> <<1, 2, 3, 4>>, specs |-> [k \in 1..rule.n_specs |-> BigSpec(rule)]]) IN
  Len(c.data) = BigDataSize(rule) /\ Len(c.text) = BigStrings(rule)
=============================================================================
