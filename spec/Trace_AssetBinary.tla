-------------------------- MODULE Trace_AssetBinary --------------------------
(* Impl -> spec for C18.  One event per value driven through mila:
     [src, status, value, content, bytes, reparsed, re_same]
   value    = the AssetBinary given to serialize(); absent typed fields carry whatever the
              driver put there (don't-care by the specification),
   content  = archive content of BinArchive::from_bytes(serialize(value)) (annotated cells zeroed),
   bytes    = the image itself when it has few strings (<<>> otherwise),
   reparsed = AssetBinary::from_archive of that archive (absent fields projected as zero),
   re_same  = re-serializing the re-read value gave the same bytes. *)
EXTENDS AssetBinary, TLC, Json, IOUtils

BF == INSTANCE BinFormat
Image(c) == BF!Canon(c)

Rec == ndJsonDeserialize(IOEnv.TRACE)

VARIABLES i, bad
vars == <<i, bad>>

\* the conjuncts an event failed (<<>> = accepted)
Check(ev, what) ==
  CASE what = "value-domain" -> IsAssetValue(ev.value)
    [] what = "content"      -> ev.content = AssetContent(ev.value)
    [] what = "ref-reader"   -> RefParseAsset(ev.content) = [ok |-> TRUE, v |-> Norm(ev.value)]
    [] what = "reparsed"     -> ev.reparsed = Norm(ev.value)
    [] what = "reserialize"  -> ev.re_same
    [] what = "record-form"  -> \A k \in 1..Len(ev.value.specs) : FormLaw(ev.value.specs[k])
    [] what = "image"        -> Len(ev.bytes) > 0 => ev.bytes = Image(AssetContent(ev.value))
\* events of rule-built large values carry [rule, len, head, reparsed_equal, re_same] instead of the value
Failed(ev) ==
  IF ev.status # "ok" THEN <<"status">>
  ELSE IF "rule" \in DOMAIN ev
  THEN SelectSeq(<<"header-totals", "reparsed", "reserialize">>,
                 LAMBDA w : ~(CASE w = "header-totals" -> BigHeaderOK(ev) [] w = "reparsed" -> ev.reparsed_equal [] OTHER -> ev.re_same))
  ELSE SelectSeq(<<"value-domain", "content", "ref-reader", "reparsed", "reserialize", "record-form", "image">>, LAMBDA w : ~Check(ev, w))

Init == i = 1 /\ bad = <<>>
Next == /\ i <= Len(Rec)
        /\ i' = i + 1
        /\ bad' = IF Failed(Rec[i]) = <<>> THEN bad ELSE Append(bad, [i |-> i, why |-> Failed(Rec[i])])
Spec == Init /\ [][Next]_vars

Report == (i = Len(Rec) + 1) => PrintT("R " \o ToJson([n |-> Len(Rec), bad |-> bad]))
=============================================================================
