--------------------------- MODULE MC_BinFormat ---------------------------
(* Bounded enumeration of archive contents (built step by step, so that TLC
   workers share the work) and exhaustive check of the format laws:
     C01  every conforming layout is well-formed and re-parses to the content
     C02  Canon is a layout, is idempotent under parse, and is a function of content
   Gen_BinFormat.cfg prints one case per content for replay against mila. *)
EXTENDS BinFormat, Json, IOUtils

Tier == IF "VERIF_TIER" \in DOMAIN IOEnv THEN IOEnv.VERIF_TIER ELSE "quick"
Quick == Tier = "quick"

\* hand-checked Shift-JIS strings: "A", half-width katakana A (B1), "hyo" 95 5C (trail byte = backslash), "BC"
StrA == <<65>>   StrK == <<177>>   StrH == <<149, 92>>   StrBC == <<66, 67>>
StrL == <<76>>   StrM == <<77>>

Sizes == IF Quick THEN {0, 4, 5, 8} ELSE {0, 2, 4, 5, 8, 12}
DataOf(n) == [i \in 1..n |-> ((17 * i + 3) % 251) + 1]      \* distinct non-zero bytes

\* per-cell annotation choices
CellChoices(n) ==
  { [k |-> "none"] }
  \cup { [k |-> "ptr", t |-> t] : t \in ({0, 4, n} \cap (0..n)) }
  \cup { [k |-> "str", s |-> s] : s \in {StrA, StrK, StrH, <<>>} }       \* (the empty string: its only byte is its terminator)
  \cup { [k |-> "cstr", s |-> s] : s \in {StrA, StrBC} }

\* label configurations: sequences of <<address kind, names>>; address kinds: "zero", "odd" (unaligned), "end"
LabelConfigs ==
  { <<>>,
    << <<"zero", <<StrL>>>> >>,
    << <<"end", <<StrL>>>> >>,
    << <<"zero", <<StrA, StrL>>>>, <<"end", <<StrL>>>> >>,       \* name equal to a string; same name on two addresses
    << <<"zero", <<StrM>>>>, <<"odd", <<StrL>>>>, <<"end", <<StrA>>>> >>,
    << <<"odd", <<StrL, StrL>>>>, <<"end", <<StrM, StrA>>>> >>,
    << <<"zero", <<StrL>>>>, <<"end", <<StrL>>>> >>,               \* the same name bucket on two addresses
    << <<"zero", <<StrL>>>>, <<"odd", <<StrL>>>>, <<"end", <<StrL>>>> >> }
AddrOf(kind, n) == IF kind = "zero" THEN 0 ELSE IF kind = "odd" THEN 1 ELSE n

VARIABLES c, stage, off   \* stage: 0 choose size/endian/offset, 1.. annotate cell (stage-1), then labels, then "done"
vars == <<c, stage, off>>
\* annotated cells sit at off + 4k: the public API takes any byte address, so the cells need not be word-aligned
\* (off = 0 is the usual case; 1 and 2 give unaligned, non-overlapping cells)

Empty(e) == [endian |-> e, data |-> <<>>, text |-> <<>>, ptrs |-> <<>>, labels |-> <<>>, cstr |-> <<>>]
Cells(n) == IF n < off THEN 0 ELSE (n - off) \div 4
Offs(n) == {0} \cup { o \in {1, 2} : o + 4 <= n }

Init == c = Empty("le") /\ stage = 0 /\ off = 0

ChooseSize ==
  /\ stage = 0
  /\ \E e \in {"le", "be"}, n \in Sizes : \E o \in Offs(n) :
        /\ c' = [Empty(e) EXCEPT !.data = DataOf(n)]
        /\ stage' = 1 /\ off' = o

Annotate ==
  /\ stage >= 1 /\ stage <= Cells(Len(c.data))
  /\ UNCHANGED off
  /\ LET a == off + 4 * (stage - 1) IN
     \E ch \in CellChoices(Len(c.data)) :
        /\ c' = CASE ch.k = "none" -> c
                  [] ch.k = "ptr"  -> [c EXCEPT !.ptrs = Append(@, <<a, ch.t>>)]
                  [] ch.k = "str"  -> [c EXCEPT !.text = Append(@, <<a, ch.s>>)]
                  [] ch.k = "cstr" -> [c EXCEPT !.cstr = Append(@, <<a, ch.s>>)]
        /\ stage' = stage + 1

Label ==
  /\ stage = Cells(Len(c.data)) + 1
  /\ \E lc \in LabelConfigs :
        LET n == Len(c.data)
            ok == \A i \in 1..Len(lc) : AddrOf(lc[i][1], n) <= n
            \* drop configurations whose addresses coincide or fall outside (tiny archives)
            addrs == [i \in 1..Len(lc) |-> AddrOf(lc[i][1], n)]
            distinct == \A i, j \in 1..Len(lc) : i # j => addrs[i] # addrs[j]
        IN /\ ok /\ distinct
           /\ c' = [c EXCEPT !.labels = ByAddr([i \in 1..Len(lc) |-> <<addrs[i], lc[i][2]>>])]
           /\ stage' = stage + 1 /\ UNCHANGED off

Next == ChooseSize \/ Annotate \/ Label
Spec == Init /\ [][Next]_vars

Complete == stage = Cells(Len(c.data)) + 2
NoCStr == Len(c.cstr) = 0

\* ------------------------------------------------------------------ laws (checked in every state: partial contents are contents too)
Laws ==
  /\ ValidContent(c)
  /\ LET can == Canon(c) lay == Layouts(c) IN
     /\ can \in lay
     /\ \A l \in lay :
          /\ WellFormedFor(l, c)
          /\ LET r == RefParse(l, c.endian) IN r.ok /\ SameContent(r.c, Reparsed(c))
          /\ ~MustReject(l, c.endian)
     \* canonical image: parse then re-serialise reproduces it (C02)
     /\ NoCStr => Canon(RefParse(can, c.endian).c) = can
     \* reading a file in the wrong endianness never makes the reference parser misbehave (totality)
     /\ RefParse(can, IF c.endian = "le" THEN "be" ELSE "le").ok \in BOOLEAN

\* ------------------------------------------------------------------ generator
Exact == NoCStr /\ (c.endian = "le" \/ BEOrderDetermined(c))
Emit == Complete =>
  PrintT("G " \o ToJson([content |-> c, canon |-> Canon(c), exact |-> Exact,
                         reparsed |-> Reparsed(c), layouts |-> SetToSeq(Layouts(c))]))
=============================================================================
