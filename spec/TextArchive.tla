--------------------------- MODULE TextArchive ---------------------------
(* Text archive as an abstract state machine (property C07).

   State (a record, so that the same definitions serve the model checker, the
   generator of replay cases and the trace validator):
     [title   : opaque value,
      entries : sequence of <<key, stored message>>, keys pairwise distinct,
      dirty   : BOOLEAN]
   A message is a sequence of code points (integers).  92 = backslash,
   110 = 'n', 10 = LF.

   Every public operation is a function from (state, arguments) to the SET of
   allowed outcomes [res |-> ..., st |-> ...].  Where the property statement is
   silent both outcomes are allowed (explicit disjunction), so a legitimate
   implementation is never flagged.  *)
EXTENDS Naturals, Sequences, FiniteSets

BS == 92
LN == 110
LF == 10

\* ------------------------------------------------------------------ escaping
\* set_message: textual replace-all of the two-character sequence backslash,n
\* by a newline: leftmost, non-overlapping.
RECURSIVE Unescape(_)
Unescape(m) ==
  IF Len(m) = 0 THEN <<>>
  ELSE IF Len(m) >= 2 /\ m[1] = BS /\ m[2] = LN
       THEN <<LF>> \o Unescape(SubSeq(m, 3, Len(m)))
       ELSE <<m[1]>> \o Unescape(SubSeq(m, 2, Len(m)))

\* get_message: every newline comes back as backslash,n
RECURSIVE Escape(_)
Escape(m) ==
  IF Len(m) = 0 THEN <<>>
  ELSE (IF m[1] = LF THEN <<BS, LN>> ELSE <<m[1]>>) \o Escape(SubSeq(m, 2, Len(m)))

HasPair(m) == \E i \in 1..(Len(m) - 1) : m[i] = BS /\ m[i + 1] = LN

\* ------------------------------------------------------------------ helpers
Keys(st) == { st.entries[i][1] : i \in 1..Len(st.entries) }
IndexOf(st, k) == CHOOSE i \in 1..Len(st.entries) : st.entries[i][1] = k
HasKey(st, k) == \E i \in 1..Len(st.entries) : st.entries[i][1] = k
Stored(st, k) == st.entries[IndexOf(st, k)][2]

RemoveAt(s, i) == SubSeq(s, 1, i - 1) \o SubSeq(s, i + 1, Len(s))

New(title) == [title |-> title, entries |-> <<>>, dirty |-> FALSE]

\* ------------------------------------------------------------------ operations
NoneRes == [some |-> FALSE, v |-> <<>>]
SomeRes(v) == [some |-> TRUE, v |-> v]
Unit == [some |-> FALSE, v |-> <<>>]

\* set_message(k, m): existing key keeps its index, new key is appended, dirty := TRUE
SetOutcomes(st, k, m) ==
  LET u == Unescape(m)
      e == IF HasKey(st, k)
           THEN [st.entries EXCEPT ![IndexOf(st, k)] = <<k, u>>]
           ELSE Append(st.entries, <<k, u>>)
  IN { [res |-> Unit, st |-> [st EXCEPT !.entries = e, !.dirty = TRUE]] }

\* delete_message(k): relative order of the others unchanged; the statement does
\* not say what happens to the dirty flag -> both allowed.
DeleteOutcomes(st, k) ==
  LET e == IF HasKey(st, k) THEN RemoveAt(st.entries, IndexOf(st, k)) ELSE st.entries
  IN { [res |-> Unit, st |-> [st EXCEPT !.entries = e, !.dirty = d]] : d \in {st.dirty, TRUE} }

GetOutcomes(st, k) ==
  { [res |-> IF HasKey(st, k) THEN SomeRes(Escape(Stored(st, k))) ELSE NoneRes, st |-> st] }

HasOutcomes(st, k) ==
  { [res |-> [some |-> HasKey(st, k), v |-> <<>>], st |-> st] }

\* set_title: dirty flag open
SetTitleOutcomes(st, t) ==
  { [res |-> Unit, st |-> [st EXCEPT !.title = t, !.dirty = d]] : d \in {st.dirty, TRUE} }

\* from_bytes(serialize()) in the UTF-16 format: same title, same entries in the
\* same order (C06), dirty clear.  In the legacy format the title is not stored.
ReparseOutcomes(st, keepsTitle, emptyTitle) ==
  { [res |-> Unit, st |-> [title |-> IF keepsTitle THEN st.title ELSE emptyTitle,
                           entries |-> st.entries, dirty |-> FALSE]] }

\* dispatcher used by generator and trace validator.  ev = [op, k, m, t]
Outcomes(st, ev, keepsTitle, emptyTitle) ==
  CASE ev.op = "set"      -> SetOutcomes(st, ev.k, ev.m)
    [] ev.op = "delete"   -> DeleteOutcomes(st, ev.k)
    [] ev.op = "get"      -> GetOutcomes(st, ev.k)
    [] ev.op = "has"      -> HasOutcomes(st, ev.k)
    [] ev.op = "settitle" -> SetTitleOutcomes(st, ev.t)
    [] ev.op = "reparse"  -> ReparseOutcomes(st, keepsTitle, emptyTitle)

\* ------------------------------------------------------------------ properties (over states)
KeysDistinct(st) == \A i, j \in 1..Len(st.entries) : st.entries[i][1] = st.entries[j][1] => i = j
NoStoredPair(st) == \A i \in 1..Len(st.entries) : ~HasPair(st.entries[i][2])
EscapeSymmetric(st) == \A i \in 1..Len(st.entries) :
                          Unescape(Escape(st.entries[i][2])) = st.entries[i][2]
\* storing a looked-up message back under its key changes the entries not at all
SetGetIsNoop(st) == \A k \in Keys(st) :
  \A g \in GetOutcomes(st, k) : \A o \in SetOutcomes(st, k, g.res.v) : o.st.entries = st.entries

\* ------------------------------------------------------------------ properties (over steps)
\* surviving keys keep their relative order
Subsequence(a, b) == \* keys of a that are also in b appear in the same relative order in b
  \A i, j \in 1..Len(a) : (i < j /\ \E x \in 1..Len(b) : b[x] = a[i] /\ \E y \in 1..Len(b) : b[y] = a[j])
      => (CHOOSE x \in 1..Len(b) : b[x] = a[i]) < (CHOOSE y \in 1..Len(b) : b[y] = a[j])
KeySeq(st) == [i \in 1..Len(st.entries) |-> st.entries[i][1]]
OrderStable(pre, post) == Subsequence(KeySeq(pre), KeySeq(post))
\* a key that was absent before and is present after is last
NewKeyLast(pre, post) ==
  \A i \in 1..Len(post.entries) : (~HasKey(pre, post.entries[i][1])) => i = Len(post.entries)
=============================================================================
