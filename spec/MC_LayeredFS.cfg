SPECIFICATION Spec
INVARIANT Inv
PROPERTY LowerLayersStep
CHECK_DEADLOCK FALSE
