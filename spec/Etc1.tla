------------------------------- MODULE Etc1 -------------------------------
(* ETC1 / ETC1A4 block decoding as used by the 3DS (PICA200) texture unit
   (property C19).  Transcription of the published rules (Khronos
   OES_compressed_ETC1_RGB8_texture; 3dbrew "ETC1" for the 3DS storage order):

   * a colour block is 8 bytes holding one 64-bit word, least significant byte
     first (the 3DS stores the Khronos big-endian block byte-reversed);
       bits 63..56 red, 55..48 green, 47..40 blue base colours
         individual mode   : high nibble = sub-block 1, low nibble = sub-block 2,
                             each expanded 4 -> 8 bits by * 17
         differential mode : bits 7..3 of the byte = 5-bit base of sub-block 1,
                             bits 2..0 = 3-bit two's-complement delta; sub-block 2
                             = base + delta (must stay in 0..31, otherwise the block
                             is outside the ETC1 rules); both expanded 5 -> 8 bits
                             by (c << 3) | (c >> 2)
       bits 39..37 table codeword of sub-block 1, 36..34 of sub-block 2
       bit 33 differential, bit 32 flip
       bits 31..16 most significant selector bits, 15..0 least significant
         selector bits of pixel i = 4*x + y (x column, y row inside the 4x4 block)
   * flip = 0: sub-block 1 is the left 2x4 half (x < 2); flip = 1: the top 4x2
     half (y < 2)
   * modifier = table[codeword][lsb] negated when msb = 1; every channel is
     base + modifier clamped to 0..255
   * ETC1A4: 8 bytes of alpha (4 bits per pixel, same index i, nibble i of the
     64-bit little-endian word) precede the colour block
   * an 8x8 tile holds four blocks in the order (0,0) (1,0) (0,1) (1,1); tiles are
     row-major.

   TLC integers are 32-bit: the 64-bit word is never built; fields are extracted
   from the byte sequence.  Offsets are 0-based, sequences 1-based.  *)
EXTENDS Integers, Sequences

\* n (<= 8) bits starting at bit lo of the little-endian word that starts at
\* byte offset off of b
BitsLE(b, off, lo, n) ==
  LET k  == off + (lo \div 8) + 1
      s  == lo % 8
      v  == IF s + n > 8 THEN b[k] + 256 * b[k + 1] ELSE b[k]
  IN (v \div (2 ^ s)) % (2 ^ n)

EtcModTable == << <<2, 8>>, <<5, 17>>, <<9, 29>>, <<13, 42>>,
                  <<18, 60>>, <<24, 80>>, <<33, 106>>, <<47, 183>> >>

SExt3(d)   == IF d >= 4 THEN d - 8 ELSE d
Expand5(c) == c * 8 + (c \div 4)
Expand4(c) == c * 17
Clamp255(v) == IF v < 0 THEN 0 ELSE IF v > 255 THEN 255 ELSE v

EtcDiff(b, off) == BitsLE(b, off, 33, 1) = 1
EtcFlip(b, off) == BitsLE(b, off, 32, 1) = 1

\* which sub-block (1 or 2) pixel (px, py) of the block belongs to
EtcSub(b, off, px, py) ==
  IF EtcFlip(b, off) THEN (IF py < 2 THEN 1 ELSE 2) ELSE (IF px < 2 THEN 1 ELSE 2)

EtcTableIdx(b, off, sub) ==
  IF sub = 1 THEN BitsLE(b, off, 37, 3) ELSE BitsLE(b, off, 34, 3)

\* ch: 0 = red, 1 = green, 2 = blue
EtcChanLo(ch) == 56 - 8 * ch
EtcBase5(b, off, ch)  == BitsLE(b, off, EtcChanLo(ch) + 3, 5)
EtcDelta3(b, off, ch) == SExt3(BitsLE(b, off, EtcChanLo(ch), 3))

\* the differential sum of channel ch stays inside 0..31 (individual blocks: TRUE)
EtcChanValid(b, off, ch) ==
  EtcDiff(b, off) => (EtcBase5(b, off, ch) + EtcDelta3(b, off, ch)) \in 0..31
EtcValid(b, off) == \A ch \in 0..2 : EtcChanValid(b, off, ch)

EtcBaseColour(b, off, sub, ch) ==
  IF EtcDiff(b, off)
  THEN Expand5(IF sub = 1 THEN EtcBase5(b, off, ch)
                          ELSE EtcBase5(b, off, ch) + EtcDelta3(b, off, ch))
  ELSE Expand4(IF sub = 1 THEN BitsLE(b, off, EtcChanLo(ch) + 4, 4)
                          ELSE BitsLE(b, off, EtcChanLo(ch), 4))

EtcModifier(b, off, px, py) ==
  LET i   == 4 * px + py
      sub == EtcSub(b, off, px, py)
      mag == EtcModTable[EtcTableIdx(b, off, sub) + 1][BitsLE(b, off, i, 1) + 1]
  IN IF BitsLE(b, off, 16 + i, 1) = 1 THEN 0 - mag ELSE mag

\* the decoded channel of pixel (px, py) of the colour block at byte offset off
EtcColour(b, off, px, py, ch) ==
  Clamp255(EtcBaseColour(b, off, EtcSub(b, off, px, py), ch) + EtcModifier(b, off, px, py))

\* 4-bit alpha of pixel (px, py), alpha block at byte offset off
EtcAlpha4(b, off, px, py) == BitsLE(b, off, 4 * (4 * px + py), 4)

\* ------------------------------------------------------------- 3DS block layout
EtcBlockSize(alpha) == IF alpha THEN 16 ELSE 8
EtcPayloadSize(w, h, alpha) == ((w \div 4) * (h \div 4)) * EtcBlockSize(alpha)
\* index of the 4x4 block that holds texel (x, y) of a texture of width w
EtcBlockIndex(w, x, y) ==
  ((y \div 8) * (w \div 8) + (x \div 8)) * 4 + ((y % 8) \div 4) * 2 + ((x % 8) \div 4)
EtcBlockOffset(w, x, y, alpha) == EtcBlockIndex(w, x, y) * EtcBlockSize(alpha)
\* offset of the colour word of that block
EtcColourOffset(w, x, y, alpha) ==
  EtcBlockOffset(w, x, y, alpha) + (IF alpha THEN 8 ELSE 0)

\* expected colour channel of texel (x, y)
EtcTexelColour(b, w, x, y, alpha, ch) ==
  EtcColour(b, EtcColourOffset(w, x, y, alpha), x % 4, y % 4, ch)
EtcTexelValid(b, w, x, y, alpha, ch) ==
  EtcChanValid(b, EtcColourOffset(w, x, y, alpha), ch)
EtcTexelAlpha4(b, w, x, y) == EtcAlpha4(b, EtcBlockOffset(w, x, y, TRUE), x % 4, y % 4)
=============================================================================
