--------------------------- MODULE Trace_Parsers ---------------------------
(* impl -> spec for C05: every event is one input buffer with the observed outcome
   of every entry point (outcome, largest allocation request, re-serialization
   outcome).  TLC decides legality (Parsers!OutcomeClause). bad = <<index, entry, clause>>. *)
EXTENDS Parsers, Json, IOUtils

Rec == ndJsonDeserialize(IOEnv.TRACE)
Entries == <<"bin_le", "bin_be", "text_sjis_le", "text_sjis_be", "text_uni_le", "text_uni_be", "arc", "pack", "aset", "asset">>

VARIABLES i, bad, nreject
vars == <<i, bad, nreject>>
Init == i = 1 /\ bad = <<>> /\ nreject = 0

\* events of large inputs that every entry point refused carry their length only ("len"; bytes = <<>>)
LenOf(ev) == IF "len" \in DOMAIN ev THEN ev.len ELSE Len(ev.bytes)
BadOf(ev) ==
  LET f == ev.bytes
      ks == [k \in 1..Len(Entries) |-> IF Entries[k] \in DOMAIN ev.out THEN OutcomeClauseL(Entries[k], f, LenOf(ev), ev.out[Entries[k]]) ELSE 0]
  IN SelectSeq([k \in 1..Len(Entries) |-> <<i, Entries[k], ks[k]>>], LAMBDA t : t[3] # 0)

Next ==
  /\ i <= Len(Rec)
  /\ bad' = bad \o BadOf(Rec[i])
  \* vacuity guard: how many (input, entry) pairs had to be rejected (cheap predicates only)
  /\ nreject' = IF "len" \in DOMAIN Rec[i] THEN nreject ELSE
                nreject + (IF BinMustReject(Rec[i].bytes, "le") THEN 1 ELSE 0) + (IF BinMustReject(Rec[i].bytes, "be") THEN 1 ELSE 0)
                         + (IF PackMustReject(Rec[i].bytes) THEN 1 ELSE 0)
  /\ i' = i + 1
Spec == Init /\ [][Next]_vars
Report == (i = Len(Rec) + 1) => PrintT("R " \o ToJson([n |-> Len(Rec), bad |-> bad, must_reject |-> nreject]))
=============================================================================
