SPECIFICATION Spec
INVARIANT Report
VIEW View
CHECK_DEADLOCK FALSE
