--------------------------- MODULE MC_BinArchive ---------------------------
(* Bounded model of the bin archive state machine.
   Phase 1 builds small archives step by step (every reachable state is a valid
   archive); phase 2 applies up to MaxDepth successful operations.  TLC checks the
   C03 / C04 laws of the reference semantics in every state, and
   Gen_BinArchive.cfg prints, for every state, every event of the focus
   (VERIF_FOCUS = c03 | c04) with its allowed outcomes for replay against mila. *)
EXTENDS BinArchive, Json, IOUtils

Env(k, d) == IF k \in DOMAIN IOEnv THEN IOEnv[k] ELSE d
Tier == Env("VERIF_TIER", "quick")
Focus == Env("VERIF_FOCUS", "c03")
Quick == Tier = "quick"
\* one successful operation from every built archive (longer compositions are covered by the recorded random histories)
MaxDepth == IF Focus = "c04" THEN 0 ELSE 1
EmitDepth == 0
MaxSize == 16

StrA == <<65>>  StrB == <<66, 67>>  StrL == <<76>>  StrM == <<77>>

Sizes == IF Focus = "c04" THEN (IF Quick THEN {0, 1, 4, 6, 9} ELSE {0, 1, 2, 3, 4, 5, 6, 8, 9, 12})
         ELSE IF Quick THEN {0, 4, 8} ELSE {0, 4, 8, 12}
Endians == IF Focus = "c04" THEN {"le", "be"} ELSE {"le"}
\* c03: distinct non-zero bytes; c04: ASCII letters with a NUL every fourth byte (so that read_c_string finds strings)
\*      and a second NUL before every other one (so that the UTF-16 cursor reader finds a terminator pair)
DataOf(n) == IF Focus = "c04" THEN [i \in 1..n |-> IF i % 4 = 0 \/ i % 8 = 7 THEN 0 ELSE 65 + (i % 26)]
             ELSE [i \in 1..n |-> ((37 * i + 11) % 250) + 1]

CellChoices(n) ==
  IF Focus = "c04" THEN { [k |-> "none"], [k |-> "str", s |-> StrA], [k |-> "ptr", t |-> 0], [k |-> "ptr", t |-> n] }
                        \cup (IF n >= 8 THEN { [k |-> "ptr", t |-> 5] } ELSE {})
  ELSE { [k |-> "none"], [k |-> "str", s |-> StrA], [k |-> "str", s |-> StrB], [k |-> "cstr", s |-> StrA] }
       \cup { [k |-> "ptr", t |-> t] : t \in ({0, 4, n} \cap (0..n)) }

LabelConfigs ==
  IF Focus = "c04" THEN { <<>>, << <<"zero", <<StrL>>>> >>, << <<"zero", <<StrM, StrL>>>>, <<"four", <<StrL>>>> >> }
  ELSE { <<>>,
         << <<"zero", <<StrL>>>> >>,
         << <<"four", <<StrL, StrM>>>> >>,
         << <<"end", <<StrL>>>> >>,
         << <<"zero", <<StrM>>>>, <<"odd", <<StrL>>>>, <<"end", <<StrL, StrM>>>> >>,
         << <<"four", <<StrL>>>>, <<"five", <<StrM>>>> >> }
AddrOf(kind, n) == CASE kind = "zero" -> 0 [] kind = "odd" -> 1 [] kind = "four" -> 4 [] kind = "five" -> 5 [] OTHER -> n

VARIABLES st, stage, depth
vars == <<st, stage, depth>>

Empty(e) == [endian |-> e, data |-> <<>>, text |-> <<>>, ptrs |-> <<>>, labels |-> <<>>, cstr |-> <<>>]
Cells(n) == n \div 4
Ready == stage = 99

Init == st = Empty("le") /\ stage = 0 /\ depth = 0

ChooseSize ==
  /\ stage = 0
  /\ \E e \in Endians, n \in Sizes : st' = [Empty(e) EXCEPT !.data = DataOf(n)]
  /\ stage' = 1 /\ depth' = 0

Annotate ==
  /\ stage >= 1 /\ stage <= Cells(Size(st))
  /\ LET a == 4 * (stage - 1) IN
     \E ch \in CellChoices(Size(st)) :
        st' = CASE ch.k = "none" -> st
                [] ch.k = "ptr"  -> [st EXCEPT !.ptrs = Append(@, <<a, ch.t>>)]
                [] ch.k = "str"  -> [st EXCEPT !.text = Append(@, <<a, ch.s>>)]
                [] ch.k = "cstr" -> [st EXCEPT !.cstr = Append(@, <<a, ch.s>>)]
  /\ stage' = stage + 1 /\ depth' = 0

Label ==
  /\ stage = Cells(Size(st)) + 1
  /\ \E lc \in LabelConfigs :
        LET n == Size(st)
            addrs == [i \in 1..Len(lc) |-> AddrOf(lc[i][1], n)]
        IN /\ \A i \in 1..Len(lc) : addrs[i] <= n
           /\ \A i, j \in 1..Len(lc) : i # j => addrs[i] # addrs[j]
           /\ st' = [st EXCEPT !.labels = SortSeq([i \in 1..Len(lc) |-> <<addrs[i], lc[i][2]>>], LAMBDA x, y : x[1] < y[1])]
  /\ stage' = 99 /\ depth' = 0

\* ------------------------------------------------------------------ event universes
Rec(op, a, n, ge, bs, t, ty) == [op |-> op, a |-> a, n |-> n, ge |-> ge, bs |-> bs, t |-> t, ty |-> ty]

StructEvents(s) ==
  LET n == Size(s)
      AA == {0, 2, 4, 8, 12, n, n + 4}
      NN == {0, 3, 4, 8}
  IN { Rec("allocate", a, k, g, <<>>, 0, "") : a \in AA, k \in NN, g \in BOOLEAN }
     \cup { Rec("allocate_at_end", 0, k, FALSE, <<>>, 0, "") : k \in {0, 3, 4} }
     \cup { Rec("s_allocate", a, k, g, <<>>, 0, "") : a \in {0, 4, n, n + 4}, k \in {0, 4}, g \in BOOLEAN }
     \cup { Rec("deallocate", a, k, g, <<>>, 0, "") : a \in AA \cup {MAXU - 3}, k \in NN \cup {MAXU - 3, MAXU}, g \in BOOLEAN }
     \cup { Rec("truncate", a, 0, FALSE, <<>>, 0, "") : a \in {0, 4, 8, n, n + 4} }

\* annotation writes that keep "at most one pointer / string / c-string per cell"
AnnotEvents(s) ==
  LET n == Size(s)
      cells == { a \in {0, 4, 8} : InCell(s, a) }
  IN { Rec("write_string", a, 0, FALSE, StrB, 0, "") : a \in { x \in cells : ~HasKey(s.ptrs, x) /\ ~HasKey(s.cstr, x) } }
     \cup { Rec("write_pointer", a, 0, FALSE, <<>>, t, "") : a \in { x \in cells : ~HasKey(s.text, x) /\ ~HasKey(s.cstr, x) }, t \in {0, n} }
     \cup { Rec("write_c_string", a, 0, FALSE, StrB, 0, "") : a \in { x \in cells : CellFree(s, x) } }
     \cup { Rec(o, a, 0, FALSE, <<>>, 0, "") : o \in {"delete_string", "delete_pointer", "delete_labels"}, a \in cells }
     \cup { Rec("write_label", a, 0, FALSE, StrM, 0, "") : a \in {0, 1, n} \cap (0..n) }
     \cup { Rec("write_labels", a, 0, FALSE, <<StrM, StrL>>, 0, "") : a \in {0, n} }

Digits(w) ==
  CASE w = 1 -> { <<0>>, <<127>>, <<128>>, <<255>> }
    [] w = 2 -> { <<0, 0>>, <<1, 2>>, <<128, 0>>, <<255, 255>> }
    [] w = 4 -> { <<0, 0, 0, 0>>, <<1, 2, 3, 4>>, <<127, 128, 255, 0>>, <<128, 0, 0, 0>>, <<255, 255, 255, 255>> }
\* <<type, digits>>: unsigned for every pattern, signed for the sign-bit patterns, f32 incl. NaN payloads and a signalling NaN
TypedDigits(w) ==
  { <<"u", d>> : d \in Digits(w) }
  \cup (CASE w = 1 -> { <<"i", <<128>>>>, <<"i", <<255>>>> }
          [] w = 2 -> { <<"i", <<128, 0>>>>, <<"i", <<255, 254>>>> }
          [] w = 4 -> { <<"i", <<128, 0, 0, 0>>>>, <<"i", <<255, 255, 255, 254>>>>,
                        <<"f", <<63, 128, 0, 0>>>>, <<"f", <<127, 192, 0, 1>>>>, <<"f", <<255, 161, 35, 69>>>>, <<"f", <<127, 160, 0, 0>>>>,
                        \* the two zeros: equal as numbers, different bit patterns
                        <<"f", <<0, 0, 0, 0>>>>, <<"f", <<128, 0, 0, 0>>>> })
Types(w) == IF w = 4 THEN {"u", "i", "f"} ELSE {"u", "i"}

AccessEvents(s) ==
  LET n == Size(s)
      AA == ({0, 1, 3, 4, n - 4, n - 2, n - 1, n, n + 1} \cap (0..(n + 1))) \cup {MAXU - 4, MAXU - 1, MAXU}
      NN == {0, 1, 4, 5, n, n + 1, MAXU - 1, MAXU}
      CA == ({0, 2, 4, n - 4, n - 3, n, n + 4} \cap (0..(n + 4))) \cup {MAXU - 3, MAXU}
  IN { Rec(p \o "read_bytes", a, k, FALSE, <<>>, 0, "") : p \in {"", "s_"}, a \in AA, k \in NN }
     \cup { Rec(p \o "write_bytes", a, 0, FALSE, b, 0, "") : p \in {"", "s_"}, a \in AA, b \in { <<>>, <<170>>, <<1, 2, 3, 4>>, <<9, 8, 7, 6, 5>> } }
     \cup UNION { { Rec(p \o "read_val", a, w, FALSE, <<>>, 0, ty) : p \in {"", "s_"}, a \in AA, ty \in Types(w) } : w \in {1, 2, 4} }
     \cup UNION { { Rec(p \o "write_val", a, w, FALSE, td[2], 0, td[1]) : p \in {"", "s_"}, a \in AA, td \in TypedDigits(w) } : w \in {1, 2, 4} }
     \cup { Rec(p \o o, a, 0, FALSE, <<>>, 0, "") : p \in {"", "s_"}, o \in {"read_string", "read_pointer", "read_labels", "read_c_string"}, a \in CA }
     \* annotation writes only on cell-aligned addresses (one annotation per 4-byte cell is the domain)
     \cup { Rec(p \o "write_string", a, 0, FALSE, StrB, 0, "") : p \in {"", "s_"}, a \in { x \in CA : x % 4 = 0 /\ ~HasKey(s.ptrs, x) } }
     \cup { Rec(p \o "write_pointer", a, 0, FALSE, <<>>, 4, "") : p \in {"", "s_"}, a \in { x \in CA : x % 4 = 0 /\ ~HasKey(s.text, x) } }
     \cup { Rec(p \o "write_label", a, 0, FALSE, StrM, 0, "") : p \in {"", "s_"}, a \in CA }
     \cup { Rec(p \o o, a, 0, FALSE, <<>>, 0, "") : p \in {"", "s_"}, o \in {"delete_string", "delete_pointer"}, a \in CA }
     \cup { Rec("delete_labels", a, 0, FALSE, <<>>, 0, "") : a \in CA }
     \* further observers / label editing (informational conformance)
     \cup { Rec("delete_label", a, k, FALSE, <<>>, 0, "") : a \in CA, k \in {0, 1, 2} }
     \cup { Rec("s_read_label", a, k, FALSE, <<>>, 0, "") : a \in CA, k \in {0, 1, 2} }
     \cup { Rec(o, a, 0, FALSE, <<>>, 0, "") : o \in {"s_read_sjis", "s_read_utf16"}, a \in AA }
     \cup { Rec("get_labels", 0, 0, FALSE, <<>>, 0, ""), Rec("pointer_destinations", 0, 0, FALSE, <<>>, 0, "") }
     \cup { Rec("find_label", 0, 0, FALSE, nm, 0, "") : nm \in {StrL, StrM, StrA} }
     \cup { Rec("equal_regions", a, k, FALSE, <<>>, b, "") : a \in {0, 4}, b \in {0, 4, 8}, k \in {0, 4, 5, 8} }
     \* the Endian codec (stateless: emitted from the empty archives only)
     \cup (IF n # 0 THEN {} ELSE
            UNION { { Rec("endian_encode", 0, w, FALSE, td[2], 0, td[1]) : td \in TypedDigits(w) } : w \in {2, 4} }
            \cup UNION { { Rec("endian_decode", 0, w, FALSE, b, 0, ty) : ty \in Types(w),
                             b \in Digits(w) \cup { <<>>, <<1>>, <<1, 2, 3>>, <<1, 2, 3, 4, 5>> } } : w \in {2, 4} })

Events(s) == IF Focus = "c04" THEN AccessEvents(s) ELSE StructEvents(s) \cup AnnotEvents(s)

\* sessions: ONE live writer / reader used for several calls (curated patterns; only sessions whose cursors are
\* determined, i.e. in which only the last step can fail, are emitted).  The patterns make the object's view of the
\* archive go stale if it caches anything: the size changes behind the cursor, the old end becomes an inner address,
\* a failed call is followed by nothing.
Step(op, a, n, ge, bs, ty) == Rec(op, a, n, ge, bs, 0, ty)
Sess(kind, start, steps) == [op |-> "session", a |-> start, n |-> 0, ge |-> FALSE, bs |-> <<>>, t |-> 0, ty |-> "", kind |-> kind, steps |-> steps]
SessionEvents(s) ==
  LET n  == Size(s)
      K(a) == Step("seek", a, 0, FALSE, <<>>, "")
      A  == Step("w_allocate_at_end", 0, 4, FALSE, <<>>, "")
      L  == Step("s_allocate", 0, 4, FALSE, <<>>, "")
      LG == Step("s_allocate", 0, 4, TRUE, <<>>, "")
      Z  == Step("w_size", 0, 0, FALSE, <<>>, "")
      V  == Step("s_write_val", 0, 4, FALSE, <<1, 2, 3, 4>>, "u")
      V1 == Step("s_write_val", 0, 1, FALSE, <<200>>, "u")
      WB == Step("s_write_bytes", 0, 0, FALSE, <<9, 8>>, "")
      \* a value that compares equal to what the cell holds but has other bits (+0.0 / -0.0) must still be stored
      FZ == Step("s_write_val", 0, 4, FALSE, <<0, 0, 0, 0>>, "f")
      FN == Step("s_write_val", 0, 4, FALSE, <<128, 0, 0, 0>>, "f")
      RF == Step("s_read_val", 0, 4, FALSE, <<>>, "f")
      R  == Step("s_read_val", 0, 4, FALSE, <<>>, "u")
      R1 == Step("s_read_val", 0, 1, FALSE, <<>>, "u")
      B2 == Step("s_read_bytes", 0, 2, FALSE, <<>>, "")
      S  == Step("s_read_string", 0, 0, FALSE, <<>>, "")
      P  == Step("s_read_pointer", 0, 0, FALSE, <<>>, "")
      Lb == Step("s_read_labels", 0, 0, FALSE, <<>>, "")
      Sk == Step("skip", 0, 1, FALSE, <<>>, "")
      all == IF Focus = "c04"
             THEN { Sess("r", c, ss) : c \in {0, 1}, ss \in { <<R, R>>, <<R1, R1, R>>, <<R1, B2, R1>>, <<S, P>>, <<Lb, R, Lb>>, <<Sk, R1, Sk, R1>>,
                                                              <<K(n), R1>>, <<R, K(0), R>> } }
                  \cup (IF n >= 1 THEN { Sess("r", 0, <<K(n - 1), R1, R1>>) } ELSE {})
                  \cup { Sess("w", c, ss) : c \in {0, 1}, ss \in { <<V1, V1>>, <<V, V>>, <<WB, V1, Z>>, <<V, K(0), V1>>, <<FZ, K(0), FN>>, <<FN, K(0), FZ>> } }
                  \cup (IF n >= 4 THEN { Sess("w", 0, <<K(n - 4), V, V1>>) } ELSE {})
             ELSE { Sess("w", c, ss) : c \in {0, n},
                      ss \in { <<A, K(n), L>>, <<A, K(n), LG>>, <<A, K(0), L, Z>>, <<K(n), L, Z>>, <<K(0), L, V>>, <<K(n), L, L>>,
                               <<K(n), L, K(n), LG, Z>>, <<V, V>>, <<A, Z, K(n), V>>, <<K(n + 4), L>>, <<A, A, K(n + 4), L>>, <<L, L>> } }
  IN { e \in all : CursorsDetermined(s, e.a, e.steps) }

\* phase 2: successful operations lead to new states
Op ==
  /\ Ready /\ depth < MaxDepth
  /\ \E ev \in Events(st) : \E o \in Outcomes(st, ev) :
        /\ o.res.ok /\ Size(o.st) <= MaxSize /\ o.st # st /\ WellAnnotated(o.st)
        /\ st' = o.st
  /\ depth' = depth + 1 /\ UNCHANGED stage

Next == ChooseSize \/ Annotate \/ Label \/ Op
Spec == Init /\ [][Next]_vars

\* ------------------------------------------------------------------ laws
Laws ==
  /\ WellAnnotated(st) /\ WellSorted(st)
  /\ \A ev \in Events(st) :
       /\ Outcomes(st, ev) # {}
       /\ ErrUnchanged(st, ev)
       /\ \A o \in Outcomes(st, ev) : WellSorted(o.st) /\ (o.res.ok /\ ev.op \in {"allocate", "allocate_at_end", "deallocate", "truncate", "s_allocate"} => WellAnnotated(o.st))
       /\ ev.op = "allocate" => AllocConserves(st, ev.a, ev.n, ev.ge) /\ AllocDeallocInverse(st, ev.a, ev.n)
       /\ ev.op = "write_val" => WriteLocalReadBack(st, ev.a, ev.bs)
       \* annotation accessors never disturb raw bytes
       /\ ev.op \in {"write_string", "write_pointer", "write_label", "write_labels", "write_c_string", "delete_string", "delete_pointer", "delete_labels",
                     "read_string", "read_pointer", "read_labels"} => \A o \in Outcomes(st, ev) : o.st.data = st.data
       \* a stream call is the positional call at the cursor
       /\ (ev.op = "s_read_val") => { [o EXCEPT !.pos = 0] : o \in Outcomes(st, ev) } = ReadValOutcomes(st, ev.a, ev.n)

\* sessions: at least one run, every run ends in a sorted state, an error step leaves the archive as it was
SessionLaws ==
  \A ev \in SessionEvents(st) :
     /\ SessionOutcomes(st, ev.a, ev.steps) # {}
     /\ \A o \in SessionOutcomes(st, ev.a, ev.steps) : WellSorted(o.st)
     \* a session of seeks, size observers and failing calls changes nothing
     /\ \A r \in SessionRuns(st, ev.a, ev.steps, Len(ev.steps)) :
          (\A k \in 1..Len(ev.steps) : ev.steps[k].op \in {"seek", "skip", "w_size"} \/ ~r.obs[k].res.ok) => r.st = st

\* ------------------------------------------------------------------ generator
Emit == (Ready /\ depth <= EmitDepth) =>
  \A ev \in Events(st) :
     PrintT("G " \o ToJson([pre |-> st, ev |-> ev, allowed |-> SetToSeq(Outcomes(st, ev))]))
EmitSessions == (Ready /\ depth <= EmitDepth) =>
  \A ev \in SessionEvents(st) :
     PrintT("G " \o ToJson([pre |-> st, ev |-> ev, allowed |-> SetToSeq(SessionOutcomes(st, ev.a, ev.steps))]))

View == <<st, stage, IF Quick THEN 0 ELSE depth>>
=============================================================================
