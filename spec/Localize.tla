------------------------------ MODULE Localize ------------------------------
(* Path localisation (property C14).

   A byte string is a sequence of integers 0..255.  A path is the record
       [a : BOOLEAN,  c : sequence of components,  t : BOOLEAN]
   a = starts with '/', c = the components (non-empty byte strings, "." and ".."
   included when they are spelled), t = ends with '/' after the last component.
   Render(p) is the byte string handed to the implementation.  The relative
   paths of plain components of the property are those with a = FALSE and only
   normal components; the degenerate paths (no final component) are "", "/", "//",
   ".", "..", "/..", "/.", "x/.." and their spellings with a trailing '/'.

   Marker(loc, lang) is the table of the property statement:
     3DS games (FE13, FE14, FE15): a language DIRECTORY; none for Japanese in
       FE13/FE14; Dutch unsupported in FE13/FE14.
     GameCube/Wii (FE9, FE10): a file-name PREFIX; none for Japanese, nor for
       English in FE9; Dutch unsupported.
     NoOp: identity.
   Split: the last normal component is the final component, the rest is the
   directory part; a single component is a directory with an empty final
   component; no final component -> error.
   Localize = dir ++ "/" ++ marker ++ final.

   LocalizeOutcomes is the SET of allowed results.  Where the statement is silent
   (whether a result that denotes a directory ends with '/', whether a trailing
   '/' of the input survives) every variant is allowed. *)
EXTENDS Naturals, Sequences, FiniteSets

SLASH == 47
DotC == <<46>>
DotDotC == <<46, 46>>

Localizers == {"NoOp", "FE9", "FE10", "FE13", "FE14", "FE15"}
Languages == {"EnglishNA", "EnglishEU", "Japanese", "Spanish", "French", "Italian", "German", "Dutch"}

\* ------------------------------------------------------------------ byte strings
StartsWith(s, pre) == Len(s) >= Len(pre) /\ SubSeq(s, 1, Len(pre)) = pre
EndsWith(s, suf) == Len(s) >= Len(suf) /\ SubSeq(s, Len(s) - Len(suf) + 1, Len(s)) = suf

RECURSIVE Join(_)
Join(cs) == IF Len(cs) = 0 THEN <<>>
            ELSE IF Len(cs) = 1 THEN cs[1]
            ELSE cs[1] \o <<SLASH>> \o Join(Tail(cs))

\* a = TRUE, c = <<>>, t = TRUE spells "//"
Render(p) == (IF p.a THEN <<SLASH>> ELSE <<>>) \o Join(p.c)
             \o (IF p.t /\ (Len(p.c) > 0 \/ p.a) THEN <<SLASH>> ELSE <<>>)

ButLast(s) == SubSeq(s, 1, Len(s) - 1)
LastOf(s) == s[Len(s)]

\* ------------------------------------------------------------------ marker table
\* [kind |-> "dir" | "prefix" | "none" | "unsupported" | "identity", s |-> spelling]
Mk(k, s) == [kind |-> k, s |-> s]
NoMarker == Mk("none", <<>>)
Unsupported == Mk("unsupported", <<>>)

Marker(loc, lang) ==
  CASE loc = "NoOp" -> Mk("identity", <<>>)
    [] loc = "FE13" ->
        (CASE lang = "EnglishNA" -> Mk("dir", <<69>>)              \* E
           [] lang = "EnglishEU" -> Mk("dir", <<85>>)              \* U
           [] lang = "Japanese"  -> NoMarker
           [] lang = "Spanish"   -> Mk("dir", <<83>>)              \* S
           [] lang = "French"    -> Mk("dir", <<70>>)              \* F
           [] lang = "German"    -> Mk("dir", <<71>>)              \* G
           [] lang = "Italian"   -> Mk("dir", <<73>>)              \* I
           [] lang = "Dutch"     -> Unsupported)
    [] loc = "FE14" ->
        (CASE lang = "EnglishNA" -> Mk("dir", <<64, 69>>)          \* @E
           [] lang = "EnglishEU" -> Mk("dir", <<64, 85>>)          \* @U
           [] lang = "Japanese"  -> NoMarker
           [] lang = "Spanish"   -> Mk("dir", <<64, 83>>)          \* @S
           [] lang = "French"    -> Mk("dir", <<64, 70>>)          \* @F
           [] lang = "German"    -> Mk("dir", <<64, 71>>)          \* @G
           [] lang = "Italian"   -> Mk("dir", <<64, 73>>)          \* @I
           [] lang = "Dutch"     -> Unsupported)
    [] loc = "FE15" ->
        (CASE lang = "EnglishNA" -> Mk("dir", <<64, 78, 79, 65, 95, 69, 78>>)   \* @NOA_EN
           [] lang = "EnglishEU" -> Mk("dir", <<64, 78, 79, 69, 95, 69, 78>>)   \* @NOE_EN
           [] lang = "Japanese"  -> Mk("dir", <<64, 74>>)                       \* @J
           [] lang = "Spanish"   -> Mk("dir", <<64, 78, 79, 69, 95, 83, 80>>)   \* @NOE_SP
           [] lang = "French"    -> Mk("dir", <<64, 78, 79, 69, 95, 70, 82>>)   \* @NOE_FR
           [] lang = "German"    -> Mk("dir", <<64, 78, 79, 69, 95, 71, 69>>)   \* @NOE_GE
           [] lang = "Italian"   -> Mk("dir", <<64, 78, 79, 69, 95, 73, 84>>)   \* @NOE_IT
           [] lang = "Dutch"     -> Mk("dir", <<64, 78, 79, 69, 95, 68, 85>>)   \* @NOE_DU
         )
    [] loc = "FE9" ->
        (CASE lang \in {"EnglishNA", "EnglishEU", "Japanese"} -> NoMarker
           [] lang = "Spanish"   -> Mk("prefix", <<115, 95>>)      \* s_
           [] lang = "German"    -> Mk("prefix", <<100, 95>>)      \* d_
           [] lang = "Italian"   -> Mk("prefix", <<105, 95>>)      \* i_
           [] lang = "French"    -> Mk("prefix", <<102, 95>>)      \* f_
           [] lang = "Dutch"     -> Unsupported)
    [] loc = "FE10" ->
        (CASE lang \in {"EnglishNA", "EnglishEU"} -> Mk("prefix", <<101, 95>>)   \* e_
           [] lang = "Japanese"  -> NoMarker
           [] lang = "Spanish"   -> Mk("prefix", <<115, 95>>)      \* s_
           [] lang = "German"    -> Mk("prefix", <<100, 95>>)      \* d_
           [] lang = "Italian"   -> Mk("prefix", <<105, 95>>)      \* i_
           [] lang = "French"    -> Mk("prefix", <<102, 95>>)      \* f_
           [] lang = "Dutch"     -> Unsupported)

\* ------------------------------------------------------------------ split
NormalC(c) == Len(c) > 0 /\ c # DotC /\ c # DotDotC /\ \A i \in 1..Len(c) : c[i] # SLASH
Plain(p) == ~p.a /\ Len(p.c) > 0 /\ \A i \in 1..Len(p.c) : NormalC(p.c[i])
Degenerate(p) ==
  \/ Len(p.c) = 0                                          \* "", "/", "//"
  \/ p.c = <<DotC>>                                        \* ".", "./", "/."
  \/ p.c = <<DotDotC>>                                     \* "..", "../", "/.."
  \/ ~p.a /\ Len(p.c) = 2 /\ NormalC(p.c[1]) /\ p.c[2] = DotDotC   \* "x/..", "x/../"
\* the paths the property speaks about
InScope(p) == Plain(p) \/ Degenerate(p)
HasFinal(p) == Plain(p)

DirPart(p) == IF Len(p.c) = 1 THEN p.c ELSE ButLast(p.c)
FinalPart(p) == IF Len(p.c) = 1 THEN <<>> ELSE LastOf(p.c)     \* <<>> = empty final component

\* ------------------------------------------------------------------ localize
LErr == [ok |-> FALSE, p |-> [a |-> FALSE, c |-> <<>>, t |-> FALSE]]
LOk(c, t) == [ok |-> TRUE, p |-> [a |-> FALSE, c |-> c, t |-> t]]

\* results for a path with a final component and a supported pair
Located(m, p) ==
  LET d == DirPart(p)
      f == FinalPart(p)
      single == Len(p.c) = 1
      \* does the result denote a directory (ends after a directory name)?  Then the
      \* trailing '/' is open; otherwise a trailing '/' is allowed only if the input had one.
      ts == IF single THEN {TRUE, FALSE} ELSE IF p.t THEN {TRUE, FALSE} ELSE {FALSE}
  IN CASE m.kind = "dir"    -> { LOk(d \o <<m.s>> \o (IF single THEN <<>> ELSE <<f>>), t) : t \in ts }
       [] m.kind = "none"   -> { LOk(d \o (IF single THEN <<>> ELSE <<f>>), t) : t \in ts }
       [] m.kind = "prefix" -> IF single THEN { LOk(d \o <<m.s>>, FALSE) }      \* "m" -> "m/e_"
                               ELSE { LOk(d \o <<m.s \o f>>, t) : t \in ts }

\* The implementation's canonical choice, singled out for documentation: dir ++ "/" ++ marker ++ final
\* where the marker of a language directory is spelled name ++ "/".
Canonical(m, p) ==
  LET single == Len(p.c) = 1 IN
  CASE m.kind = "dir"    -> LOk(DirPart(p) \o <<m.s>> \o (IF single THEN <<>> ELSE <<FinalPart(p)>>), single)
    [] m.kind = "none"   -> LOk(DirPart(p) \o (IF single THEN <<>> ELSE <<FinalPart(p)>>), single)
    [] m.kind = "prefix" -> LOk(DirPart(p) \o <<m.s \o FinalPart(p)>>, FALSE)

LocalizeOutcomes(loc, lang, p) ==
  LET m == Marker(loc, lang) IN
  CASE m.kind = "identity" ->
         \* NoOp is no game: identity on every path; for final-less paths the statement's error
         \* clause and the identity reading are both admissible
         IF HasFinal(p) THEN { [ok |-> TRUE, p |-> p] } ELSE { [ok |-> TRUE, p |-> p], LErr }
    [] m.kind = "unsupported" -> { LErr }
    [] OTHER -> IF HasFinal(p) THEN Located(m, p) ELSE { LErr }

\* byte-string level view used for the comparison with the implementation
RenderedOutcomes(loc, lang, p) ==
  { IF o.ok THEN [ok |-> TRUE, s |-> Render(o.p)] ELSE [ok |-> FALSE, s |-> <<>>]
      : o \in LocalizeOutcomes(loc, lang, p) }

\* ------------------------------------------------------------------ the property, on byte strings
\* out = directory part ++ "/" ++ marker spelling ++ final component (++ optional '/'), nothing else
MarkerSpelling(m) == CASE m.kind = "dir" -> m.s \o <<SLASH>>
                       [] m.kind = "prefix" -> m.s
                       [] OTHER -> <<>>
InsertsOnlyMarker(loc, lang, p, out) ==
  LET m == Marker(loc, lang)
      d == Join(DirPart(p))
      f == FinalPart(p)
      mid == <<SLASH>> \o MarkerSpelling(m)
      core == d \o mid \o f
  IN /\ StartsWith(out, d)
     /\ out \in {core} \cup (IF EndsWith(core, <<SLASH>>) THEN {ButLast(core)}
                             ELSE IF p.t THEN {core \o <<SLASH>>} ELSE {})
     /\ EndsWith(out, f) \/ EndsWith(out, f \o <<SLASH>>)

LocalizeLaws(loc, lang, p) ==
  LET m == Marker(loc, lang)
      outs == LocalizeOutcomes(loc, lang, p)
  IN /\ outs # {}
     \* errors exactly on unsupported pairs and final-less paths (games only)
     /\ m.kind # "identity" =>
          /\ (m.kind = "unsupported" \/ ~HasFinal(p)) <=> outs = {LErr}
          /\ (m.kind # "unsupported" /\ HasFinal(p)) <=> \A o \in outs : o.ok
     /\ m.kind = "identity" => [ok |-> TRUE, p |-> p] \in outs
     /\ \A o \in outs : (o.ok /\ m.kind # "identity") =>
          /\ InsertsOnlyMarker(loc, lang, p, Render(o.p))
          /\ Plain(o.p)
     \* the canonical spelling is always among the allowed ones
     /\ (m.kind \in {"dir", "none", "prefix"} /\ HasFinal(p)) => Canonical(m, p) \in outs
=============================================================================
