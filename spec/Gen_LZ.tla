------------------------------ MODULE Gen_LZ ------------------------------
(* Generator (spec -> impl) for C11: TLC enumerates token sequences at the REAL
   encodings, encodes them to stream bytes (LZ!Encode), derives malformed and
   statement-silent variants, classifies every stream for every decompression entry
   point with the decoder state machine (LZ!Route / Decode / ClassOf) and prints

     G {fam, fmt, var, nrefs, stream, expect, entries: [[entry, cls, why] ...]}

   cls "ok": the entry point must return Ok(expect); "err": must return Err;
   "okerr": Ok(expect) or Err; "open": Ok(anything) or Err.  Never a panic.

   Families (variable fam), all for fmt in {lz10, lz11}:
     small  every token sequence of <= Depth tokens over literals {a,b} and references
            of length 3,4 with displacement 1,2,3 or Len(out) (overlapping copies,
            displacement 1, reach to the first byte)
     group  a literal run of 6..8 / 14..16 bytes, then <= 2 such tokens: references
            on both sides of a flag-byte boundary
     edge   a literal run (macro token) of 1..5000 bytes, then a reference with a
            boundary length of the format (3,4,16,17,18,272,273,4096,4097,65808) and a
            displacement from {1,2,3,m-1,m,4095,4096}, then optionally one more token
     nibble a short literal run, then a reference whose length sits where a nibble of the
            3-/4-byte length field rolls over (0x20/0x21, 0x120/0x121, 0x210/0x211,
            0x1110/0x1111, 0x2110/0x2111, 0x8110/0x8111), then a literal / a near / a
            far reference (and a far reference after the literal): exposes any consumer
            that mis-tracks how many bytes a long reference produced
     window exactly 4094..4097 bytes produced (by literals, or literals + a reference),
            then a reference with every displacement in produced+1 .. 4096 (before the
            start, by one or two bytes at the window edge) and the legal edge ones
     big    declared length around and above 2^16 (third header byte non-zero): a literal
            run and one maximal short-form reference producing 0xFFFF, 0x10000, 0x10001
            (thorough also 0x20304) bytes
     ext    LZ11 streams with the 32-bit extended size header declaring 2^24, 2^24+1..3, 2^25+5,
            2^24+2^16 bytes: 0..3 literals, then a reference before the start of the output in
            each of the three layouts (displacement produced+1, 100, 4096), or nothing more
            (truncation); bare and wrapped.  The verdict is open (Ok or Err), a panic is not.
     rand   token sequences read from IOEnv.TOKENS (seeded random, written by the
            harness: lengths log-uniform over the whole range of the format,
            displacements anywhere in 1..min(produced,4096), several references per
            stream); TLC checks they are well-formed, encodes and expands them
     fixed  empty / shorter than a header / unknown type / stored form / short wrapper
   Variants of each stream: exact; bare and 0x13-wrapped (lz11; lz10 wrapped too);
   every truncation (small, group) or the cuts around the last token (edge); a
   reference reaching before the start of the output at every token position;
   trailing byte; declared length one short (overshoot); 32-bit length header.  *)
EXTENDS LZ, TLC, Json, IOUtils

Tier == IF "VERIF_TIER" \in DOMAIN IOEnv THEN IOEnv.VERIF_TIER ELSE "quick"
Quick == Tier = "quick"

FOf(f) == IF f = "lz10" THEN LZ10 ELSE LZ11
Entries == <<"lz10", "lz13", "cf10", "cf13">>
A == 97
B == 98

VARIABLES fam, fmt, ts
vars == <<fam, fmt, ts>>

Depth == IF Quick THEN 4 ELSE 5
SmallLens == {3, 4}
SmallMenu(m) == { Lit(A), Lit(B) }
                \cup { Ref(l, dd) : l \in SmallLens, dd \in { x \in {1, 2, 3, m} : 1 <= x /\ x <= m } }

GroupRuns == IF Quick THEN {7, 8, 15} ELSE {6, 7, 8, 14, 15, 16}
EdgeRuns == IF Quick THEN {1, 3, 17, 4096}
            ELSE {1, 2, 3, 4, 15, 16, 17, 18, 272, 273, 4095, 4096, 4097}
BigRun(n) == n >= 4000
BLens(F) == { l \in (IF Quick THEN {3, 16, 17, 18, 273, 4096, 4097}
                     ELSE {3, 4, 16, 17, 18, 19, 272, 273, 4096, 4097}) : l <= F.MaxLen }
EdgeDisps(m) == { x \in {1, 2, 3, m - 1, m, 4095, 4096} : 1 <= x /\ x <= m /\ x <= 4096 }
\* the longest LZ11 reference, a few cases only
HugeOK(F, m) == F.MaxLen >= 65808 /\ m \in (IF Quick THEN {1, 4096} ELSE {1, 3, 4096, 4097})

\* lengths at which a nibble of the length field of the 3-byte / 4-byte LZ11 form rolls over
NibbleLens(F) == { l \in (IF Quick THEN {33, 289, 529, 4368, 4369, 8465, 33041}
                          ELSE {32, 33, 288, 289, 528, 529, 4368, 4369, 8464, 8465, 33040, 33041, 61713}) :
                   l <= F.MaxLen }
NibbleRuns == IF Quick THEN {1, 17} ELSE {1, 3, 17, 300}
WindowEdge == {4094, 4095, 4096, 4097}
BigTotals == IF Quick THEN {65535, 65536, 65537} ELSE {65535, 65536, 65537, 131844}

\* seeded random token sequences written by the harness (mvh_lz tokgen): [fmt, ts]
Toks == IF "TOKENS" \in DOMAIN IOEnv THEN ndJsonDeserialize(IOEnv.TOKENS) ELSE <<>>

\* GEN_FAM selects one family (the check may run the families as separate TLC processes)
Fams == IF "GEN_FAM" \in DOMAIN IOEnv THEN {IOEnv.GEN_FAM}
        ELSE {"small", "group", "edge", "nibble", "window", "big", "ext", "fixed"} \cup (IF Len(Toks) > 0 THEN {"rand"} ELSE {})

Init == /\ fam \in Fams
        /\ IF fam = "rand"
           THEN \E i \in 1..Len(Toks) : fmt = Toks[i].fmt /\ ts = Toks[i].ts
           ELSE fmt \in {"lz10", "lz11"} /\ ts = <<>>

Extend ==
  LET F == FOf(fmt)
      m == OutLen(ts)
      k == Len(ts)
  IN
  \/ /\ fam = "small" /\ k < Depth
     /\ \E t \in SmallMenu(m) : ts' = Append(ts, t)
  \/ /\ fam = "group" /\ k = 0
     /\ \E n \in GroupRuns : ts' = <<Run(n, 40)>>
  \/ /\ fam = "group" /\ k \in 1..2
     /\ \E t \in SmallMenu(m) : ts' = Append(ts, t)
  \/ /\ fam = "edge" /\ k = 0
     /\ \E n \in EdgeRuns : ts' = <<Run(n, 11)>>
  \/ /\ fam = "edge" /\ k = 1
     /\ \/ \E l \in BLens(F), dd \in EdgeDisps(m) : ts' = Append(ts, Ref(l, dd))
        \/ HugeOK(F, m) /\ \E dd \in {1, Min(m, 4096)} : ts' = Append(ts, Ref(65808, dd))
  \/ /\ fam = "edge" /\ k = 2 /\ ts[2].len < 65808
     /\ \/ ts[1].len <= 18
        \/ ~Quick /\ ~BigRun(ts[1].len)
        \/ ~Quick /\ ts[2].len \in {3, 18} /\ ts[2].disp \in {1, 4096}
     /\ \E t \in {Lit(B)} \cup { Ref(3, dd) : dd \in { x \in {1, m, 4096} : x <= m /\ x <= 4096 } } : ts' = Append(ts, t)

ExtendMore ==
  LET F == FOf(fmt)
      m == OutLen(ts)
      k == Len(ts)
      far == Min(m, 4096)
  IN
  \/ /\ fam = "nibble" /\ k = 0 /\ NibbleLens(F) # {}
     /\ \E n \in NibbleRuns : ts' = <<Run(n, 23)>>
  \/ /\ fam = "nibble" /\ k = 1
     /\ \E l \in NibbleLens(F), dd \in {1, m} : (l < 30000 \/ (m = 1 /\ dd = 1)) /\ ts' = Append(ts, Ref(l, dd))
  \/ /\ fam = "nibble" /\ k = 2
     /\ \E t \in {Lit(B), Ref(3, 1), Ref(3, far), Ref(4, far \div 2 + 1)} : ts' = Append(ts, t)
  \/ /\ fam = "nibble" /\ k = 3 /\ ts[3].k = "lit"
     /\ ts' = Append(ts, Ref(4, far))
  \/ /\ fam = "big" /\ k = 0
     /\ \E n \in BigTotals : ts' = <<Run(n - F.LA, 77), Ref(F.LA, 1)>>
  \/ /\ fam = "window" /\ k = 0
     /\ \E n \in WindowEdge : ts' = <<Run(n, 11)>> \/ ts' = <<Run(n - 18, 11), Ref(18, 1)>>

Next == (Extend \/ ExtendMore) /\ UNCHANGED <<fam, fmt>>
Spec == Init /\ [][Next]_vars

\* ------------------------------------------------------------------ classification of one stream for all entries
Verdicts(s) ==
  LET d(F, off) == Decode(F, s, off)
      d10  == d(LZ10, 0)
      d11  == d(LZ11, 0)
      d10w == d(LZ10, 4)
      d11w == d(LZ11, 4)
      Pick(r) == IF ~r.run THEN Dec0(0)
                 ELSE IF r.F.name = "lz10" THEN (IF r.off = 0 THEN d10 ELSE d10w)
                 ELSE (IF r.off = 0 THEN d11 ELSE d11w)
  IN [e \in 1..Len(Entries) |-> LET r == Route(Entries[e], s) IN ExtRefine(r, s, ClassOf(r, Pick(r)))]

Line(var, s) ==
  LET v    == Verdicts(s)
      oks  == { e \in 1..Len(v) : v[e].cls \in {"ok", "okerr"} }
      exp  == IF oks = {} THEN <<>> ELSE v[CHOOSE e \in oks : TRUE].out
      sane == \A e \in oks : v[e].out = exp
  IN PrintT((IF sane THEN "G " ELSE "X ") \o
            ToJson([fam |-> fam, fmt |-> fmt, var |-> var, stream |-> s, expect |-> exp,
                    nrefs |-> Cardinality({ i \in 1..Len(ts) : ts[i].k = "ref" }),
                    entries |-> [e \in 1..Len(v) |-> <<Entries[e], v[e].cls, v[e].why>>]]))

Prefix(t, i) == IF i = 0 THEN <<>> ELSE SubSeq(t, 1, i)
Last(t) == t[Len(t)]

\* 32-bit length header: type, 24-bit zero, 32-bit little-endian length
EncodeExt(F, t, n) == <<F.type, 0, 0, 0, n % 256, (n \div 256) % 256, (n \div 65536) % 256, 0>>
                      \o EncGroups(F, Flat(t))

EmitSeq ==
  LET F == FOf(fmt)
      n == OutLen(ts)
      e == Encode(F, ts)
      k == Len(ts)
      small == fam \in {"small", "group"}
      full  == k <= 4        \* sequences of 5 tokens (thorough) get the cheaper variants only
      lean  == fam \in {"nibble", "window", "big"}     \* exact / wrapped (and the window-edge references) only
  IN
  \* token sequences read from a file must be well-formed for the format (else: harness defect)
  /\ Assert(RefsOK(ts, 0) /\ \A i \in 1..k : InFormat(F, ts[i]), "generator: ill-formed token sequence")
  \* the exact stream must expand to what the token semantics says (generator self-check)
  /\ Assert(n = 0 \/ Decode(F, e, 0).out = Expand(ts), "generator: decoder and Expand disagree")
  /\ Line("exact", e)
  /\ (F.ext \/ small) => Line("wrapped", Wrap(n % 256, 7, 0, e))
  \* truncations: every proper prefix (small), those that cut the tokens after the run (group),
  \* header / last token (edge)
  /\ \A c \in (CASE fam = "small" -> IF full THEN 0..(Len(e) - 1) ELSE {Len(e) - 1}
                 [] fam = "group" -> { x \in 0..(Len(e) - 1) : x >= Len(e) - 7 }
                 [] lean -> {}
                 [] OTHER -> { x \in {4, Len(e) - 2, Len(e) - 1} : 4 <= x /\ x < Len(e) }) :
        Line("cut", Prefix(e, c))
  /\ (small /\ k >= 1 /\ (k = 4 \/ fam = "group")) =>
        \A c \in { x \in 4..(Len(e) + 3) : x >= Len(e) - 3 \/ fam = "small" } :
           Line("cutwrapped", Prefix(Wrap(0, 0, 0, e), c))
  \* a reference reaching before the start of the output, at every token position
  /\ \A i \in (IF small THEN 0..k ELSE IF lean THEN {}
               ELSE IF fam = "rand" THEN {k \div 2} ELSE { x \in {1} : x <= k }) :
       LET pre == Prefix(ts, i)
           m   == OutLen(pre)
           rest == IF i >= k THEN <<>> ELSE SubSeq(ts, i + 1, k)
       IN /\ m + 1 <= 4096 =>
               /\ Line("before", EncodeN(F, pre \o <<Ref(3, m + 1)>> \o rest, n + 3))
               /\ (small /\ full) => Line("beforewrapped", Wrap(0, 0, 0, EncodeN(F, pre \o <<Ref(F.MaxLen, m + 1)>>, m + F.MaxLen)))
          /\ (small /\ full /\ m + 1 < 4096) => Line("beforefar", EncodeN(F, pre \o <<Ref(4, 4096)>> \o rest, n + 4))
  \* statement-silent variants
  \* window edge: every displacement that reaches before the start by one or two bytes, and the legal ones
  /\ fam = "window" /\ k >= 1 =>
       /\ \A dd \in (n + 1)..4096 :
             /\ Line("beforeedge", EncodeN(F, Append(ts, Ref(3, dd)), n + 3))
             /\ Line("beforeedgewrapped", Wrap(0, 0, 0, EncodeN(F, Append(ts, Ref(F.MaxLen, dd)), n + F.MaxLen)))
       /\ \A dd \in { x \in {n - 1, n, 4095, 4096} : x <= n /\ x <= 4096 } :
             Line("exact", Encode(F, Append(ts, Ref(3, dd))))
  /\ (k >= 1 /\ ~lean) =>
       /\ Last(ts).k = "ref" => Line("over", EncodeN(F, ts, n - Last(ts).len + 1))
       /\ (small \/ (~Quick /\ ~BigRun(ts[1].len))) =>
            /\ Line("trail", e \o <<255>>)
            /\ full => /\ Line("trail", e \o <<0>>)
                       /\ Line("declminus", EncodeN(F, ts, n - 1))
                       /\ Line("declplus", EncodeN(F, ts, n + 1))
  /\ (small /\ full /\ F.ext) => Line("ext", EncodeExt(F, ts, n))

TypeBytes == {0, 1, 16, 17, 18, 19, 20, 32, 128, 255}
EmitFixed ==
  LET F == FOf(fmt)
      sample == Encode(F, <<Lit(A), Lit(B), Lit(A), Ref(3, 2)>>)
  IN
  /\ Line("empty", <<>>)
  /\ \A t \in TypeBytes :
       /\ Line("short", <<t>>)
       /\ Line("short", <<t, 1>>)
       /\ Line("short", <<t, 1, 0>>)
       /\ Line("type", [sample EXCEPT ![1] = t])
       /\ Line("wraptype", Wrap(0, 0, 0, [sample EXCEPT ![1] = t]))
  /\ \A c \in 4..7 : Line("shortwrapped", Prefix(Wrap(1, 2, 3, sample), c))
  /\ \A data \in { <<>>, <<1>>, <<1, 2, 3>>, <<16, 3, 0, 0, 0, 1, 2, 3>>, [j \in 1..300 |-> RunByte(5, j)] } :
       /\ Line("stored", Stored(data))
       /\ Line("storedlen", [Stored(data) EXCEPT ![2] = (@ + 1) % 256])
  /\ Line("zero", <<F.type, 0, 0, 0>>)
  /\ Line("zero", <<F.type, 0, 0, 0, 0, 0, 0, 0>>)
  /\ Line("zero", <<F.type, 0, 0, 0, 2, 0, 0, 0, 0, A, B>>)

\* extended (32-bit) size header, little-endian size bytes given directly (sizes >= 2^24)
ExtSizes == { <<0, 0, 0, 1>>, <<1, 0, 0, 1>>, <<2, 0, 0, 1>>, <<3, 0, 0, 1>>, <<5, 0, 0, 2>>, <<0, 0, 1, 1>> }
EmitExt ==
  \A sz \in ExtSizes, k \in 0..3 :
    LET lits == [i \in 1..k |-> Lit(IF i % 2 = 1 THEN A ELSE B)]
        hdr  == <<LZ11.type, 0, 0, 0>> \o sz
    IN /\ Line("exttrunc", hdr \o EncGroups(LZ11, lits))
       /\ \A l \in {3, 17, 273}, dd \in {k + 1, 100, 4096} :
             LET s == hdr \o EncGroups(LZ11, lits \o <<Ref(l, dd)>>) IN
             /\ Line("extbefore", s)
             /\ Line("extbeforewrapped", Wrap(0, 0, 0, s))

Emit == IF fam = "fixed" THEN (ts = <<>> => EmitFixed)
        ELSE IF fam = "ext" THEN (fmt = "lz11" => EmitExt)
        ELSE EmitSeq
=============================================================================
