------------------------------- MODULE Parsers -------------------------------
(* Outcome model for the parsers of untrusted bytes (property C05).

   The specification cannot decide panic-freedom of Rust code; it decides
     (a) which observed outcomes are LEGAL for a buffer:  "ok" or "err", a largest
         single allocation request <= 512 * len + 64 KiB, and - for inputs that must be
         rejected - "err";  "panic", "abort", "timeout" are never legal;
     (b) the MUST-REJECT predicates, computed from the raw bytes in overflow-free
         arithmetic (32-bit fields >= 2^31 read as Huge);
     (c) the boundary inputs: for a base image, the single-field mutations that plant
         boundary values in every header and table field, and the truncations.        *)
EXTENDS BinFormat

\* ------------------------------------------------------------------ (b) must-reject
BinMustReject(f, e) == MustReject(f, e)

\* GameCube/Wii pack: "pack", u16 BE count, 16-byte BE entries (0, name address, file address, size)
PackEntryBad(f, i) ==
  LET base == 8 + 16 * (i - 1)
      na == Rd32(f, base + 4, "be")  fa == Rd32(f, base + 8, "be")  sz == Rd32(f, base + 12, "be")
  IN na = Huge \/ fa = Huge \/ sz = Huge \/ na >= Len(f) \/ fa > Len(f) \/ sz > Len(f) \/ fa + sz > Len(f)
\* (a buffer too short to hold even the count declares nothing; the reader fails on it anyway)
PackMustReject(f) ==
  /\ Len(f) >= 6
  /\ LET count == Rd16(f, 4, "be") IN
       /\ count > 0
       /\ \/ 8 + 16 * count > Len(f)
          \/ \E i \in 1..count : PackEntryBad(f, i)

\* 3DS arc: little-endian bin archive, "Count" label on the record count, "Info" label on 16-byte records
\* (name cell, index, size, offset relative to the end of the 0x60 zero header when the first word is 0)
NameCount == <<67, 111, 117, 110, 116>>
NameInfo == <<73, 110, 102, 111>>
LabelAddrs(c, name) == { c.labels[i][1] : i \in { j \in 1..Len(c.labels) : \E k \in 1..Len(c.labels[j][2]) : c.labels[j][2][k] = name } }
ArcMustReject(f) ==
  \/ BinMustReject(f, "le")
  \/ LET r == RefParse(f, "le") IN
       /\ r.ok
       /\ Cardinality(LabelAddrs(r.c, NameCount)) = 1 /\ Cardinality(LabelAddrs(r.c, NameInfo)) = 1
       /\ LET c == r.c
              ds == Len(c.data)
              ac == CHOOSE a \in LabelAddrs(c, NameCount) : TRUE
              ai == CHOOSE a \in LabelAddrs(c, NameInfo) : TRUE
          IN /\ ac + 4 <= ds /\ ds >= 4
             /\ LET count == Rd32(c.data, ac, "le")
                    pad == IF Rd32(c.data, 0, "le") = 0 THEN 96 ELSE 0
                    \* only records that lie inside the data region can be judged (others make the reader fail anyway)
                    most == (ds \div 16) + 1
                    upto == IF count = Huge \/ count > most THEN most ELSE count
                IN \E i \in 1..upto :
                     LET rb == ai + 16 * (i - 1) IN
                       /\ rb + 16 <= ds
                       /\ LET sz == Rd32(c.data, rb + 8, "le")  off == Rd32(c.data, rb + 12, "le")
                          \* (an empty file declares no bytes, wherever its offset points)
                          IN sz = Huge \/ (sz > 0 /\ (off = Huge \/ off > ds \/ sz > ds \/ off + pad + sz > ds))

MustRejectEntry(entry, f) ==
  CASE entry = "bin_le"  -> BinMustReject(f, "le")
    [] entry = "bin_be"  -> BinMustReject(f, "be")
    [] entry \in {"text_sjis_le", "text_uni_le", "aset", "asset"} -> BinMustReject(f, "le")
    [] entry \in {"text_sjis_be", "text_uni_be"} -> BinMustReject(f, "be")
    [] entry = "arc"     -> ArcMustReject(f)
    [] entry = "pack"    -> PackMustReject(f)
    [] OTHER -> FALSE

\* ------------------------------------------------------------------ (a) legal outcomes
\* the constant is generous on purpose: legitimate readers build vectors of large structs (one ~1 KB AssetSpec
\* per 8 input bytes, with doubling growth) - it only has to separate those from buffers sized by a planted field
AllocBound(len) == 512 * len + 65536
\* o = [outcome |-> "ok"|"err"|"panic"|..., max_alloc |-> n, reser |-> "ok"|"err"|"none"|"panic"]
\* returns 0 if legal, else the number of the violated clause
\* (len is passed separately: the trace omits the bytes of large inputs that no entry point accepted - only their
\* length matters then)
OutcomeClauseL(entry, f, len, o) ==
  IF o.outcome \notin {"ok", "err"} THEN 1                              \* panicked / aborted / did not terminate
  ELSE IF o.max_alloc > AllocBound(len) THEN 2                            \* buffer sized by an unchecked field
  ELSE IF o.outcome = "ok" /\ o.reser \notin {"ok", "err", "none"} THEN 3 \* accepted input cannot be re-serialized without panicking
  ELSE IF o.outcome = "ok" /\ MustRejectEntry(entry, f) THEN 4            \* declares more than the buffer holds, yet accepted
  ELSE 0
OutcomeClause(entry, f, o) == OutcomeClauseL(entry, f, Len(f), o)

\* ------------------------------------------------------------------ (c) boundary mutations of a base image
\* 32-bit boundary patterns as 4 bytes, most significant first
Big32 == { <<0, 1, 0, 0>>, <<63, 255, 255, 255>>, <<64, 0, 0, 0>>, <<64, 0, 0, 8>>, <<32, 0, 0, 4>>, <<127, 255, 255, 255>>,
           <<128, 0, 0, 0>>, <<255, 255, 255, 252>>, <<255, 255, 255, 255>>, <<255, 255, 255, 224>>, <<255, 255, 255, 160>> }
Digits32Of(n) == <<(n \div 16777216) % 256, (n \div 65536) % 256, (n \div 256) % 256, n % 256>>
Near(exact, len) == { Digits32Of(x) : x \in ({0, 1, exact - 1, exact, exact + 1, len - 32, len, len + 1} \cap (0..2147483647)) }
\* a field = <<offset, endian>>; its boundary values depend on its current value
FieldPatches(f, off, e) ==
  LET cur == Rd32(f, off, e)
      vals == Big32 \cup Near(IF cur = Huge THEN 0 ELSE cur, Len(f))
  IN { [off |-> off, bytes |-> Word32(d, e)] : d \in vals }

\* fields of a bin-family image: header, every pointer-table entry, every pointer cell, every label entry
BinFields(f, e) ==
  IF ~HeaderOK(f, e) THEN { 0, 4, 8, 12 } \cap (0..(Len(f) - 4))
  ELSE LET ds == Rd32(f, 4, e)  pc == Rd32(f, 8, e)  lc == Rd32(f, 12, e)
           pt == 32 + ds  lt == pt + 4 * pc
           cells == { Rd32(f, pt + 4 * (i - 1), e) : i \in 1..pc }
       IN {0, 4, 8, 12}
          \cup { pt + 4 * (i - 1) : i \in 1..pc }
          \cup { 32 + a : a \in { x \in cells : x # Huge /\ x + 4 <= ds } }
          \cup { lt + 8 * (i - 1) : i \in 1..lc } \cup { lt + 8 * (i - 1) + 4 : i \in 1..lc }
          \* first data words (arc header padding / aset / asset header words)
          \cup ({32, 36, 40} \cap (0..(32 + ds - 4)))
PackFields(f) ==
  IF Len(f) < 8 THEN {}
  ELSE LET count == Rd16(f, 4, "be") IN
       {0, 4} \cup UNION { { 8 + 16 * (i - 1) + 4, 8 + 16 * (i - 1) + 8, 8 + 16 * (i - 1) + 12 } : i \in 1..(IF 8 + 16 * count <= Len(f) THEN count ELSE 0) }

\* an arc image additionally has its Count word and the index / size / offset words of every record
ArcFields(f) ==
  LET r == RefParse(f, "le") IN
  IF ~r.ok \/ Cardinality(LabelAddrs(r.c, NameCount)) # 1 \/ Cardinality(LabelAddrs(r.c, NameInfo)) # 1 THEN {}
  ELSE LET ac == CHOOSE a \in LabelAddrs(r.c, NameCount) : TRUE
           ai == CHOOSE a \in LabelAddrs(r.c, NameInfo) : TRUE
           ds == Len(r.c.data)
           count == IF ac + 4 <= ds THEN Rd32(r.c.data, ac, "le") ELSE 0
           n == IF count = Huge \/ count > 8 THEN 8 ELSE count
       IN { 32 + ac } \cup UNION { { 32 + ai + 16 * (i - 1) + k : k \in {4, 8, 12} } : i \in 1..n }

\* consistent cuts of the data region of a bin-family image: the last k bytes of the data region are removed and
\* the header totals adjusted, so the header check passes and the readers layered on the archive (text walk, aset,
\* asset, arc records) meet data that ends in the middle of a string, a code unit or a record
DataCut(f, e, k) ==
  LET ds == Rd32(f, 4, e) IN
  U32(Len(f) - k, e) \o U32(ds - k, e) \o SubSeq(f, 9, 32) \o SubSeq(f, 33, 32 + ds - k) \o SubSeq(f, 33 + ds, Len(f))
DataCuts(f, e) ==
  IF ~HeaderOK(f, e) THEN {}
  ELSE LET ds == Rd32(f, 4, e)
           \* every cut length of a small data region (each record and field of it ends the data once), the last 14 bytes of a large one
           most == IF ds <= 400 THEN ds ELSE 14
       IN { DataCut(f, e, k) : k \in 1..most }

\* family: "bin_le" | "bin_be" | "pack" | "arc"
EndianOf(family) == IF family = "bin_be" \/ family = "pack" THEN "be" ELSE "le"
\* offsets of the 32-bit fields of a base image
FieldsOf(f, family) ==
  LET e == EndianOf(family)
      fields == IF family = "pack" THEN PackFields(f)
                ELSE IF family = "arc" THEN BinFields(f, e) \cup ArcFields(f) ELSE BinFields(f, e)
  IN { x \in fields : x + 4 <= Len(f) }
\* single-field boundary mutations at the given offsets
MutationsAt(f, family, offs) == UNION { FieldPatches(f, off, EndianOf(family)) : off \in offs }
Mutations(f, family) == MutationsAt(f, family, FieldsOf(f, family))
=============================================================================
