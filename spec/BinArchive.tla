----------------------------- MODULE BinArchive -----------------------------
(* The in-memory bin archive as an abstract state machine (properties C03, C04)
   together with its stream cursors (BinArchiveReader / BinArchiveWriter).

   State = archive content record (see BinFormat.tla):
     [endian, data, text, ptrs, labels, cstr]   maps are sequences of pairs sorted by address.

   Every public operation is a function from (state, event) to the SET of allowed
   outcomes  [res |-> [ok, some, v], pos |-> cursor after the call (0 for positional
   calls, AnyPos = -1 where the statement leaves the cursor open), st |-> state after].
   Err outcomes always leave the state unchanged.  Where the property statements are
   silent, several outcomes are allowed.

   Addresses and lengths are mathematical integers.  MAXU (2^29 - 1) stands for
   usize::MAX: the harness maps v >= 2^28 to usize::MAX - (MAXU - v).  Only order and
   non-wrapping sums matter to the properties.  *)
EXTENDS Bytes, TLC

MAXU == 536870911      \* 2^29 - 1: congruent to 3 modulo 4, like usize::MAX
AnyPos == -1

Size(st) == Len(st.data)

\* ------------------------------------------------------------------ results
\* (for the raw / typed accessors of C04 ResErr is THE out-of-bounds error: the harness reports an error of another kind
\*  with v = <<-2>>, which no outcome allows; for every other call it is "an error")
ResErr == [ok |-> FALSE, some |-> FALSE, v |-> <<>>]
ResUnit == [ok |-> TRUE, some |-> FALSE, v |-> <<>>]
ResNone == [ok |-> TRUE, some |-> FALSE, v |-> <<>>]
ResVal(v) == [ok |-> TRUE, some |-> TRUE, v |-> v]

Out(res, pos, st) == [res |-> res, pos |-> pos, st |-> st]
ErrOut(st) == Out(ResErr, 0, st)

\* ------------------------------------------------------------------ map helpers (sequences of <<key, value>> sorted by key)
HasKey(m, k) == \E i \in 1..Len(m) : m[i][1] = k
Get(m, k) == m[CHOOSE i \in 1..Len(m) : m[i][1] = k][2]
Del(m, k) == SelectSeq(m, LAMBDA p : p[1] # k)
Put(m, k, v) ==
  LET lo == SelectSeq(m, LAMBDA p : p[1] < k)
      hi == SelectSeq(m, LAMBDA p : p[1] > k)
  IN lo \o << <<k, v>> >> \o hi
MapKeys(m, F(_)) == [i \in 1..Len(m) |-> <<F(m[i][1]), m[i][2]>>]
MapVals(m, F(_)) == [i \in 1..Len(m) |-> <<m[i][1], F(m[i][2])>>]
KeepKeys(m, P(_)) == SelectSeq(m, LAMBDA p : P(p[1]))

\* the cell [a, a+4) lies inside the data region
InCell(st, a) == a >= 0 /\ a + 4 <= Size(st)
\* a cell holds at most one of pointer / string / c-string (domain of the properties)
CellFree(st, a) == ~HasKey(st.text, a) /\ ~HasKey(st.ptrs, a) /\ ~HasKey(st.cstr, a)

\* ------------------------------------------------------------------ C03: allocate / deallocate / truncate
Aligned(x) == x % 4 = 0

\* insert n zero bytes at a.  Strings, pointer cells and pending c-strings located at or after a move by n;
\* labels and pointer targets located after a (at a too, when ge) move by n.
AllocState(st, a, n, ge) ==
  LET sh(k)  == IF k >= a THEN k + n ELSE k
      shl(k) == IF k > a \/ (ge /\ k = a) THEN k + n ELSE k
  IN [st EXCEPT !.data   = SubSeq(st.data, 1, a) \o Zeros(n) \o SubSeq(st.data, a + 1, Len(st.data)),
                !.text   = MapKeys(st.text, sh),
                !.cstr   = MapKeys(st.cstr, sh),
                !.ptrs   = MapVals(MapKeys(st.ptrs, sh), shl),
                !.labels = MapKeys(st.labels, shl)]

AllocateOutcomes(st, a, n, ge) ==
  IF a > Size(st) \/ ~Aligned(a) \/ ~Aligned(n) THEN { ErrOut(st) }
  ELSE { Out(ResUnit, 0, AllocState(st, a, n, ge)) }

\* appending at the end is always accepted
AllocateAtEndOutcomes(st, n) ==
  { Out(ResUnit, 0, [st EXCEPT !.data = st.data \o Zeros(n)]) }

\* remove [a, a+n): bytes, strings / labels / c-strings keyed inside, pointers whose source or target is
\* inside are deleted; everything located at or after a+n moves back by n.
DeallocState(st, a, n) ==
  LET inside(k) == k >= a /\ k < a + n
      back(k)   == IF k >= a + n THEN k - n ELSE k
      keep(m)   == KeepKeys(m, LAMBDA k : ~inside(k))
  IN [st EXCEPT !.data   = SubSeq(st.data, 1, a) \o SubSeq(st.data, a + n + 1, Len(st.data)),
                !.text   = MapKeys(keep(st.text), back),
                !.cstr   = MapKeys(keep(st.cstr), back),
                !.labels = MapKeys(keep(st.labels), back),
                !.ptrs   = MapVals(MapKeys(SelectSeq(st.ptrs, LAMBDA p : ~inside(p[1]) /\ ~inside(p[2])), back), back)]

DeallocateOutcomes(st, a, n, ge) ==
  IF a > Size(st) \/ a + n > Size(st) \/ ~Aligned(a) \/ ~Aligned(n) THEN { ErrOut(st) }
  ELSE IF a = Size(st)      \* empty range at the end address: the statement is silent (accepted or rejected), nothing changes
       THEN { ErrOut(st), Out(ResUnit, 0, st) }
  ELSE { Out(ResUnit, 0, DeallocState(st, a, n)) }

\* truncate at a cell boundary: every byte and every annotation at or beyond the cut goes
\* (pointers that merely point beyond the cut stay).
TruncState(st, a) ==
  LET below(k) == k < a
  IN [st EXCEPT !.data   = SubSeq(st.data, 1, IF a < Len(st.data) THEN a ELSE Len(st.data)),
                !.text   = KeepKeys(st.text, below),
                !.cstr   = KeepKeys(st.cstr, below),
                !.labels = KeepKeys(st.labels, below),
                !.ptrs   = KeepKeys(st.ptrs, below)]
TruncateOutcomes(st, a) ==
  IF a < Size(st) THEN { Out(ResUnit, 0, TruncState(st, a)) }
  \* at or beyond the end nothing can be cut; whether a label sitting exactly there counts as
  \* "at the cut" is not said: both readings allowed
  ELSE { Out(ResUnit, 0, st), Out(ResUnit, 0, TruncState(st, a)) }

\* ------------------------------------------------------------------ C04: raw cell access
\* a (non-empty) range is accessible iff it lies inside the data region -- in mathematical integers
RangeOK(st, a, n) == n > 0 /\ a >= 0 /\ a + n <= Size(st)

ReadBytesOutcomes(st, a, n) ==
  IF n = 0 THEN { ErrOut(st), Out(ResVal(<<>>), 0, st) }          \* empty range: result open, state unchanged
  ELSE IF RangeOK(st, a, n) THEN { Out(ResVal(SubSeq(st.data, a + 1, a + n)), 0, st) }
  ELSE { ErrOut(st) }

WriteBytesOutcomes(st, a, bs) ==
  IF Len(bs) = 0 THEN { ErrOut(st), Out(ResUnit, 0, st) }
  ELSE IF RangeOK(st, a, Len(bs)) THEN { Out(ResUnit, 0, [st EXCEPT !.data = Patch(st.data, a, bs)]) }
  ELSE { ErrOut(st) }

\* typed values travel as digit sequences, most significant byte first; width = Len(digits) \in {1,2,4}
Layout(st, digits) == IF st.endian = "be" THEN digits ELSE Reverse(digits)
WriteValOutcomes(st, a, digits) ==
  IF RangeOK(st, a, Len(digits))
  THEN { Out(ResUnit, 0, [st EXCEPT !.data = Patch(st.data, a, Layout(st, digits))]) }
  ELSE { ErrOut(st) }
ReadValOutcomes(st, a, w) ==
  IF RangeOK(st, a, w)
  THEN { Out(ResVal(LET b == SubSeq(st.data, a + 1, a + w) IN IF st.endian = "be" THEN b ELSE Reverse(b)), 0, st) }
  ELSE { ErrOut(st) }

\* the Endian codec itself (Endian::encode_* / decode_*), used by every typed accessor: stateless
EndianEncodeOutcomes(st, digits) == { Out(ResVal(Layout(st, digits)), 0, st) }
EndianDecodeOutcomes(st, bytes, w) ==
  IF Len(bytes) = w THEN { Out(ResVal(IF st.endian = "be" THEN bytes ELSE Reverse(bytes)), 0, st) }
  ELSE { ErrOut(st) }                                  \* a slice of the wrong length is a conversion error

\* ------------------------------------------------------------------ annotation accessors (never touch data)
\* In-range cell: the call succeeds with the stated effect.  Outside: the statements do not say whether the
\* call is refused or performed; both allowed (the raw bytes are unchanged either way).
OpenOutside(st, inRange, okOut) == IF inRange THEN { okOut } ELSE { ErrOut(st), okOut }

ReadStringOutcomes(st, a) ==
  OpenOutside(st, InCell(st, a),
              Out(IF HasKey(st.text, a) THEN ResVal(Get(st.text, a)) ELSE ResNone, 0, st))
ReadPointerOutcomes(st, a) ==
  OpenOutside(st, InCell(st, a),
              Out(IF HasKey(st.ptrs, a) THEN ResVal(<<Get(st.ptrs, a)>>) ELSE ResNone, 0, st))
\* (an address whose last label was removed one by one may be reported as "no labels" or as an empty list)
ReadLabelsOutcomes(st, a) ==
  IF HasKey(st.labels, a) THEN OpenOutside(st, InCell(st, a), Out(ResVal(Get(st.labels, a)), 0, st))
  ELSE { Out(ResNone, 0, st), Out(ResVal(<<>>), 0, st) } \cup (IF InCell(st, a) THEN {} ELSE { ErrOut(st) })

WriteStringOutcomes(st, a, s) ==
  OpenOutside(st, InCell(st, a), Out(ResUnit, 0, [st EXCEPT !.text = Put(st.text, a, s)]))
DeleteStringOutcomes(st, a) ==
  OpenOutside(st, InCell(st, a), Out(ResUnit, 0, [st EXCEPT !.text = Del(st.text, a)]))
WritePointerOutcomes(st, a, t) ==
  OpenOutside(st, InCell(st, a), Out(ResUnit, 0, [st EXCEPT !.ptrs = Put(st.ptrs, a, t)]))
DeletePointerOutcomes(st, a) ==
  OpenOutside(st, InCell(st, a), Out(ResUnit, 0, [st EXCEPT !.ptrs = Del(st.ptrs, a)]))
WriteCStringOutcomes(st, a, s) ==
  OpenOutside(st, InCell(st, a), Out(ResUnit, 0, [st EXCEPT !.cstr = Put(st.cstr, a, s)]))
\* labels may sit on any address up to and including the end address
WriteLabelOutcomes(st, a, name) ==
  OpenOutside(st, a >= 0 /\ a <= Size(st),
              Out(ResUnit, 0, [st EXCEPT !.labels =
                    Put(st.labels, a, IF HasKey(st.labels, a) THEN Append(Get(st.labels, a), name) ELSE <<name>>)]))
WriteLabelsOutcomes(st, a, names) ==
  OpenOutside(st, a >= 0 /\ a <= Size(st),
              Out(ResUnit, 0, [st EXCEPT !.labels = Put(st.labels, a, names)]))
DeleteLabelsOutcomes(st, a) ==
  OpenOutside(st, InCell(st, a), Out(ResUnit, 0, [st EXCEPT !.labels = Del(st.labels, a)]))

\* read_c_string(a): follow the pointer stored on cell a and return the NUL-terminated string it points at
\* (after a parse this is how a c-string of the pool is read).  No pointer: none.  A target outside the data or an
\* unterminated string is an error.  The text is compared only when it is plain ASCII (the Shift-JIS decoder is lossy
\* on arbitrary bytes); otherwise any successful result is accepted.
ReadCStringOutcomes(st, a) ==
  IF ~InCell(st, a) THEN { ErrOut(st), Out(ResNone, 0, st) }
  ELSE IF ~HasKey(st.ptrs, a) THEN { Out(ResNone, 0, st) }
  ELSE LET t == Get(st.ptrs, a) IN
       IF t >= 0 /\ t < Size(st) /\ Terminated(st.data, t)
       THEN LET str == CStrAt(st.data, t) IN
            IF IsAscii(str) THEN { Out(ResVal(str), 0, st) } ELSE { Out(ResVal(<<-1>>), 0, st) }
       ELSE { ErrOut(st) }

\* ------------------------------------------------------------------ further observers and label editing
\* (beyond the listed properties: conformance of these is reported as information, see DESIGN.md section 9)
RemoveIdx(s, i) == SubSeq(s, 1, i - 1) \o SubSeq(s, i + 1, Len(s))
\* delete_label(a, idx): idx is 0-based; removing the last name removes the bucket from the observable state
DeleteLabelOutcomes(st, a, idx) ==
  IF ~InCell(st, a) THEN { ErrOut(st), Out(ResUnit, 0, st) }
  ELSE IF ~HasKey(st.labels, a) THEN { Out(ResUnit, 0, st) }
  ELSE LET b == Get(st.labels, a) IN
       IF idx < Len(b)
       THEN { Out(ResUnit, 0, [st EXCEPT !.labels = IF Len(b) = 1 THEN Del(st.labels, a) ELSE Put(st.labels, a, RemoveIdx(b, idx + 1))]) }
       ELSE { ErrOut(st) }
\* reader.read_label(idx): the idx-th label at the cursor, cursor unchanged
ReadLabelAtOutcomes(st, a, idx) ==
  LET r == IF HasKey(st.labels, a) /\ idx < Len(Get(st.labels, a)) THEN ResVal(Get(st.labels, a)[idx + 1]) ELSE ResNone
  IN OpenOutside(st, InCell(st, a), Out(r, 0, st))
\* get_labels(): every (address, name) ordered by address, then by name
AllEntries(st) == FlattenSeq([i \in 1..Len(st.labels) |-> [j \in 1..Len(st.labels[i][2]) |-> <<st.labels[i][1], st.labels[i][2][j]>>]])
GetLabelsOutcomes(st) ==
  { Out(ResVal(SortSeq(AllEntries(st), LAMBDA x, y : x[1] < y[1] \/ (x[1] = y[1] /\ LexLess(x[2], y[2])))), 0, st) }
\* find_label_address(name): any address carrying that name
FindLabelOutcomes(st, name) ==
  LET as == { e[1] : e \in { AllEntries(st)[i] : i \in 1..Len(AllEntries(st)) } \cap { e \in { AllEntries(st)[i] : i \in 1..Len(AllEntries(st)) } : e[2] = name } }
  IN IF as = {} THEN { Out(ResNone, 0, st) } ELSE { Out(ResVal(<<a>>), 0, st) : a \in as }
\* pointer_destinations(): the set of pointer targets
PointerDestinationsOutcomes(st) ==
  { Out(ResVal(SortSeq(SetToSeq({ st.ptrs[i][2] : i \in 1..Len(st.ptrs) }), LAMBDA x, y : x < y)), 0, st) }

\* assert_equal_regions(self, other = self, source_start, other_start, length): cell by cell (step 4) the two
\* regions must hold the same string, a pointer on both or on neither, the same labels and - where the source cell
\* holds neither string nor pointer - the same raw word.  Any cell outside the archive makes the call fail.
\* (two archives may differ in endianness: raw words are compared as the numbers they encode)
WordVal(s, x) == LET b == SubSeq(s.data, x + 1, x + 4) IN IF s.endian = "be" THEN b ELSE Reverse(b)
CellsEqual2(s1, s2, x, y) ==
  /\ HasKey(s1.text, x) = HasKey(s2.text, y) /\ (HasKey(s1.text, x) => Get(s1.text, x) = Get(s2.text, y))
  /\ HasKey(s1.ptrs, x) = HasKey(s2.ptrs, y)
  /\ HasKey(s1.labels, x) = HasKey(s2.labels, y) /\ (HasKey(s1.labels, x) => Get(s1.labels, x) = Get(s2.labels, y))
  /\ (~HasKey(s1.text, x) /\ ~HasKey(s1.ptrs, x)) => WordVal(s1, x) = WordVal(s2, y)
CellsEqual(st, x, y) == CellsEqual2(st, st, x, y)
\* the same call with another archive as `other` (s1 = self, s2 = other); neither archive changes
EqualRegions2Outcomes(s1, s2, a, b, len) ==
  LET offs == { k \in 0..(len - 1) : k % 4 = 0 }
  IN IF \A k \in offs : InCell(s1, a + k) /\ InCell(s2, b + k) /\ CellsEqual2(s1, s2, a + k, b + k)
     THEN { Out(ResUnit, 0, s1) } ELSE { ErrOut(s1) }
EqualRegionsOutcomes(st, a, b, len) ==
  LET offs == { k \in 0..(len - 1) : k % 4 = 0 }
  IN IF \A k \in offs : InCell(st, a + k) /\ InCell(st, b + k) /\ CellsEqual(st, a + k, b + k)
     THEN { Out(ResUnit, 0, st) } ELSE { ErrOut(st) }

\* cursor string readers (trait EncodedStringReader on BinArchiveReader, used by the text archive walk): the bytes
\* from the cursor up to the terminator (a NUL; for UTF-16 a 00 00 pair, pairs counted from the cursor), decoded; the
\* cursor then moves past the terminator and on to the next multiple of 4.  No terminator before the end of the data:
\* error.  Shift-JIS text is compared when it is plain ASCII (the decoder is lossy otherwise); UTF-16 text must be
\* well-formed (else a decoding error) and is compared unit by unit.
ReadSjisAtOutcomes(st, a) ==
  IF Terminated(st.data, a)
  THEN LET s == CStrAt(st.data, a)
       IN { Out(IF IsAscii(s) THEN ResVal(s) ELSE ResVal(<<-1>>), AlignUp(a + Len(s) + 1, 4), st) }
  ELSE { Out(ResErr, AnyPos, st) }
ReadUtf16AtOutcomes(st, a) ==
  LET stop == IF a >= 0 /\ a < Size(st) THEN Utf16End(st.data, a + 1) ELSE 0 IN
  IF stop = 0 THEN { Out(ResErr, AnyPos, st) }
  ELSE LET u == UnitsOf(SubSeq(st.data, a + 1, stop - 1))
       IN IF WellFormedUtf16(u) THEN { Out(ResVal(u), AlignUp(stop + 1, 4), st) } ELSE { Out(ResErr, AnyPos, st) }

\* ------------------------------------------------------------------ stream cursors (BinStreams)
\* A stream call is the positional call at the cursor.  On success the cursor advances by the width of a
\* value access (label accesses: 0); after a failure the cursor is not constrained, the archive unchanged.
AtCursor(outs, p, w) ==
  { IF o.res.ok THEN [o EXCEPT !.pos = p + w] ELSE [o EXCEPT !.pos = AnyPos] : o \in outs }

\* ------------------------------------------------------------------ dispatcher
\* ev = [op, a, n, ge, bs, t]:  a address or cursor, n length / width, ge inclusive flag, bs bytes / digits /
\* string / names, t pointer target.  Stream operations are prefixed s_ (a = cursor).
Outcomes(st, ev) ==
  CASE ev.op = "allocate"        -> AllocateOutcomes(st, ev.a, ev.n, ev.ge)
    [] ev.op = "allocate_at_end" -> AllocateAtEndOutcomes(st, ev.n)
    [] ev.op = "deallocate"      -> DeallocateOutcomes(st, ev.a, ev.n, ev.ge)
    [] ev.op = "truncate"        -> TruncateOutcomes(st, ev.a)
    [] ev.op = "read_bytes"      -> ReadBytesOutcomes(st, ev.a, ev.n)
    [] ev.op = "write_bytes"     -> WriteBytesOutcomes(st, ev.a, ev.bs)
    [] ev.op = "read_val"        -> ReadValOutcomes(st, ev.a, ev.n)
    [] ev.op = "write_val"       -> WriteValOutcomes(st, ev.a, ev.bs)
    [] ev.op = "read_string"     -> ReadStringOutcomes(st, ev.a)
    [] ev.op = "read_pointer"    -> ReadPointerOutcomes(st, ev.a)
    [] ev.op = "read_labels"     -> ReadLabelsOutcomes(st, ev.a)
    [] ev.op = "write_string"    -> WriteStringOutcomes(st, ev.a, ev.bs)
    [] ev.op = "delete_string"   -> DeleteStringOutcomes(st, ev.a)
    [] ev.op = "write_pointer"   -> WritePointerOutcomes(st, ev.a, ev.t)
    [] ev.op = "delete_pointer"  -> DeletePointerOutcomes(st, ev.a)
    [] ev.op = "write_c_string"  -> WriteCStringOutcomes(st, ev.a, ev.bs)
    [] ev.op = "write_label"     -> WriteLabelOutcomes(st, ev.a, ev.bs)
    [] ev.op = "write_labels"    -> WriteLabelsOutcomes(st, ev.a, ev.bs)
    [] ev.op = "delete_labels"   -> DeleteLabelsOutcomes(st, ev.a)
    [] ev.op = "read_c_string"   -> ReadCStringOutcomes(st, ev.a)
    [] ev.op = "s_read_c_string" -> AtCursor(ReadCStringOutcomes(st, ev.a), ev.a, 4)
    [] ev.op = "delete_label"    -> DeleteLabelOutcomes(st, ev.a, ev.n)
    [] ev.op = "get_labels"      -> GetLabelsOutcomes(st)
    [] ev.op = "find_label"      -> FindLabelOutcomes(st, ev.bs)
    [] ev.op = "pointer_destinations" -> PointerDestinationsOutcomes(st)
    [] ev.op = "equal_regions"   -> EqualRegionsOutcomes(st, ev.a, ev.t, ev.n)
    [] ev.op = "endian_encode"   -> EndianEncodeOutcomes(st, ev.bs)
    [] ev.op = "endian_decode"   -> EndianDecodeOutcomes(st, ev.bs, ev.n)
    [] ev.op = "s_read_sjis"     -> ReadSjisAtOutcomes(st, ev.a)
    [] ev.op = "s_read_utf16"    -> ReadUtf16AtOutcomes(st, ev.a)
    [] ev.op = "s_read_label"    -> { [o EXCEPT !.pos = IF o.res.ok THEN ev.a ELSE AnyPos] : o \in ReadLabelAtOutcomes(st, ev.a, ev.n) }
    \* writer-side allocate: appends when the cursor is at the end, inserts otherwise; the cursor stays
    [] ev.op = "s_allocate"      -> { [o EXCEPT !.pos = IF o.res.ok THEN ev.a ELSE AnyPos] :
                                       o \in IF ev.a = Size(st) THEN AllocateAtEndOutcomes(st, ev.n)
                                             ELSE AllocateOutcomes(st, ev.a, ev.n, ev.ge) }
    [] ev.op = "s_read_val"      -> AtCursor(ReadValOutcomes(st, ev.a, ev.n), ev.a, ev.n)
    [] ev.op = "s_write_val"     -> AtCursor(WriteValOutcomes(st, ev.a, ev.bs), ev.a, Len(ev.bs))
    [] ev.op = "s_read_bytes"    -> AtCursor(ReadBytesOutcomes(st, ev.a, ev.n), ev.a, ev.n)
    [] ev.op = "s_write_bytes"   -> AtCursor(WriteBytesOutcomes(st, ev.a, ev.bs), ev.a, Len(ev.bs))
    [] ev.op = "s_read_string"   -> AtCursor(ReadStringOutcomes(st, ev.a), ev.a, 4)
    [] ev.op = "s_read_pointer"  -> AtCursor(ReadPointerOutcomes(st, ev.a), ev.a, 4)
    [] ev.op = "s_read_labels"   -> AtCursor(ReadLabelsOutcomes(st, ev.a), ev.a, 0)
    [] ev.op = "s_write_string"  -> AtCursor(WriteStringOutcomes(st, ev.a, ev.bs), ev.a, 4)
    [] ev.op = "s_delete_string" -> AtCursor(DeleteStringOutcomes(st, ev.a), ev.a, 4)
    [] ev.op = "s_write_pointer" -> AtCursor(WritePointerOutcomes(st, ev.a, ev.t), ev.a, 4)
    [] ev.op = "s_delete_pointer" -> AtCursor(DeletePointerOutcomes(st, ev.a), ev.a, 4)
    [] ev.op = "s_write_c_string" -> AtCursor(WriteCStringOutcomes(st, ev.a, ev.bs), ev.a, 4)
    [] ev.op = "s_write_label"   -> AtCursor(WriteLabelOutcomes(st, ev.a, ev.bs), ev.a, 0)

\* an observed outcome matches an allowed one (AnyPos cursor matches every cursor)
Matches(o, got) == o.res = got.res /\ o.st = got.st /\ (o.pos = AnyPos \/ o.pos = got.pos)
Allowed(st, ev, got) == \E o \in Outcomes(st, ev) : Matches(o, got)

\* ------------------------------------------------------------------ sessions: one reader / writer used for several calls
\* A reader or writer object has no state besides its cursor (C04: "behave exactly like the positional calls at their
\* cursor"; C03: the writer-side allocate appends exactly when the cursor is at the CURRENT end).  A session is
\* therefore the sequential composition of stream calls, each made at the cursor the previous step left; seek / skip
\* move the cursor and do nothing else; the writer's allocate_at_end and size observers ignore the cursor.
\* step = [op, a, n, ge, bs, t, ty] (a is used by seek only).
StepOutcomes(s, cur, step) ==
  CASE step.op = "seek"              -> { Out(ResUnit, step.a, s) }
    [] step.op = "skip"              -> { Out(ResUnit, cur + step.n, s) }
    [] step.op = "w_allocate_at_end" -> { [o EXCEPT !.pos = cur] : o \in AllocateAtEndOutcomes(s, step.n) }
    [] step.op = "w_size"            -> { Out(ResVal(<<Size(s), Size(s)>>), cur, s) }
    [] OTHER                         -> Outcomes(s, [step EXCEPT !.a = cur])

\* impl -> spec: obs[k] = [res, pos] observed after step k.  The cursor a step starts from is the one observed after
\* the previous step (after a failed call the cursor is open, so the observation is what counts).  The set of archive
\* states the specification allows after the first k steps, given everything observed so far:
RECURSIVE SessionAfter(_, _, _, _, _)
SessionAfter(s0, start, steps, obs, k) ==
  IF k = 0 THEN { s0 }
  ELSE LET cur == IF k = 1 THEN start ELSE obs[k - 1].pos
           outs == UNION { StepOutcomes(s, cur, steps[k]) : s \in SessionAfter(s0, start, steps, obs, k - 1) }
       IN { o.st : o \in { x \in outs : x.res = obs[k].res /\ (x.pos = AnyPos \/ x.pos = obs[k].pos) } }
SessionAllowed(s0, start, steps, obs, post) ==
  Len(obs) = Len(steps) /\ post \in SessionAfter(s0, start, steps, obs, Len(steps))

\* spec -> impl: every run [obs, st, cur] of a session (used for sessions in which only the last step may fail, so that
\* every cursor is determined)
RECURSIVE SessionRuns(_, _, _, _)
SessionRuns(s0, start, steps, k) ==
  IF k = 0 THEN { [obs |-> <<>>, st |-> s0, cur |-> start] }
  ELSE UNION { { [obs |-> Append(r.obs, [res |-> o.res, pos |-> o.pos]), st |-> o.st, cur |-> o.pos] :
                   o \in StepOutcomes(r.st, r.cur, steps[k]) } : r \in SessionRuns(s0, start, steps, k - 1) }
CursorsDetermined(s0, start, steps) ==
  \A k \in 1..(Len(steps) - 1) : \A r \in SessionRuns(s0, start, steps, k) : r.cur # AnyPos
SessionOutcomes(s0, start, steps) ==
  { Out([steps |-> r.obs], r.cur, r.st) : r \in SessionRuns(s0, start, steps, Len(steps)) }

\* ------------------------------------------------------------------ properties of the reference semantics
\* every annotation sits inside the archive
WellAnnotated(st) ==
  /\ \A i \in 1..Len(st.text) : InCell(st, st.text[i][1])
  /\ \A i \in 1..Len(st.ptrs) : InCell(st, st.ptrs[i][1])
  /\ \A i \in 1..Len(st.cstr) : InCell(st, st.cstr[i][1])
  /\ \A i \in 1..Len(st.labels) : st.labels[i][1] >= 0 /\ st.labels[i][1] <= Size(st)
Sorted(m) == \A i \in 1..(Len(m) - 1) : m[i][1] < m[i + 1][1]
WellSorted(st) == Sorted(st.text) /\ Sorted(st.ptrs) /\ Sorted(st.cstr) /\ Sorted(st.labels)

\* insertion loses and invents nothing: the payloads of all annotations are unchanged
Seconds2(m) == [i \in 1..Len(m) |-> m[i][2]]
AllocConserves(st, a, n, ge) ==
  \A o \in AllocateOutcomes(st, a, n, ge) : o.res.ok =>
     /\ Size(o.st) = Size(st) + n
     /\ Seconds2(o.st.text) = Seconds2(st.text) /\ Seconds2(o.st.cstr) = Seconds2(st.cstr)
     /\ Seconds2(o.st.labels) = Seconds2(st.labels) /\ Len(o.st.ptrs) = Len(st.ptrs)
     /\ \A i \in 1..n : o.st.data[a + i] = 0
\* removal of the bytes just inserted (inclusive shift) is the identity
AllocDeallocInverse(st, a, n) ==
  \A o \in AllocateOutcomes(st, a, n, TRUE) : (o.res.ok /\ n > 0) =>
     \A d \in DeallocateOutcomes(o.st, a, n, TRUE) : d.res.ok /\ d.st = st
ErrUnchanged(st, ev) == \A o \in Outcomes(st, ev) : (~o.res.ok) => o.st = st
\* a successful write changes only the addressed bytes and is returned unchanged by the matching read
WriteLocalReadBack(st, a, digits) ==
  \A o \in WriteValOutcomes(st, a, digits) : o.res.ok =>
     /\ \A i \in 1..Size(st) : (i <= a \/ i > a + Len(digits)) => o.st.data[i] = st.data[i]
     /\ o.st.text = st.text /\ o.st.ptrs = st.ptrs /\ o.st.labels = st.labels /\ o.st.cstr = st.cstr
     /\ \A r \in ReadValOutcomes(o.st, a, Len(digits)) : r.res = ResVal(digits)
=============================================================================
