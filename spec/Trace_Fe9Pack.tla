--------------------------- MODULE Trace_Fe9Pack ---------------------------
(* Impl -> spec for C15.  Every event is one image built by mila from an ordered map (a generated value of
   MC_Fe9Pack or a seeded random map):
     [mode, src, value, ser, bytes, parsed]
   value  = the map as sequence of <<name bytes, body bytes>>,
   bytes  = fe9_arc::serialize(value)   (ser = "ok", anything else = error / panic text),
   parsed = projection of fe9_arc::parse(bytes): [ok, v].
   TLC is the independent reader of the statement, and these are ALL the conditions an image built by the
   code has to meet: well formed (every recorded name terminated inside the file, every body inside the file
   and starting on a 32-byte boundary), count / names / offsets / sizes exact, the reference parse of the
   image is the value in order, and mila's own parse is the value.  Where the names sit, how they are padded
   and whether the file ends on a 32-byte boundary are deliberately not constrained (CanonPack is one such
   image, not the only one).
   mode "sampled" (available for very large cases) checks the structure of every entry but
   compares names/bodies only for a sample of entries; the 65 535-file case is cheap enough
   (about 15 s) to be validated in full. *)
EXTENDS Fe9Pack, TLC, Json, IOUtils

Rec == ndJsonDeserialize(IOEnv.TRACE)

VARIABLES i, bad
vars == <<i, bad>>

SampleIdx(n) == { k \in 1..n : k <= 40 \/ k > n - 40 \/ k % 997 \in {0, 4} \/ k % 1000 \in {7, 8} \/ k \in 65530..65540 }

Check(ev, what) ==
  CASE what = "well-formed" -> WellFormedPack(ev.bytes)
    [] what = "ref-reader"  -> IF ev.mode = "full" THEN RefParsePack(ev.bytes) = [ok |-> TRUE, v |-> ev.value]
                               ELSE CountOf(ev.bytes) = Len(ev.value)
    [] what = "exact"       -> /\ WellFormedPack(ev.bytes) /\ CountOf(ev.bytes) = Len(ev.value)
                               /\ \A k \in (IF ev.mode = "full" THEN 1..Len(ev.value) ELSE SampleIdx(Len(ev.value))) :
                                     ParsedEntry(ev.bytes, k) = ev.value[k] /\ EntrySizeOf(ev.bytes, k) = Len(BodyOf(ev.value[k]))
    [] what = "parsed"      -> IF ev.mode = "full" THEN ev.parsed = [ok |-> TRUE, v |-> ev.value]
                               ELSE /\ DOMAIN ev.parsed = {"ok", "v"} /\ ev.parsed.ok /\ Len(ev.parsed.v) = Len(ev.value)
                                    /\ \A k \in SampleIdx(Len(ev.value)) : ev.parsed.v[k] = ev.value[k]
\* the conjuncts an event failed (<<>> = accepted)
\* mode "beyond": more files than the statement covers (65 536): nothing is demanded, the outcome is only reported
Failed(ev) ==
  IF ev.mode = "beyond" THEN <<>>
  ELSE IF ev.mode = "bytes" THEN BigBodiesFailed(ev)    \* rule-built packs with > 2^24 bytes of bodies (see Fe9Pack.tla)
  ELSE IF ev.ser # "ok" THEN <<"serialize">>
  ELSE SelectSeq(<<"well-formed", "ref-reader", "exact", "parsed">>, LAMBDA w : ~Check(ev, w))

Init == i = 1 /\ bad = <<>>
Next == /\ i <= Len(Rec)
        /\ i' = i + 1
        /\ bad' = IF Failed(Rec[i]) = <<>> THEN bad ELSE Append(bad, [i |-> i, why |-> Failed(Rec[i])])
Spec == Init /\ [][Next]_vars

Report == (i = Len(Rec) + 1) => PrintT("R " \o ToJson([n |-> Len(Rec), bad |-> bad]))
=============================================================================
