SPECIFICATION Spec
INVARIANT Emit
INVARIANT EmitSessions
CHECK_DEADLOCK FALSE
