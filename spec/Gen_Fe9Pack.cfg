SPECIFICATION GenSpec
INVARIANT Emit
CHECK_DEADLOCK FALSE
