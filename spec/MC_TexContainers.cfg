SPECIFICATION Spec
INVARIANT LawInv
CHECK_DEADLOCK FALSE
