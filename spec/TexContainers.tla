--------------------------- MODULE TexContainers ---------------------------
(* Texture containers CTPK / BCH / CGFX (3DS) and TPL (GameCube/Wii), property C20.

   Value: a sequence (0..6) of textures
       [name, w, h, fmt, payload, pal]
   name = sequence of Unicode code points (TPL stores no names), fmt = PICA200
   format number (Pixel.tla) or CI8 for a TPL palette image, payload = exactly
   the bytes the format requires, pal = RGB5A3 palette bytes (TPL only).

   For each container  XFile(v, p)  is the file that packs v under placement p.
   A placement fixes nothing but what a reader has to rely on (the documented
   header fields and pointer chains); positions and order of sections, names and
   payloads, gaps and filler bytes vary with p.   XLayouts(v, P) is the set of
   files over a set P of placements.  XRead(f) is the reference reader (follows
   the documented pointer chain) and XExtents(v, p) the [from, to) byte range of
   each texture's payload inside the file.

   Expected result of reading XFile(v, p): Len(v) textures in the order of v with
   the names of v (TPL: empty), w, h and pixel data px with Pixel!DecodeOK.
   Reading a strict prefix of length k:  k < MinOk(extents)  =>  an error;
   otherwise the outcome is open (Ok or Err); never a panic/abort.

   Field offsets are those of the formats as documented on 3dbrew (CTPK, BCH,
   CGFX) and wiki.tockdom / YAGCD (TPL); where the documentation is silent the
   de-facto layout walked by the readers in src/{ctpk,bch,cgfx,tpl}.rs is used.
   Offsets are 0-based, sequences 1-based.  *)
EXTENDS Pixel

\* ------------------------------------------------------------------ bytes
LE16(v) == <<v % 256, (v \div 256) % 256>>
LE32(v) == <<v % 256, (v \div 256) % 256, (v \div 65536) % 256, (v \div 16777216) % 256>>
BE16(v) == <<(v \div 256) % 256, v % 256>>
BE32(v) == <<(v \div 16777216) % 256, (v \div 65536) % 256, (v \div 256) % 256, v % 256>>
Fill(n, f) == [k \in 1..n |-> f]
\* the same sequence as an explicit tuple (TLC keeps [k \in 1..n |-> e] as an unevaluated
\* function and would re-evaluate e on every access)
Tup(s) == SubSeq(s, 1, Len(s))
\* concatenation of a sequence of sequences (by halves: no Tail, so a sequence given as a
\* function expression is indexed, never copied)
RECURSIVE ConcatRange(_, _, _)
ConcatRange(ss, lo, hi) ==
  IF lo > hi THEN <<>>
  ELSE IF lo = hi THEN ss[lo]
  ELSE LET mid == (lo + hi) \div 2 IN ConcatRange(ss, lo, mid) \o ConcatRange(ss, mid + 1, hi)
Concat(ss) == ConcatRange(ss, 1, Len(ss))
RECURSIVE SumTo(_, _)
SumTo(s, k) == IF k = 0 THEN 0 ELSE s[k] + SumTo(s, k - 1)
Rev(s) == [k \in 1..Len(s) |-> s[Len(s) + 1 - k]]
SeqMap(Op(_), s) == [k \in 1..Len(s) |-> Op(s[k])]
MaxOf(S) == CHOOSE m \in S : \A o \in S : o <= m
MinOf(S) == CHOOSE m \in S : \A o \in S : m <= o

Has(f, off, n) == off >= 0 /\ n >= 0 /\ off + n <= Len(f)
\* the same questions asked of the prefix of length L of f (no copy of the prefix is made)
HasN(L, off, n) == off >= 0 /\ n >= 0 /\ off + n <= L
RdLE16(f, off) == f[off + 1] + 256 * f[off + 2]
RdLE32(f, off) == f[off + 1] + 256 * f[off + 2] + 65536 * f[off + 3] + 16777216 * f[off + 4]
RdBE16(f, off) == 256 * f[off + 1] + f[off + 2]
RdBE32(f, off) == 16777216 * f[off + 1] + 65536 * f[off + 2] + 256 * f[off + 3] + f[off + 4]
Slice(f, off, n) == SubSeq(f, off + 1, off + n)
\* the NUL-terminated byte string at off (without the NUL)
HasCStr(f, off) == off >= 0 /\ \E k \in off..(Len(f) - 1) : f[k + 1] = 0
HasCStrN(f, L, off) == off >= 0 /\ \E k \in off..(L - 1) : f[k + 1] = 0
CStr(f, off) ==
  LET e == CHOOSE k \in off..(Len(f) - 1) : f[k + 1] = 0 /\ \A j \in off..(k - 1) : f[j + 1] # 0
  IN Slice(f, off, e - off)

\* ------------------------------------------------------------------ text
\* Code points used by the bounded models: ASCII and four hand-checked characters
\* U+FF71 (B1), U+3042 (82 A0), U+30BD (83 5C), U+8868 (95 5C: trail byte = backslash)
NameChars == (32..126) \cup {65393, 12354, 12477, 34920}
SjisOf(cp) == CASE cp < 128   -> <<cp>>
                [] cp = 65393 -> <<177>>
                [] cp = 12354 -> <<130, 160>>
                [] cp = 12477 -> <<131, 92>>
                [] cp = 34920 -> <<149, 92>>
Utf8Of(cp) == IF cp < 128 THEN <<cp>>
              ELSE IF cp < 2048 THEN <<192 + (cp \div 64), 128 + (cp % 64)>>
              ELSE <<224 + (cp \div 4096), 128 + ((cp \div 64) % 64), 128 + (cp % 64)>>
SjisName(name) == Concat([k \in 1..Len(name) |-> SjisOf(name[k])])
Utf8Name(name) == Concat([k \in 1..Len(name) |-> Utf8Of(name[k])])

\* ------------------------------------------------------------------ values
IsTex3DS(t) ==
  /\ t.fmt \in ContainerFormats
  /\ t.w \in TexSides /\ t.h \in TexSides
  /\ Len(t.payload) = PayloadSize(t.fmt, t.w, t.h)
  /\ \A k \in 1..Len(t.name) : t.name[k] \in NameChars
  /\ t.pal = <<>>
IsTexTpl(t) ==
  /\ t.fmt = CI8 /\ t.w \in 1..1024 /\ t.h \in 1..1024 /\ t.name = <<>>
  /\ Len(t.pal) \div 2 \in 1..256
  /\ CI8InDomain(t.w, t.h, t.payload, t.pal)

\* ------------------------------------------------------------------ placing items
\* Items are placed one after the other from `start`, `gap` filler bytes before each.
PlanPos(start, sizes, gap) == Tup([k \in 1..Len(sizes) |-> start + gap * k + SumTo(sizes, k - 1)])
PlanEnd(start, sizes, gap) == start + gap * Len(sizes) + SumTo(sizes, Len(sizes))
IdxOf(ids, id) == CHOOSE k \in 1..Len(ids) : ids[k] = id
\* rendering: filler, item, filler, item ...
Render(ids, gap, fill, B(_)) == Concat([k \in 1..Len(ids) |-> Fill(gap, fill) \o B(ids[k])])
Order(n, rev) == [k \in 1..n |-> IF rev THEN n + 1 - k ELSE k]
Tagged(tag, idx) == [k \in 1..Len(idx) |-> <<tag, idx[k]>>]

\* "Don't care" bytes of a container image: the filler between items (p.fill), p.tail filler bytes
\* after the last item, and reserved / padding fields, which carry the junk byte p.junk.
J16(p) == <<p.junk, p.junk>>
J32(p) == <<p.junk, p.junk, p.junk, p.junk>>
Extent(from, n) == <<from, from + n>>
\* prefixes shorter than this must be rejected
MinOk(exts) == IF Len(exts) = 0 THEN 0 ELSE MaxOf({ exts[k][2] : k \in 1..Len(exts) })
Disjoint(exts) == \A a, b \in 1..Len(exts) : a # b => (exts[a][2] <= exts[b][1] \/ exts[b][2] <= exts[a][1])

\* =================================================================== CTPK
(* 0x00 "CTPK"  0x04 u16 version  0x06 u16 count  0x08 u32 data-section base
   0x0C u32 data-section size  0x10 u32 hash section  0x14 u32 short-info section
   0x18 8 bytes padding; then count info entries of 0x20 bytes:
   +0 u32 name pointer (absolute, NUL-terminated Shift-JIS)  +4 u32 payload size
   +8 u32 payload pointer relative to the data-section base  +0xC u32 format
   +0x10 u16 width  +0x12 u16 height  +0x14 u8 mip levels  +0x15 u8 type
   +0x16 u16 cube direction  +0x18 u32 bitmap-size pointer  +0x1C u32 time stamp.
   Placement p = [namesFirst, rev, gap, lead, fill, tail, junk]: lead = distance of the
   data-section base before the first payload (<= gap).  *)
CtpkIds(v, p) ==
  LET o     == Order(Len(v), p.rev)
      names == Tagged("name", o)
      pays  == Tagged("pay", Rev(o))
      meta  == << <<"hash", 0>>, <<"short", 0>> >>
  IN IF p.namesFirst THEN << <<"bsz", 0>> >> \o names \o meta \o pays
     ELSE pays \o names \o meta \o << <<"bsz", 0>> >>
CtpkSize(v, id) ==
  CASE id[1] = "name"  -> Len(SjisName(v[id[2]].name)) + 1
    [] id[1] = "pay"   -> Len(v[id[2]].payload)
    [] id[1] = "hash"  -> 8 * Len(v)
    [] id[1] = "short" -> 4 * Len(v)
    [] id[1] = "bsz"   -> 4 * Len(v)
CtpkPlan(v, p) ==
  LET ids   == CtpkIds(v, p)
      sizes == Tup([k \in 1..Len(ids) |-> CtpkSize(v, ids[k])])
      start == 32 + 32 * Len(v)
  IN [ids |-> ids, pos |-> PlanPos(start, sizes, p.gap), end |-> PlanEnd(start, sizes, p.gap)]
CtpkAt(pl, id) == pl.pos[IdxOf(pl.ids, id)]
CtpkExtents(v, p) ==
  LET pl == CtpkPlan(v, p)
  IN [i \in 1..Len(v) |-> Extent(CtpkAt(pl, <<"pay", i>>), Len(v[i].payload))]
CtpkFile(v, p) ==
  LET n    == Len(v)
      pl   == CtpkPlan(v, p)
      ext  == CtpkExtents(v, p)
      base == IF n = 0 THEN pl.end ELSE MinOf({ ext[i][1] : i \in 1..n }) - p.lead
      dlen == IF n = 0 THEN 0 ELSE MinOk(ext) - base
      head == <<67, 84, 80, 75>> \o LE16(1) \o LE16(n) \o LE32(base) \o LE32(dlen)
              \o LE32(CtpkAt(pl, <<"hash", 0>>)) \o LE32(CtpkAt(pl, <<"short", 0>>)) \o Fill(8, p.junk)
      Info(i) == LE32(CtpkAt(pl, <<"name", i>>)) \o LE32(Len(v[i].payload))
                 \o LE32(ext[i][1] - base) \o LE32(v[i].fmt) \o LE16(v[i].w) \o LE16(v[i].h)
                 \o <<1, 0>> \o LE16(0) \o LE32(CtpkAt(pl, <<"bsz", 0>>) + 4 * (i - 1)) \o LE32(1600000000 + i)
      B(id) == CASE id[1] = "name"  -> SjisName(v[id[2]].name) \o <<0>>
                 [] id[1] = "pay"   -> v[id[2]].payload
                 [] id[1] = "hash"  -> Concat([i \in 1..n |-> LE32(305419896 + 4097 * i) \o LE32(i - 1)])
                 [] id[1] = "short" -> Concat([i \in 1..n |-> <<v[i].fmt, 1, 0, 0>>])
                 [] id[1] = "bsz"   -> Concat([i \in 1..n |-> LE32(Len(v[i].payload))])
  IN head \o Concat([i \in 1..n |-> Info(i)]) \o Render(pl.ids, p.gap, p.fill, B) \o Fill(p.tail, p.fill)
CtpkCanonP == [namesFirst |-> TRUE, rev |-> FALSE, gap |-> 0, lead |-> 0, fill |-> 0, tail |-> 0, junk |-> 0]
CtpkCanon(v) == CtpkFile(v, CtpkCanonP)
CtpkLayouts(v, P) == { CtpkFile(v, p) : p \in P }
CtpkPlacementOK(v, p) == p.lead <= p.gap /\ p.gap >= 0

\* reference reader; result per texture [name (bytes), w, h, fmt, payload]
CtpkWellFormedN(f, L) ==
  /\ HasN(L, 0, 32)
  /\ LET n == RdLE16(f, 6) IN
       /\ HasN(L, 32, 32 * n)
       /\ f[12] < 128
       /\ \A i \in 0..(n - 1) :
            LET e == 32 + 32 * i IN
            /\ f[e + 4] < 128 /\ f[e + 12] < 128 /\ f[e + 16] < 128
            /\ HasCStrN(f, L, RdLE32(f, e))
            /\ RdLE32(f, e + 12) \in ContainerFormats
            /\ HasN(L, RdLE32(f, 8) + RdLE32(f, e + 8),
                   PayloadSize(RdLE32(f, e + 12), RdLE16(f, e + 16), RdLE16(f, e + 18)))
CtpkWellFormed(f) == CtpkWellFormedN(f, Len(f))
CtpkRead(f) ==
  [i \in 1..RdLE16(f, 6) |->
     LET e   == 32 * i
         fmt == RdLE32(f, e + 12)
         w   == RdLE16(f, e + 16)
         h   == RdLE16(f, e + 18)
     IN [name |-> CStr(f, RdLE32(f, e)), w |-> w, h |-> h, fmt |-> fmt,
         payload |-> Slice(f, RdLE32(f, 8) + RdLE32(f, e + 8), PayloadSize(fmt, w, h))]]
\* the single-texture canonical image without its payload (the payload comes last)
CtpkCanonHead(name, fmt, w, h) ==
  LET n == PayloadSize(fmt, w, h)
      f == CtpkCanon(<< [name |-> name, w |-> w, h |-> h, fmt |-> fmt, payload |-> Fill(n, 0), pal |-> <<>>] >>)
  IN SubSeq(f, 1, Len(f) - n)

\* =================================================================== BCH
(* Header: 0x00 "BCH\0"  0x04 u8 backward compatibility  0x05 u8 forward
   compatibility  0x06 u16 version  0x08 contents  0x0C strings  0x10 commands
   0x14 raw data  [0x18 raw-ext, only when backward compatibility > 0x20]
   relocation address; then the lengths in the same order [raw-ext length] and
   relocation length, uninitialised data length, uninitialised commands length,
   u16 flags, u16 address count.  The compatibility byte is 7 or 0x22.
   Contents section: +0x24 u32 texture pointer table (relative to contents)
   +0x28 u32 texture count.  Pointer table: count u32 (relative to contents) ->
   texture struct: +0 u32 unit-0 command block (relative to commands)
   +0x1C u32 name (relative to strings, NUL-terminated).  Command block:
   +0 u16 height  +2 u16 width  +0x10 u32 payload (relative to raw data)
   +0x18 u32 format.
   Placement p = [compat, secs, rev, tableFirst, gap, slead, fill, tail, junk]; secs is a
   permutation of <<"C","S","M","R">>.  *)
BchContentsHead == 60
BchStructSize   == 36
BchCmdSize      == 32
BchHeaderSize(p) == IF p.compat > 32 THEN 68 ELSE 60
BchCIds(v, p) == IF p.tableFirst THEN << <<"tab", 0>> >> \o Tagged("st", Order(Len(v), p.rev))
                 ELSE Tagged("st", Order(Len(v), p.rev)) \o << <<"tab", 0>> >>
BchCSizes(v, p) == Tup([k \in 1..(Len(v) + 1) |-> IF BchCIds(v, p)[k][1] = "tab" THEN 4 * Len(v) ELSE BchStructSize])
BchSIds(v, p) == Tagged("name", Order(Len(v), ~p.rev))
BchSSizes(v, p) == Tup([k \in 1..Len(v) |-> Len(Utf8Name(v[BchSIds(v, p)[k][2]].name)) + 1])
BchMIds(v, p) == Tagged("cmd", Order(Len(v), ~p.rev))
BchMSizes(v, p) == [k \in 1..Len(v) |-> BchCmdSize]
BchRIds(v, p) == Tagged("pay", Order(Len(v), p.rev))
BchRSizes(v, p) == Tup([k \in 1..Len(v) |-> Len(v[BchRIds(v, p)[k][2]].payload)])
\* offsets inside the sections
BchCOff(v, p, id) == PlanPos(BchContentsHead, BchCSizes(v, p), p.gap)[IdxOf(BchCIds(v, p), id)]
BchSOff(v, p, i)  == PlanPos(p.slead, BchSSizes(v, p), 0)[IdxOf(BchSIds(v, p), <<"name", i>>)]
BchMOff(v, p, i)  == PlanPos(0, BchMSizes(v, p), p.gap)[IdxOf(BchMIds(v, p), <<"cmd", i>>)]
BchROff(v, p, i)  == PlanPos(0, BchRSizes(v, p), p.gap)[IdxOf(BchRIds(v, p), <<"pay", i>>)]
BchSecSize(v, p, s) ==
  CASE s = "C" -> PlanEnd(BchContentsHead, BchCSizes(v, p), p.gap)
    [] s = "S" -> PlanEnd(p.slead, BchSSizes(v, p), 0)
    [] s = "M" -> PlanEnd(0, BchMSizes(v, p), p.gap)
    [] s = "R" -> PlanEnd(0, BchRSizes(v, p), p.gap)
BchSecSizes(v, p) == [k \in 1..4 |-> BchSecSize(v, p, p.secs[k])]
BchSecPos(v, p, s) == PlanPos(BchHeaderSize(p), BchSecSizes(v, p), p.gap)[IdxOf(p.secs, s)]
BchEnd(v, p) == PlanEnd(BchHeaderSize(p), BchSecSizes(v, p), p.gap)
BchExtents(v, p) ==
  [i \in 1..Len(v) |-> Extent(BchSecPos(v, p, "R") + BchROff(v, p, i), Len(v[i].payload))]
BchFile(v, p) ==
  LET n   == Len(v)
      ext == p.compat > 32
      A(s) == LE32(BchSecPos(v, p, s))
      L(s) == LE32(BchSecSize(v, p, s))
      head == <<66, 67, 72, 0, p.compat, p.compat>> \o LE16(42837)
              \o A("C") \o A("S") \o A("M") \o A("R")
              \o (IF ext THEN LE32(BchEnd(v, p)) ELSE <<>>) \o LE32(BchEnd(v, p))
              \o L("C") \o L("S") \o L("M") \o L("R")
              \o (IF ext THEN LE32(0) ELSE <<>>) \o LE32(0) \o LE32(0) \o LE32(0) \o LE16(0) \o LE16(0)
      \* contents header: (pointer table, count, name tree) triples; textures are the 4th
      chead == LE32(BchContentsHead) \o LE32(0) \o J32(p)
               \o LE32(BchContentsHead) \o LE32(0) \o J32(p)
               \o LE32(BchContentsHead) \o LE32(0) \o J32(p)
               \o LE32(IF n = 0 THEN BchContentsHead ELSE BchCOff(v, p, <<"tab", 0>>)) \o LE32(n) \o J32(p)
               \o LE32(BchContentsHead) \o LE32(0) \o J32(p)
      CB(id) == IF id[1] = "tab" THEN Concat([i \in 1..n |-> LE32(BchCOff(v, p, <<"st", i>>))])
                ELSE LET i == id[2] IN
                     LE32(BchMOff(v, p, i)) \o LE32(BchMOff(v, p, i)) \o LE32(BchMOff(v, p, i))
                     \o LE32(7) \o <<v[i].fmt, 1>> \o J16(p) \o J32(p) \o J32(p)
                     \o LE32(BchSOff(v, p, i)) \o J32(p)
      SB(id) == Utf8Name(v[id[2]].name) \o <<0>>
      MB(id) == LET i == id[2] IN
                LE16(v[i].h) \o LE16(v[i].w) \o LE32(983170) \o J32(p) \o LE32(983173)
                \o LE32(BchROff(v, p, i)) \o LE32(983174) \o LE32(v[i].fmt) \o LE32(983182)
      RB(id) == v[id[2]].payload
      Sec(s) == CASE s = "C" -> chead \o Render(BchCIds(v, p), p.gap, p.fill, CB)
                  [] s = "S" -> Fill(p.slead, 46) \o Render(BchSIds(v, p), 0, p.fill, SB)
                  [] s = "M" -> Render(BchMIds(v, p), p.gap, p.fill, MB)
                  [] s = "R" -> Render(BchRIds(v, p), p.gap, p.fill, RB)
  IN head \o Concat([k \in 1..4 |-> Fill(p.gap, p.fill) \o Sec(p.secs[k])]) \o Fill(p.tail, p.fill)
BchCanonP == [compat |-> 7, secs |-> <<"C", "S", "M", "R">>, rev |-> FALSE, tableFirst |-> TRUE, gap |-> 0, slead |-> 0,
              fill |-> 0, tail |-> 0, junk |-> 0]
BchLayouts(v, P) == { BchFile(v, p) : p \in P }
BchPlacementOK(v, p) ==
  /\ p.compat \in {7, 34}
  /\ Len(p.secs) = 4 /\ { p.secs[k] : k \in 1..4 } = {"C", "S", "M", "R"}

BchMagicOKN(f, L) == L >= 4 /\ Slice(f, 0, 4) = <<66, 67, 72, 0>>
BchMagicOK(f) == BchMagicOKN(f, Len(f))
BchWellFormedN(f, L) ==
  /\ BchMagicOKN(f, L)
  /\ HasN(L, 0, 60) /\ (f[5] > 32 => HasN(L, 0, 68))
  /\ LET c == RdLE32(f, 8) IN
     /\ HasN(L, c, 44)
     /\ LET tab == c + RdLE32(f, c + 36)
            n   == RdLE32(f, c + 40)
        IN /\ HasN(L, tab, 4 * n)
           /\ \A i \in 0..(n - 1) :
                LET st == c + RdLE32(f, tab + 4 * i) IN
                /\ HasN(L, st, 32)
                /\ HasCStrN(f, L, RdLE32(f, 12) + RdLE32(f, st + 28))
                /\ LET cb == RdLE32(f, 16) + RdLE32(f, st) IN
                   /\ HasN(L, cb, 28)
                   /\ RdLE32(f, cb + 24) \in ContainerFormats
                   /\ HasN(L, RdLE32(f, 20) + RdLE32(f, cb + 16),
                          PayloadSize(RdLE32(f, cb + 24), RdLE16(f, cb + 2), RdLE16(f, cb)))
BchWellFormed(f) == BchWellFormedN(f, Len(f))
BchRead(f) ==
  LET c   == RdLE32(f, 8)
      tab == c + RdLE32(f, c + 36)
  IN [i \in 1..RdLE32(f, c + 40) |->
        LET st  == c + RdLE32(f, tab + 4 * (i - 1))
            cb  == RdLE32(f, 16) + RdLE32(f, st)
            fmt == RdLE32(f, cb + 24)
            w   == RdLE16(f, cb + 2)
            h   == RdLE16(f, cb)
        IN [name |-> CStr(f, RdLE32(f, 12) + RdLE32(f, st + 28)), w |-> w, h |-> h, fmt |-> fmt,
            payload |-> Slice(f, RdLE32(f, 20) + RdLE32(f, cb + 16), PayloadSize(fmt, w, h))]]

\* =================================================================== CGFX
(* 0x00 "CGFX"  0x04 u16 byte-order mark  0x06 u16 header size (0x14)
   0x08 u32 revision  0x0C u32 file size  0x10 u32 block count; the DATA block
   follows at 0x14: "DATA", u32 size, 16 pairs (u32 count, u32 offset relative to
   the offset field itself); pair 1 (the second) is the texture dictionary.
   DICT: "DICT", u32 size, u32 count, 0x10-byte root node, count entries of
   0x10 bytes: 8 bytes tree data, u32 name offset, u32 object offset (both
   self-relative).  TXOB object: +0 u32 type  +4 "TXOB"  +8 u32 revision
   +0xC u32 name offset (self-relative)  +0x18 u32 height  +0x1C u32 width
   +0x28 u32 mip levels  +0x34 u32 format  +0x44 u32 payload size
   +0x48 u32 payload offset (self-relative).  Self-relative offsets point
   forwards (as in every file the tools write), so a dictionary precedes its
   objects and an object precedes its name and payload.
   Placement p = [ord, decoy, rev, gap, fill, tail, junk]; decoy = a (different, empty)
   dictionary is present in slot 0.  *)
CgfxTxobSize == 88
CgfxDictSize(n) == 28 + 16 * n
CgfxIds(v, p) ==
  LET n  == Len(v)
      o  == Order(n, p.rev)
      d1 == << <<"dict", 1>> >>
      d0 == IF p.decoy THEN << <<"dict", 0>> >> ELSE <<>>
  IN CASE p.ord = 1 -> d0 \o d1 \o Tagged("txob", o) \o Tagged("name", Rev(o)) \o Tagged("pay", o)
       [] p.ord = 2 -> d1 \o d0 \o Tagged("txob", Rev(o)) \o Tagged("pay", Rev(o)) \o Tagged("name", o)
       [] p.ord = 3 -> d1 \o Concat([k \in 1..n |-> << <<"txob", o[k]>>, <<"pay", o[k]>>, <<"name", o[k]>> >>]) \o d0
CgfxSize(v, id) ==
  CASE id[1] = "dict" -> CgfxDictSize(IF id[2] = 1 THEN Len(v) ELSE 0)
    [] id[1] = "txob" -> CgfxTxobSize
    [] id[1] = "name" -> Len(Utf8Name(v[id[2]].name)) + 1
    [] id[1] = "pay"  -> Len(v[id[2]].payload)
CgfxPlan(v, p) ==
  LET ids   == CgfxIds(v, p)
      sizes == Tup([k \in 1..Len(ids) |-> CgfxSize(v, ids[k])])
  IN [ids |-> ids, pos |-> PlanPos(156, sizes, p.gap), end |-> PlanEnd(156, sizes, p.gap)]
CgfxAt(pl, id) == pl.pos[IdxOf(pl.ids, id)]
CgfxExtents(v, p) ==
  LET pl == CgfxPlan(v, p)
  IN [i \in 1..Len(v) |-> Extent(CgfxAt(pl, <<"pay", i>>), Len(v[i].payload))]
CgfxFile(v, p) ==
  LET n  == Len(v)
      pl == CgfxPlan(v, p)
      head == <<67, 71, 70, 88, 255, 254>> \o LE16(20) \o LE32(83886080) \o LE32(pl.end + p.tail) \o LE32(1)
      \* slot k of DATA: its offset field is at 0x14 + 8 + 8*k + 4
      Slot(k) == CASE k = 1 -> LE32(n) \o LE32(CgfxAt(pl, <<"dict", 1>>) - (20 + 8 + 8 * k + 4))
                   [] k = 0 /\ p.decoy -> LE32(0) \o LE32(CgfxAt(pl, <<"dict", 0>>) - (20 + 8 + 8 * k + 4))
                   [] OTHER -> LE32(0) \o LE32(0)
      data == <<68, 65, 84, 65>> \o LE32(pl.end - 20) \o Concat([k \in 1..16 |-> Slot(k - 1)])
      B(id) ==
        LET at == CgfxAt(pl, id) IN
        CASE id[1] = "dict" ->
               LET m == IF id[2] = 1 THEN n ELSE 0 IN
               <<68, 73, 67, 84>> \o LE32(CgfxDictSize(m)) \o LE32(m)
               \o <<255, 255, 255, 255>> \o LE16(IF m = 0 THEN 0 ELSE 1) \o LE16(0) \o LE32(0) \o LE32(0)
               \o Concat([i \in 1..m |->
                    LET e == at + 28 + 16 * (i - 1) IN
                    LE32(i) \o LE16(i) \o LE16(0)
                    \o LE32(CgfxAt(pl, <<"name", i>>) - (e + 8))
                    \o LE32(CgfxAt(pl, <<"txob", i>>) - (e + 12))])
          [] id[1] = "txob" ->
               LET t == v[id[2]] IN
               LE32(536870929) \o <<84, 88, 79, 66>> \o LE32(83886080)
               \o LE32(CgfxAt(pl, <<"name", id[2]>>) - (at + 12)) \o LE32(0) \o LE32(0)
               \o LE32(t.h) \o LE32(t.w) \o LE32(26458) \o LE32(5121) \o LE32(1) \o LE32(0) \o LE32(0)
               \o LE32(t.fmt) \o J32(p) \o LE32(t.h) \o LE32(t.w)
               \o LE32(Len(t.payload)) \o LE32(CgfxAt(pl, <<"pay", id[2]>>) - (at + 72))
               \o J32(p) \o LE32(32) \o J32(p)
          [] id[1] = "name" -> Utf8Name(v[id[2]].name) \o <<0>>
          [] id[1] = "pay"  -> v[id[2]].payload
  IN head \o data \o Render(pl.ids, p.gap, p.fill, B) \o Fill(p.tail, p.fill)
CgfxCanonP == [ord |-> 1, decoy |-> FALSE, rev |-> FALSE, gap |-> 0, fill |-> 0, tail |-> 0, junk |-> 0]
CgfxLayouts(v, P) == { CgfxFile(v, p) : p \in P }
CgfxPlacementOK(v, p) == p.ord \in 1..3

CgfxMagicOKN(f, L) == L >= 4 /\ Slice(f, 0, 4) = <<67, 71, 70, 88>>
CgfxMagicOK(f) == CgfxMagicOKN(f, Len(f))
\* self-relative pointer stored at off
SelfRel(f, off) == off + RdLE32(f, off)
CgfxWellFormedN(f, L) ==
  /\ CgfxMagicOKN(f, L) /\ HasN(L, 0, 156)
  /\ LET d == SelfRel(f, 40) IN
     /\ HasN(L, d, 28) /\ HasN(L, d, 28 + 16 * RdLE32(f, d + 8))
     /\ \A i \in 0..(RdLE32(f, d + 8) - 1) :
          LET o == SelfRel(f, d + 28 + 16 * i + 12) IN
          /\ HasN(L, o, 76)
          /\ HasCStrN(f, L, SelfRel(f, o + 12))
          /\ HasN(L, SelfRel(f, o + 72), RdLE32(f, o + 68))
CgfxWellFormed(f) == CgfxWellFormedN(f, Len(f))
CgfxRead(f) ==
  LET d == SelfRel(f, 40)
  IN [i \in 1..RdLE32(f, d + 8) |->
        LET o == SelfRel(f, d + 28 + 16 * (i - 1) + 12)
        IN [name |-> CStr(f, SelfRel(f, o + 12)), w |-> RdLE32(f, o + 28), h |-> RdLE32(f, o + 24),
            fmt |-> RdLE32(f, o + 52), payload |-> Slice(f, SelfRel(f, o + 72), RdLE32(f, o + 68))]]

\* =================================================================== TPL
(* Big-endian.  0x00 u32 magic 0x0020AF30  0x04 u32 image count  0x08 u32 image
   table (absolute); table entry: u32 image header, u32 palette header
   (absolute).  Palette header: u16 entry count, u8 unpacked, u8 padding,
   u32 format (2 = RGB5A3), u32 data (absolute).  Image header: u16 height,
   u16 width, u32 format (9 = CI8), u32 data (absolute), u32 wrap s, u32 wrap t,
   u32 min filter, u32 mag filter, f32 LOD bias, u8 edge LOD, u8 min LOD,
   u8 max LOD, u8 unpacked.
   Placement p = [ord, rev, gap, fill, tail, junk].  *)
TplImgHdrSize == 36
TplPalHdrSize == 12
TplIds(v, p) ==
  LET n == Len(v)
      o == Order(n, p.rev)
      t == << <<"tab", 0>> >>
  IN CASE p.ord = 1 -> t \o Concat([k \in 1..n |-> << <<"ph", o[k]>>, <<"ih", o[k]>> >>])
                         \o Tagged("pal", o) \o Tagged("img", o)
       [] p.ord = 2 -> Tagged("img", Rev(o)) \o Tagged("pal", o) \o Tagged("ih", o) \o Tagged("ph", Rev(o)) \o t
       [] p.ord = 3 -> Concat([k \in 1..n |-> << <<"ih", o[k]>>, <<"img", o[k]>>, <<"ph", o[k]>>, <<"pal", o[k]>> >>]) \o t
TplSize(v, id) ==
  CASE id[1] = "tab" -> 8 * Len(v)
    [] id[1] = "ih"  -> TplImgHdrSize
    [] id[1] = "ph"  -> TplPalHdrSize
    [] id[1] = "img" -> Len(v[id[2]].payload)
    [] id[1] = "pal" -> Len(v[id[2]].pal)
TplPlan(v, p) ==
  LET ids   == TplIds(v, p)
      sizes == Tup([k \in 1..Len(ids) |-> TplSize(v, ids[k])])
  IN [ids |-> ids, pos |-> PlanPos(12, sizes, p.gap), end |-> PlanEnd(12, sizes, p.gap)]
TplAt(pl, id) == pl.pos[IdxOf(pl.ids, id)]
\* the payload of a TPL texture = its image data (the palette has its own extents)
TplExtents(v, p) ==
  LET pl == TplPlan(v, p)
  IN [i \in 1..Len(v) |-> Extent(TplAt(pl, <<"img", i>>), Len(v[i].payload))]
TplPalExtents(v, p) ==
  LET pl == TplPlan(v, p)
  IN [i \in 1..Len(v) |-> Extent(TplAt(pl, <<"pal", i>>), Len(v[i].pal))]
TplFile(v, p) ==
  LET n  == Len(v)
      pl == TplPlan(v, p)
      head == <<0, 32, 175, 48>> \o BE32(n) \o BE32(TplAt(pl, <<"tab", 0>>))
      B(id) ==
        CASE id[1] = "tab" -> Concat([i \in 1..n |-> BE32(TplAt(pl, <<"ih", i>>)) \o BE32(TplAt(pl, <<"ph", i>>))])
          [] id[1] = "ih"  -> LET t == v[id[2]] IN
                              BE16(t.h) \o BE16(t.w) \o BE32(9) \o BE32(TplAt(pl, <<"img", id[2]>>))
                              \o BE32(0) \o BE32(0) \o BE32(1) \o BE32(1) \o J32(p) \o J32(p)
          [] id[1] = "ph"  -> LET t == v[id[2]] IN
                              BE16(Len(t.pal) \div 2) \o <<0, p.junk>> \o BE32(2) \o BE32(TplAt(pl, <<"pal", id[2]>>))
          [] id[1] = "img" -> v[id[2]].payload
          [] id[1] = "pal" -> v[id[2]].pal
  IN head \o Render(pl.ids, p.gap, p.fill, B) \o Fill(p.tail, p.fill)
TplCanonP == [ord |-> 1, rev |-> FALSE, gap |-> 0, fill |-> 0, tail |-> 0, junk |-> 0]
TplCanon(v) == TplFile(v, TplCanonP)
TplLayouts(v, P) == { TplFile(v, p) : p \in P }
TplPlacementOK(v, p) == p.ord \in 1..3

TplMagicOKN(f, L) == L >= 4 /\ Slice(f, 0, 4) = <<0, 32, 175, 48>>
TplMagicOK(f) == TplMagicOKN(f, Len(f))
TplWellFormedN(f, L) ==
  /\ TplMagicOKN(f, L) /\ HasN(L, 0, 12)
  /\ LET n == RdBE32(f, 4)
         t == RdBE32(f, 8)
     IN /\ HasN(L, t, 8 * n)
        /\ \A i \in 0..(n - 1) :
             LET ih == RdBE32(f, t + 8 * i)
                 ph == RdBE32(f, t + 8 * i + 4)
             IN /\ HasN(L, ih, 36) /\ HasN(L, ph, 12)
                /\ RdBE32(f, ih + 4) = 9 /\ RdBE32(f, ph + 4) = 2
                /\ HasN(L, RdBE32(f, ih + 8), CI8PayloadSize(RdBE16(f, ih + 2), RdBE16(f, ih)))
                /\ HasN(L, RdBE32(f, ph + 8), 2 * RdBE16(f, ph))
TplWellFormed(f) == TplWellFormedN(f, Len(f))
TplRead(f) ==
  LET t == RdBE32(f, 8)
  IN [i \in 1..RdBE32(f, 4) |->
        LET ih == RdBE32(f, t + 8 * (i - 1))
            ph == RdBE32(f, t + 8 * (i - 1) + 4)
            w  == RdBE16(f, ih + 2)
            h  == RdBE16(f, ih)
        IN [name |-> <<>>, w |-> w, h |-> h, fmt |-> CI8,
            payload |-> Slice(f, RdBE32(f, ih + 8), CI8PayloadSize(w, h)),
            pal |-> Slice(f, RdBE32(f, ph + 8), 2 * RdBE16(f, ph))]]

\* =================================================================== one entry point
Containers == {"ctpk", "bch", "cgfx", "tpl"}
File(c, v, p) == CASE c = "ctpk" -> CtpkFile(v, p) [] c = "bch" -> BchFile(v, p)
                   [] c = "cgfx" -> CgfxFile(v, p) [] c = "tpl" -> TplFile(v, p)
Extents(c, v, p) == CASE c = "ctpk" -> CtpkExtents(v, p) [] c = "bch" -> BchExtents(v, p)
                      [] c = "cgfx" -> CgfxExtents(v, p) [] c = "tpl" -> TplExtents(v, p)
PlacementOK(c, v, p) ==
  /\ p.gap >= 0 /\ p.tail >= 0 /\ p.fill \in 0..255 /\ p.junk \in 0..255
  /\ CASE c = "ctpk" -> CtpkPlacementOK(v, p) [] c = "bch" -> BchPlacementOK(v, p)
       [] c = "cgfx" -> CgfxPlacementOK(v, p) [] c = "tpl" -> TplPlacementOK(v, p)
ValueOK(c, v) == Len(v) \in 0..6 /\ \A i \in 1..Len(v) : IF c = "tpl" THEN IsTexTpl(v[i]) ELSE IsTex3DS(v[i])
\* well-formedness of the prefix of length L of f
WellFormedN(c, f, L) == CASE c = "ctpk" -> CtpkWellFormedN(f, L) [] c = "bch" -> BchWellFormedN(f, L)
                          [] c = "cgfx" -> CgfxWellFormedN(f, L) [] c = "tpl" -> TplWellFormedN(f, L)
WellFormed(c, f) == CASE c = "ctpk" -> CtpkWellFormed(f) [] c = "bch" -> BchWellFormed(f)
                      [] c = "cgfx" -> CgfxWellFormed(f) [] c = "tpl" -> TplWellFormed(f)
RefRead(c, f) == CASE c = "ctpk" -> CtpkRead(f) [] c = "bch" -> BchRead(f)
                   [] c = "cgfx" -> CgfxRead(f) [] c = "tpl" -> TplRead(f)
\* the stored form of a name
NameBytes(c, name) == CASE c = "ctpk" -> SjisName(name) [] c \in {"bch", "cgfx"} -> Utf8Name(name)
                        [] c = "tpl" -> <<>>
\* what RefRead must return for File(c, v, p)
Stored(c, v) ==
  [i \in 1..Len(v) |->
     IF c = "tpl" THEN [name |-> <<>>, w |-> v[i].w, h |-> v[i].h, fmt |-> CI8, payload |-> v[i].payload, pal |-> v[i].pal]
     ELSE [name |-> NameBytes(c, v[i].name), w |-> v[i].w, h |-> v[i].h, fmt |-> v[i].fmt, payload |-> v[i].payload]]
\* magic bytes (offset 0..3) that a reader must insist on; CTPK: the statement demands nothing
ChecksMagic(c) == c \in {"bch", "cgfx", "tpl"}

MagicOK(c, f) == CASE c = "bch" -> BchMagicOK(f) [] c = "cgfx" -> CgfxMagicOK(f)
                   [] c = "tpl" -> TplMagicOK(f) [] c = "ctpk" -> TRUE
\* a single-texture image of container c in its canonical placement without the payload, which comes last
CanonP(c) == CASE c = "ctpk" -> CtpkCanonP [] c = "bch" -> BchCanonP [] c = "cgfx" -> CgfxCanonP [] c = "tpl" -> TplCanonP
CanonHead(c, name, fmt, w, h) ==
  LET n == PayloadSize(fmt, w, h)
      v == << [name |-> name, w |-> w, h |-> h, fmt |-> fmt, payload |-> Fill(n, 0), pal |-> <<>>] >>
      f == File(c, v, CanonP(c))
  IN SubSeq(f, 1, Len(f) - n)
CanonPayloadLast(c, name, fmt, w, h) ==
  LET n == PayloadSize(fmt, w, h)
      v == << [name |-> name, w |-> w, h |-> h, fmt |-> fmt, payload |-> Fill(n, 0), pal |-> <<>>] >>
  IN Extents(c, v, CanonP(c))[1] = <<Len(File(c, v, CanonP(c))) - n, Len(File(c, v, CanonP(c)))>>

\* the expected reading of File(c, v, p): out = sequence of [name, w, h, pixels]
ReadOK(c, v, out) ==
  /\ Len(out) = Len(v)
  /\ \A i \in 1..Len(v) :
       /\ out[i].name = (IF c = "tpl" THEN <<>> ELSE v[i].name)
       /\ out[i].w = v[i].w /\ out[i].h = v[i].h
       /\ DecodeOK(v[i], out[i].pixels)
\* the same textures as a map keyed by name (the layered filesystem's typed readers): out = sequence of
\* [key, name, w, h, pixels] in any order; one entry per distinct name, each the reading of a texture
\* of that name, filed under its own name
MapReadOK(c, v, out) ==
  LET names == { v[i].name : i \in 1..Len(v) } IN
  /\ { out[j].name : j \in 1..Len(out) } = names
  /\ Len(out) = Cardinality(names)
  /\ \A j \in 1..Len(out) :
       /\ out[j].key = out[j].name
       /\ \E i \in 1..Len(v) : /\ v[i].name = out[j].name /\ out[j].w = v[i].w /\ out[j].h = v[i].h
                                /\ DecodeOK(v[i], out[j].pixels)
=============================================================================
