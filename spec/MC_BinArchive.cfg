SPECIFICATION Spec
INVARIANT Laws
INVARIANT SessionLaws
CHECK_DEADLOCK FALSE
