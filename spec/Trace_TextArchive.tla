------------------------ MODULE Trace_TextArchive ------------------------
(* Trace validation (impl -> spec) for C07.  The harness logs, after every call
   on a real TextArchive, the call, its result and the full projected state.
   Event i is accepted iff <<result, post-state>> is one of the outcomes the
   specification allows from the previous logged state.  Rejected indices are
   collected (validation continues from the logged state, so the rest of the
   trace is still examined) and reported on the final state. *)
EXTENDS TextArchive, TLC, Json, IOUtils

Rec == ndJsonDeserialize(IOEnv.TRACE)

VARIABLES i, st, fmt, bad
vars == <<i, st, fmt, bad>>

KeepsTitle(f) == f \in {"unicode-le", "unicode-be"}

Init == i = 1 /\ st = New("") /\ fmt = "unicode-le" /\ bad = <<>>

Accept(ev) ==
  \/ ev.op = "reset"
  \/ [res |-> ev.res, st |-> ev.post] \in Outcomes(st, ev, KeepsTitle(fmt), "")

Next ==
  /\ i <= Len(Rec)
  /\ LET ev == Rec[i] IN
       /\ i' = i + 1
       /\ st' = ev.post
       /\ fmt' = IF ev.op = "reset" THEN ev.fmt ELSE fmt
       /\ bad' = IF Accept(ev) THEN bad ELSE Append(bad, i)

Spec == Init /\ [][Next]_vars

\* every logged state satisfies the state-level laws too
StateLaws == KeysDistinct(st) /\ NoStoredPair(st) /\ EscapeSymmetric(st)
Report == (i = Len(Rec) + 1) =>
            PrintT("R " \o ToJson([n |-> Len(Rec), bad |-> bad]))
=============================================================================
