------------------------ MODULE Trace_TextArchive ------------------------
(* Trace validation (impl -> spec) for C07.  The harness logs, after every call
   on a real TextArchive, the call, its result and the full projected state.
   Event i is accepted iff <<result, post-state>> is one of the outcomes the
   specification allows from the previous logged state.  Rejected indices are
   collected (validation continues from the logged state, so the rest of the
   trace is still examined) and reported on the final state. *)
EXTENDS TextArchive, TLC, Json, IOUtils

Rec == ndJsonDeserialize(IOEnv.TRACE)

\* Two archive objects may be alive at the same time (events carry "obj"; a history that uses one object omits it):
\* each object is its own state machine - nothing done to one archive may show in the other.
VARIABLES i, st, fmt, bad
vars == <<i, st, fmt, bad>>

KeepsTitle(f) == f \in {"unicode-le", "unicode-be"}
Objs == {0, 1}
ObjOf(ev) == IF "obj" \in DOMAIN ev THEN ev.obj ELSE 0

Init == i = 1 /\ st = [o \in Objs |-> New("")] /\ fmt = [o \in Objs |-> "unicode-le"] /\ bad = <<>>

Accept(ev) ==
  \/ ev.op = "reset"
  \/ [res |-> ev.res, st |-> ev.post] \in Outcomes(st[ObjOf(ev)], ev, KeepsTitle(fmt[ObjOf(ev)]), "")

Next ==
  /\ i <= Len(Rec)
  /\ LET ev == Rec[i] IN
       /\ i' = i + 1
       /\ st' = [st EXCEPT ![ObjOf(ev)] = ev.post]
       /\ fmt' = IF ev.op = "reset" THEN [fmt EXCEPT ![ObjOf(ev)] = ev.fmt] ELSE fmt
       /\ bad' = IF Accept(ev) THEN bad ELSE Append(bad, i)

Spec == Init /\ [][Next]_vars

\* every logged state satisfies the state-level laws too
StateLaws == \A o \in Objs : KeysDistinct(st[o]) /\ NoStoredPair(st[o]) /\ EscapeSymmetric(st[o])
Report == (i = Len(Rec) + 1) =>
            PrintT("R " \o ToJson([n |-> Len(Rec), bad |-> bad]))
=============================================================================
