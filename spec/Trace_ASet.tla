----------------------------- MODULE Trace_ASet -----------------------------
(* Impl -> spec for C17.  One event per value driven through mila:
     [src, status, value, content, bytes, reparsed, re_same]
   value    = the ASetFile given to serialize() (random, or read from the repository's sample),
   content  = archive content of BinArchive::from_bytes(serialize(value)) (annotated cells zeroed),
   bytes    = the image itself when it has few strings (<<>> otherwise),
   reparsed = ASetFile::from_archive of that archive, re_same = re-serializing it gave the same bytes.
   Accepted iff the content is exactly ASetContent(value), the reference reader gets the value
   back from it, mila's reader did too, re-serialization was stable, and (small images) the
   bytes are BinFormat!Canon(ASetContent(value)). *)
EXTENDS ASet, TLC, Json, IOUtils

BF == INSTANCE BinFormat
Image(c) == BF!Canon(c)

Rec == ndJsonDeserialize(IOEnv.TRACE)

VARIABLES i, bad
vars == <<i, bad>>

\* the conjuncts an event failed (<<>> = accepted)
Check(ev, what) ==
  CASE what = "value-domain" -> IsASetValue(ev.value)
    [] what = "content"      -> ev.content = ASetContent(ev.value)
    [] what = "ref-reader"   -> RefParseASet(ev.content) = [ok |-> TRUE, v |-> ev.value]
    [] what = "reparsed"     -> ev.reparsed = ev.value
    [] what = "reserialize"  -> ev.re_same
    [] what = "image"        -> Len(ev.bytes) > 0 => ev.bytes = Image(ASetContent(ev.value))
\* events of rule-built large values carry [rule, len, head, reparsed_equal, re_same] instead of the value
Failed(ev) ==
  IF ev.status # "ok" THEN <<"status">>
  ELSE IF "rule" \in DOMAIN ev
  THEN SelectSeq(<<"header-totals", "reparsed", "reserialize">>,
                 LAMBDA w : ~(CASE w = "header-totals" -> BigHeaderOK(ev) [] w = "reparsed" -> ev.reparsed_equal [] OTHER -> ev.re_same))
  ELSE SelectSeq(<<"value-domain", "content", "ref-reader", "reparsed", "reserialize", "image">>, LAMBDA w : ~Check(ev, w))

Init == i = 1 /\ bad = <<>>
Next == /\ i <= Len(Rec)
        /\ i' = i + 1
        /\ bad' = IF Failed(Rec[i]) = <<>> THEN bad ELSE Append(bad, [i |-> i, why |-> Failed(Rec[i])])
Spec == Init /\ [][Next]_vars

Report == (i = Len(Rec) + 1) => PrintT("R " \o ToJson([n |-> Len(Rec), bad |-> bad]))
=============================================================================
