-------------------------- MODULE MC_TexContainers --------------------------
(* C20: bounded model of the texture containers.
     MC_TexContainers.cfg   laws for every (container, texture list, placement) of the
                            model: the file is bytes; the documented pointer chain
                            resolves inside the file (WellFormed) and the reference
                            reader returns exactly the packed list; payload extents lie
                            inside the file, hold the payloads and are pairwise disjoint;
                            the reference reader rejects every prefix that cuts a payload
                            and every damaged magic number (BCH, CGFX, TPL)
     Gen_TexContainers.cfg  generator: one line per case with the file, the expected
                            names/dimensions, the shortest prefix length whose outcome is
                            open (min_ok) and whether a damaged magic must be rejected.  *)
EXTENDS TexContainers, TLC, Json, IOUtils, SequencesExt

Tier == IF "VERIF_TIER" \in DOMAIN IOEnv THEN IOEnv.VERIF_TIER ELSE "quick"
Quick == Tier = "quick"

\* ------------------------------------------------------------------ textures
PatByte(s, kk) == LET k == kk % 4093 IN (k * k * 7 + k * 131 + s * 29 + (((k \div 3) * 97) % 251) + (kk \div 4093)) % 256
\* an ETC block outside the ETC1 rules is turned into an individual-mode block
FixEtc(fmt, b) ==
  IF fmt \notin EtcFormats THEN b
  ELSE LET bs == EtcBlockSize(fmt = ETC1A4) IN
       [k \in 1..Len(b) |-> LET co == ((k - 1) \div bs) * bs + bs - 8
                            IN IF k = co + 5 /\ ~EtcValid(b, co) THEN b[k] - 2 ELSE b[k]]
Tex(name, w, h, fmt, seed) ==
  [name |-> name, w |-> w, h |-> h, fmt |-> fmt, pal |-> <<>>,
   payload |-> Tup(FixEtc(fmt, Tup([k \in 1..PayloadSize(fmt, w, h) |-> PatByte(seed, k)])))]
\* The texels outside the crop are "don't care": they are filled adversarially, per texture one of
\* 0xFF / the first value that is no palette index / any byte / a valid index
PadByte(seed, k, n) ==
  CASE seed % 4 = 0 -> 255
    [] seed % 4 = 1 -> IF n < 256 THEN n ELSE 255
    [] seed % 4 = 2 -> PatByte(seed + 5, k)
    [] seed % 4 = 3 -> PatByte(seed + 5, k) % n
PalTex(w, h, n, seed) ==
  [name |-> <<>>, w |-> w, h |-> h, fmt |-> CI8,
   payload |-> Tup([k \in 1..CI8PayloadSize(w, h) |->
                      IF CI8InCrop(w, h, k - 1) THEN PatByte(seed, k) % n ELSE PadByte(seed, k, n)]),
   pal |-> Tup([k \in 1..(2 * n) |-> PatByte(seed + 1, k + 300)])]

\* names: ASCII, and with the hand-checked non-ASCII characters (incl. trail byte 0x5C)
NmA == <<116, 101, 120, 95, 97>>                 \* tex_a
NmB == <<66>>                                    \* B
NmC == <<12354, 65, 34920>>                      \* U+3042 A U+8868
NmD == <<65393, 12477, 46, 116, 103, 97>>        \* U+FF71 U+30BD .tga
NmE == <<>>                                      \* empty name
NmF == <<109, 105, 112, 32, 48, 49>>             \* "mip 01"

T1 == Tex(NmA, 8, 8, RGBA8, 1)
T2 == Tex(NmC, 16, 8, ETC1, 2)
T3 == Tex(NmB, 8, 8, L8, 3)
T4 == Tex(NmD, 8, 16, RGBA5551, 4)
T5 == Tex(NmF, 8, 8, ETC1A4, 5)
T6 == Tex(NmE, 16, 8, RGB565, 6)
T7 == Tex(NmA, 8, 8, RGBA4, 7)
T8 == Tex(NmC, 8, 8, LA8, 8)
T9 == Tex(NmD, 16, 16, A8, 9)

\* ---- names of a given STORED length (bytes in the container's own encoding: Shift-JIS for
\* CTPK, UTF-8 for BCH / CGFX).  Path-like ASCII ('/' every 9th byte) with the multi-byte
\* character U+8868 (95 5C / E8 A1 A8) placed so that it straddles the byte offsets 32, 64, 128,
\* 256 and, where it fits exactly, ends the name.
NameBoundaries == {32, 64, 128, 256}
MbWidth(c) == IF c = "ctpk" THEN 2 ELSE 3
\* byte offsets at which a multi-byte character starts: one byte before each boundary, and the
\* last m bytes of the name when that does not cut another one
MbStarts(len, m) ==
  LET bs == { b - 1 : b \in { q \in NameBoundaries : q - 1 + m <= len } }
  IN bs \cup (IF len >= m /\ \A st \in bs : (len - m >= st + m \/ len - m = st) THEN {len - m} ELSE {})
\* (not recursive: a 700-deep recursion overflows the stack of the thread in which TLC
\* pre-evaluates constants, the constant is then silently not cached)
NameOf(len, m) ==
  LET mb     == MbStarts(len, m)
      starts == { pos \in 0..(len - 1) : ~\E st \in mb : st < pos /\ pos < st + m }
      order  == SetToSortSeq(starts, <)
  IN Tup([j \in 1..Len(order) |->
            IF order[j] \in mb THEN 34920
            ELSE IF order[j] % 9 = 8 THEN 47 ELSE 97 + (order[j] % 26)])
LName(c, len) == NameOf(len, MbWidth(c))
NameLens == {0, 1, 31, 32, 33, 63, 64, 65, 127, 128, 129, 255, 256, 257, 700}
ASSUME \A c \in {"ctpk", "bch", "cgfx"} : \A len \in NameLens : Len(NameBytes(c, LName(c, len))) = len

\* ---- adversarial lists: the textures of one file share every parameter (format, size, payload
\* length) and differ in content only, so that anything carried over from one texture to the
\* next (stale buffer, cached table, wrong index) shows in the pixels
SameShape(fmt, w, h, names) == Tup([i \in 1..Len(names) |-> Tex(names[i], w, h, fmt, 40 + 3 * i)])
LenNames(c, lens) == Tup([i \in 1..Len(lens) |-> LName(c, lens[i])])
ShortNames == << NmA, NmB, NmC, NmD, NmE, NmF >>

\* ---- payload sizes that go DOWN (and up and down) along the list: a reader that keeps a
\* buffer or a length from the previous texture reads too much for the next one.  Together with
\* the placements that put the payloads in list order at the very end of the file (no byte
\* after the last payload; CoverInv below) the too-long read runs into the end of the file.
Dec3DS   == << Tex(NmA, 16, 8, RGBA8, 74), Tex(NmB, 8, 8, RGBA5551, 75), Tex(NmC, 8, 8, L8, 76), Tex(NmD, 8, 8, ETC1, 77) >>
Mixed3DS == << Tex(NmB, 8, 8, L8, 81), Tex(NmA, 8, 8, RGBA8, 82), Tex(NmF, 8, 8, ETC1, 83),
               Tex(NmC, 8, 16, RGBA4, 84), Tex(NmD, 8, 8, A8, 85), Tex(NmE, 8, 8, ETC1, 86) >>
\* ---- integer-width boundaries of the size fields: w * h = 65 536 does not fit the 16 bits of
\* the width / height fields' own type, and a payload of exactly 65 536 bytes
BigSquare == Tex(NmA, 256, 256, L8, 70)
BigWide   == IF Quick THEN T3 ELSE Tex(NmC, 512, 128, A8, 71)        \* (thorough only: TLC evaluates every constant)
BigBytes  == IF Quick THEN T3 ELSE Tex(NmD, 256, 128, RGB565, 73)

\* the vi-th texture list of a 3DS container (a CASE, so that evaluating one case of the model
\* evaluates one list only); quick: the first N3DS(quick) lists
N3DS == IF Quick THEN 14 ELSE 26
List3DS(c, vi) ==
  CASE vi = 1  -> <<>>
    [] vi = 2  -> <<T1>>
    [] vi = 3  -> <<T2, T3, T4>>
    [] vi = 4  -> <<T9, T6, T7, T5, T1, T8>>
    \* name lengths around 32 / 64 / 128 / 256 stored bytes, same-shape L8 textures
    [] vi = 5  -> SameShape(L8, 8, 8, LenNames(c, <<0, 1, 31, 32, 33, 63>>))
    [] vi = 6  -> SameShape(L8, 8, 8, LenNames(c, <<64, 65, 127, 128, 129, 255>>))
    [] vi = 7  -> SameShape(A8, 8, 8, LenNames(c, <<256, 257>>))
    [] vi = 8  -> SameShape(RGBA8, 8, 8, SubSeq(ShortNames, 1, 3))
    [] vi = 9  -> SameShape(ETC1A4, 8, 8, SubSeq(ShortNames, 4, 6))
    [] vi = 10 -> Dec3DS
    [] vi = 11 -> Mixed3DS
    [] vi = 12 -> << BigSquare, Tex(NmB, 8, 8, L8, 72) >>
    \* the 4-bit formats (ETC1, L4, A4: half-byte / de-facto sizes) with their payload last in list order
    [] vi = 13 -> << Tex(NmA, 8, 8, L8, 91), Tex(NmB, 16, 8, L4, 92), Tex(NmC, 8, 8, A4, 93) >>
    [] vi = 14 -> << Tex(NmD, 8, 8, A4, 94), Tex(NmF, 8, 16, L4, 95), Tex(NmE, 8, 8, ETC1, 96) >>
    \* thorough
    [] vi = 15 -> << Tex(NmF, 8, 8, A8, 78), BigWide >>
    [] vi = 16 -> << BigBytes >>
    [] vi = 17 -> <<T5, T6>>
    [] vi = 18 -> <<T7, T8, T9, T1>>
    [] vi = 19 -> <<T6, T5, T4, T3, T2>>
    [] vi = 20 -> <<T3, T3>>
    [] vi = 21 -> SameShape(ETC1, 16, 8, ShortNames)
    [] vi = 22 -> SameShape(RGBA5551, 8, 8, ShortNames)
    [] vi = 23 -> SameShape(RGB565, 8, 16, SubSeq(ShortNames, 1, 4))
    [] vi = 24 -> SameShape(RGBA4, 8, 8, SubSeq(ShortNames, 2, 5))
    [] vi = 25 -> SameShape(LA8, 8, 8, SubSeq(ShortNames, 3, 6))
    \* one long path-like name
    [] vi = 26 -> SameShape(L8, 8, 8, << LName(c, 700), NmA >>)
Big3DS == {12, 15, 16}          \* the lists with a payload of 64 KiB

P1 == PalTex(5, 3, 4, 11)
P2 == PalTex(8, 4, 16, 12)
P3 == PalTex(9, 5, 3, 13)
P4 == PalTex(1, 1, 1, 14)
P5 == PalTex(17, 2, 256, 15)
P6 == PalTex(16, 8, 40, 16)
\* palette image with separately seeded indices and palette
PalTex2(w, h, n, si, sp) ==
  [name |-> <<>>, w |-> w, h |-> h, fmt |-> CI8,
   payload |-> Tup([k \in 1..CI8PayloadSize(w, h) |->
                      IF CI8InCrop(w, h, k - 1) THEN PatByte(si, k) % n ELSE PadByte(si + sp, k, n)]),
   pal |-> Tup([k \in 1..(2 * n) |-> PatByte(sp, k + 300)])]
\* palette image whose indices deliberately include both ends of the index range
\* (0, 1, n-2, n-1) in the first rows of the first block, i.e. inside every crop of >= 6 texels
EdgeIdx(n, j) == CASE j = 0 -> 0 [] j = 1 -> 1 % n [] j = 2 -> (2 * n - 2) % n [] j = 3 -> n - 1
PalEdge(w, h, n, seed) ==
  [name |-> <<>>, w |-> w, h |-> h, fmt |-> CI8,
   payload |-> Tup([k \in 1..CI8PayloadSize(w, h) |->
                      \* the four left-most texels of every block row carry the range ends, rotated per row
                      IF ~CI8InCrop(w, h, k - 1) THEN PadByte(seed, k, n)
                      ELSE IF (k - 1) % 8 < 4 THEN EdgeIdx(n, (((k - 1) % 8) + ((k - 1) \div 8)) % 4)
                      ELSE PatByte(seed, k) % n]),
   pal |-> Tup([k \in 1..(2 * n) |-> PatByte(seed + 1, k + 300)])]
CropIndices(t) == { t.payload[CI8Index(t.w, x, y) + 1] : x \in 0..(t.w - 1), y \in 0..(t.h - 1) }
EdgeTpl  == << PalEdge(5, 3, 256, 51), PalEdge(8, 4, 255, 52), PalEdge(5, 3, 2, 53), PalEdge(4, 4, 1, 54), PalEdge(9, 5, 256, 55) >>
ASSUME \A i \in 1..Len(EdgeTpl) :
         LET t == EdgeTpl[i]  n == Len(t.pal) \div 2
         IN { EdgeIdx(n, j) : j \in 0..3 } \subseteq CropIndices(t)
BigPal   == PalEdge(256, 256, 256, 61)
DecTpl   == << PalTex2(17, 9, 256, 41, 42), PalTex2(16, 8, 40, 43, 44), PalTex2(8, 4, 4, 45, 46) >>
MixedTpl == << PalTex2(8, 4, 4, 47, 48), PalTex2(16, 8, 256, 49, 50), PalTex2(1, 1, 2, 56, 57),
               PalTex2(9, 9, 40, 58, 59), PalTex2(3, 3, 255, 63, 64) >>
\* ---- block alignment: the image is stored in whole blocks (CI8: 8 x 4 texels); padding COLUMNS exist when the
\* width is no multiple of the block width, padding ROWS when the height is no multiple of the block height, and
\* the two are dropped independently.  One image (at least) per class of the product, several block counts.
AlignClass(w, h) == << w % CI8BlockW = 0, h % CI8BlockH = 0 >>
AlignDims == << <<8, 4>>, <<8, 6>>, <<16, 3>>, <<5, 4>>, <<9, 8>>, <<9, 6>> >>
AlignTpl  == Tup([i \in 1..Len(AlignDims) |-> PalTex2(AlignDims[i][1], AlignDims[i][2], IF i % 2 = 0 THEN 5 ELSE 256, 110 + i, 120 + 2 * i)])
ASSUME { AlignClass(AlignDims[i][1], AlignDims[i][2]) : i \in 1..Len(AlignDims) } = BOOLEAN \X BOOLEAN
NTpl == IF Quick THEN 11 ELSE 18
ListTpl(vi) ==
  CASE vi = 1  -> <<>>
    [] vi = 2  -> <<P1>>
    [] vi = 3  -> <<P2, P3, P4>>
    [] vi = 4  -> <<P1, P2, P3, P4, P6, P3>>
    \* same shape and palette LENGTH throughout: same indices / other palette, same palette /
    \* other indices, both different
    [] vi = 5  -> << PalTex2(8, 4, 16, 21, 31), PalTex2(8, 4, 16, 21, 32), PalTex2(8, 4, 16, 22, 32), PalTex2(8, 4, 16, 23, 33) >>
    [] vi = 6  -> Tup([i \in 1..6 |-> PalTex2(5, 3, 256, 50 + i, 70 + i)])
    [] vi = 7  -> DecTpl
    [] vi = 8  -> MixedTpl
    [] vi = 9  -> EdgeTpl
    [] vi = 10 -> << BigPal, PalEdge(3, 2, 2, 62) >>
    \* block alignment of the dimensions (CI8 block: 8 x 4): {width aligned, unaligned} x {height aligned, unaligned}
    [] vi = 11 -> AlignTpl
    \* thorough
    [] vi = 12 -> <<P4, P6>>
    [] vi = 13 -> <<P5, P1, P3, P2>>
    [] vi = 14 -> <<P6, P4, P3, P2, P1>>
    [] vi = 15 -> <<P4, P4>>
    [] vi = 16 -> Tup([i \in 1..6 |-> PalTex2(9, 5, 3, 80, 90 + i)])
    [] vi = 17 -> Tup([i \in 1..5 |-> PalTex2(1, 1, 1, 5, 100 + 7 * i)])
    \* palette lengths alternate: a stale palette of the right length two images back
    [] vi = 18 -> << PalTex2(8, 4, 16, 24, 34), PalTex2(8, 4, 40, 25, 35), PalTex2(8, 4, 16, 26, 36), PalTex2(8, 4, 40, 27, 37) >>
BigTpl == {10}

\* ------------------------------------------------------------------ placements
\* (junk = the filler byte: reserved fields carry it too; tail = filler bytes after the last item)
CtpkP(nf, rev, gap, lead, fill, tail) ==
  [namesFirst |-> nf, rev |-> rev, gap |-> gap, lead |-> lead, fill |-> fill, tail |-> tail, junk |-> fill]
BchP(compat, secs, rev, tf, gap, slead, fill, tail) ==
  [compat |-> compat, secs |-> secs, rev |-> rev, tableFirst |-> tf, gap |-> gap, slead |-> slead, fill |-> fill,
   tail |-> tail, junk |-> fill]
CgfxP(ord, decoy, rev, gap, fill, tail) ==
  [ord |-> ord, decoy |-> decoy, rev |-> rev, gap |-> gap, fill |-> fill, tail |-> tail, junk |-> fill]
TplP(ord, rev, gap, fill, tail) == [ord |-> ord, rev |-> rev, gap |-> gap, fill |-> fill, tail |-> tail, junk |-> fill]

\* quick: three hand-picked placements per container; thorough: products of the parameters
SecOrders == { <<"C", "S", "M", "R">>, <<"R", "M", "S", "C">>, <<"S", "C", "R", "M">>,
               <<"M", "R", "C", "S">>, <<"R", "C", "S", "M">>, <<"C", "R", "M", "S">> }
Placements(c) ==
  CASE c = "ctpk" ->
         IF Quick THEN << CtpkCanonP, CtpkP(FALSE, TRUE, 5, 3, 204, 6), CtpkP(TRUE, TRUE, 4, 4, 255, 0) >>
         ELSE SetToSeq({ CtpkP(nf, rev, g[1], g[2], g[3], g[4]) : nf \in BOOLEAN, rev \in BOOLEAN,
                         g \in { <<0, 0, 0, 0>>, <<5, 3, 204, 7>>, <<4, 4, 255, 0>>, <<16, 0, 170, 1>>, <<16, 16, 1, 0>> } })
    [] c = "bch" ->
         IF Quick THEN << BchP(7, <<"C", "S", "M", "R">>, FALSE, TRUE, 0, 0, 0, 0),
                          BchP(34, <<"R", "M", "S", "C">>, TRUE, FALSE, 4, 3, 204, 5),
                          BchP(7, <<"S", "C", "R", "M">>, TRUE, TRUE, 8, 1, 255, 0) >>
         ELSE SetToSeq({ BchP(compat, secs, g[1], g[2], g[3], g[4], g[5], g[6]) : compat \in {7, 34}, secs \in SecOrders,
                         g \in { <<FALSE, TRUE, 0, 0, 0, 0>>, <<TRUE, FALSE, 4, 3, 204, 9>>,
                                  <<TRUE, TRUE, 8, 1, 255, 0>>, <<FALSE, FALSE, 3, 5, 170, 2>> } })
    [] c = "cgfx" ->
         IF Quick THEN << CgfxP(1, FALSE, FALSE, 0, 0, 0), CgfxP(2, TRUE, TRUE, 4, 204, 4), CgfxP(3, TRUE, FALSE, 3, 255, 0) >>
         ELSE SetToSeq({ CgfxP(ord, decoy, rev, g[1], g[2], g[3]) : ord \in 1..3, decoy \in BOOLEAN, rev \in BOOLEAN,
                         g \in { <<0, 0, 0>>, <<4, 204, 6>>, <<3, 255, 0>> } })
    [] c = "tpl" ->
         IF Quick THEN << TplCanonP, TplP(2, TRUE, 5, 204, 3), TplP(3, FALSE, 3, 255, 0) >>
         ELSE SetToSeq({ TplP(ord, rev, g[1], g[2], g[3]) : ord \in 1..3, rev \in BOOLEAN,
                         g \in { <<0, 0, 0>>, <<5, 204, 8>>, <<32, 170, 0>> } })
NLists(c) == IF c = "tpl" THEN NTpl ELSE N3DS
ListAt(c, vi) == IF c = "tpl" THEN ListTpl(vi) ELSE List3DS(c, vi)
IsBig(c, vi) == vi \in (IF c = "tpl" THEN BigTpl ELSE Big3DS)

\* (the lists with a 64 KiB payload get the first and then every 8th placement)
Cases == UNION { UNION { { <<c, vi, pi>> : pi \in { q \in 1..Len(Placements(c)) : ~IsBig(c, vi) \/ q % 8 = 1 } }
                         : vi \in 1..NLists(c) }
                 : c \in Containers }
CaseSeq == SetToSeq(Cases)
NBuckets == 24

VARIABLE k
Init == k = <<"root">>
Next == \/ k = <<"root">> /\ k' \in { <<"bucket", q>> : q \in 0..(NBuckets - 1) }
        \/ k[1] = "bucket" /\ LET cs == CaseSeq IN k' \in { cs[j] : j \in { q \in 1..Len(cs) : q % NBuckets = k[2] } }
Spec == Init /\ [][Next]_k
IsCase == k[1] \in Containers

\* ------------------------------------------------------------------ laws
Damaged(f, at, x) == [f EXCEPT ![at] = IF f[at] >= x THEN f[at] - x ELSE f[at] + x]
\* prefix lengths on which the reference reader is evaluated: all of them for files up to 4 KiB;
\* for the 64 KiB files the first KiB, every 61st length and 64 lengths either side of every payload
\* boundary (well-formedness of a prefix is monotone in its length; mila itself is run on EVERY prefix)
PrefixSample(ext) ==
  LET m == MinOk(ext) IN
  IF m <= 4096 THEN 0..(m - 1)
  ELSE { n \in 0..(m - 1) : \/ n < 1024 \/ n % 61 = 0
                             \/ \E i \in 1..Len(ext) : \E e \in {ext[i][1], ext[i][2]} : n >= e - 64 /\ n <= e + 64 }
Law(c, v, p) ==
  LET f   == File(c, v, p)
      ext == Extents(c, v, p)
  IN /\ ValueOK(c, v) /\ PlacementOK(c, v, p)
     /\ \A j \in 1..Len(f) : f[j] \in 0..255
     /\ WellFormed(c, f)
     /\ RefRead(c, f) = Stored(c, v)
     /\ Len(ext) = Len(v)
     /\ \A i \in 1..Len(v) :
          /\ ext[i][1] >= 0 /\ ext[i][2] <= Len(f) /\ ext[i][2] - ext[i][1] = Len(v[i].payload)
          /\ Slice(f, ext[i][1], Len(v[i].payload)) = v[i].payload
     /\ Disjoint(ext)
     /\ c = "tpl" => LET pe == TplPalExtents(v, p) IN
                     /\ \A i \in 1..Len(v) : Slice(f, pe[i][1], Len(v[i].pal)) = v[i].pal
                     /\ Disjoint(ext \o pe)
     \* the expected image of a palette texture does not depend on its padding texels
     /\ c = "tpl" => \A i \in 1..Len(v) :
                       (v[i].w % 8 # 0 \/ v[i].h % 4 # 0) =>
                         CI8Srcs(v[i].w, v[i].h, v[i].payload, v[i].pal)
                           = CI8Srcs(v[i].w, v[i].h, [q \in 1..Len(v[i].payload) |->
                                        IF CI8InCrop(v[i].w, v[i].h, q - 1) THEN v[i].payload[q] ELSE 0], v[i].pal)
     /\ MinOk(ext) <= Len(f)
     \* the reference reader rejects every prefix that cuts a payload ...
     /\ \A n \in PrefixSample(ext) : ~WellFormedN(c, f, n)
     \* ... and every damaged magic number
     /\ ChecksMagic(c) => \A at \in 1..4 : \A x \in {1, 128} : ~WellFormed(c, Damaged(f, at, x))
     \* the canonical placement is one of the layouts
     /\ (c = "ctpk" /\ p = CtpkCanonP) => f = CtpkCanon(v)
LawInv == IsCase => Law(k[1], ListAt(k[1], k[2]), Placements(k[1])[k[3]])

\* ------------------------------------------------------------------ generator
Emit ==
  IsCase =>
    LET c == k[1]
        v == ListAt(c, k[2])
        p == Placements(c)[k[3]]
        f == File(c, v, p)
        ext == Extents(c, v, p)
    IN PrintT("G " \o ToJson([id |-> k, c |-> c, v |-> v, p |-> p, file |-> f,
                             exp |-> [i \in 1..Len(v) |-> [name |-> IF c = "tpl" THEN <<>> ELSE v[i].name,
                                                           w |-> v[i].w, h |-> v[i].h]],
                             ext |-> ext, min_ok |-> MinOk(ext), magic |-> ChecksMagic(c),
                             \* coverage of the model (vacuity guards read by the check): a texture with a
                             \* smaller payload than its predecessor ends the file; most texels of a texture
                             shrink_eof |-> \E i \in 2..Len(v) : Len(v[i].payload) < Len(v[i - 1].payload) /\ ext[i][2] = Len(f),
                             max_texels |-> IF Len(v) = 0 THEN 0 ELSE MaxOf({ v[i].w * v[i].h : i \in 1..Len(v) }),
                             \* padding texels of palette images that are no valid palette index
                             pad_bad |-> IF c # "tpl" THEN 0
                                         ELSE SumTo([i \in 1..Len(v) |->
                                                Cardinality({ q \in 1..Len(v[i].payload) :
                                                  ~CI8InCrop(v[i].w, v[i].h, q - 1) /\ 2 * v[i].payload[q] + 2 > Len(v[i].pal) })], Len(v)),
                             \* block-alignment classes <<width aligned, height aligned>> of the palette images
                             align |-> IF c # "tpl" THEN <<>>
                                       ELSE SetToSeq({ AlignClass(v[i].w, v[i].h) : i \in 1..Len(v) }),
                             reject_by |-> SetToSeq({ r \in Containers \ {c} : ChecksMagic(r) /\ ~MagicOK(r, f) })]))
=============================================================================
