----------------------------- MODULE BinFormat -----------------------------
(* The bin archive FILE FORMAT (properties C01, C02, C05 and, as the container of
   text archives / arcs / aset / asset binaries, C06 and C16-C18).

   Archive content (what the public API shows; also the JSON projection used by
   the conformance harness):
     [endian |-> "le" | "be",
      data   |-> byte sequence,
      text   |-> sequence of <<addr, string>>      sorted by addr   (string cells)
      ptrs   |-> sequence of <<addr, target>>      sorted by addr   (pointer cells)
      labels |-> sequence of <<addr, <<name,...>>>> sorted by addr  (per-address order is content)
      cstr   |-> sequence of <<addr, string>>      sorted by addr   (pending c-strings)]
   strings and names are NUL-free byte sequences (Shift-JIS encoded).

   File layout: 0x20-byte header (file size, data size, pointer count, label
   count, 16 zero bytes), data region (c-string pool at its end), pointer table
   (addresses of pointer cells), label table (address, name offset), text
   section (NUL-terminated).  A pointer cell whose value exceeds the data size
   refers to the string at that offset from the start of the data region.  *)
EXTENDS Bytes, TLC

Err == [ok |-> FALSE]
OkC(c) == [ok |-> TRUE, c |-> c]

\* ------------------------------------------------------------------ small sequence helpers
RECURSIVE DistinctAcc(_, _, _)
DistinctAcc(s, i, acc) ==
  IF i > Len(s) THEN acc
  ELSE IF \E j \in 1..Len(acc) : acc[j] = s[i] THEN DistinctAcc(s, i + 1, acc)
       ELSE DistinctAcc(s, i + 1, Append(acc, s[i]))
\* distinct elements in order of first occurrence
Distinct(s) == DistinctAcc(s, 1, <<>>)

ByAddr(s) == SortSeq(s, LAMBDA x, y : x[1] < y[1])
Firsts(s) == [i \in 1..Len(s) |-> s[i][1]]
Seconds(s) == [i \in 1..Len(s) |-> s[i][2]]

\* offsets of NUL-terminated strings laid out back to back
RECURSIVE OffsetsAcc(_, _, _, _)
OffsetsAcc(strs, i, off, acc) ==
  IF i > Len(strs) THEN acc
  ELSE OffsetsAcc(strs, i + 1, off + Len(strs[i]) + 1, Append(acc, off))
Offsets(strs) == OffsetsAcc(strs, 1, 0, <<>>)
ZBytes(strs) == FlattenSeq([i \in 1..Len(strs) |-> strs[i] \o <<0>>])

FirstIdx(strs, s) == CHOOSE j \in 1..Len(strs) : strs[j] = s /\ \A k \in 1..(j - 1) : strs[k] # s
LastIdx(strs, s) == CHOOSE j \in 1..Len(strs) : strs[j] = s /\ \A k \in (j + 1)..Len(strs) : strs[k] # s

\* ------------------------------------------------------------------ c-string pool
\* distinct pending c-strings sorted by encoded bytes, NUL-terminated, zero-padded to 4
PoolStrings(c) == SortSeq(Distinct(Seconds(c.cstr)), LexLess)
PoolBytes(c) == PadTo(ZBytes(PoolStrings(c)), 4)
PoolOffset(c, s) == LET ps == PoolStrings(c) IN Offsets(ps)[FirstIdx(ps, s)]
\* the pointer cells that pending c-strings become in the file
CStrPtrs(c) == [i \in 1..Len(c.cstr) |-> <<c.cstr[i][1], Len(c.data) + PoolOffset(c, c.cstr[i][2])>>]
Internal(c) == ByAddr(c.ptrs \o CStrPtrs(c))

\* ------------------------------------------------------------------ label table order
LabelEntriesOf(buckets) ==
  FlattenSeq([i \in 1..Len(buckets) |->
                [j \in 1..Len(buckets[i][2]) |-> <<buckets[i][1], buckets[i][2][j]>>]])

RECURSIVE NameVecLessFrom(_, _, _)
NameVecLessFrom(a, b, i) ==
  IF i > Len(a) THEN i <= Len(b)
  ELSE IF i > Len(b) THEN FALSE
  ELSE IF LexLess(a[i], b[i]) THEN TRUE
  ELSE IF LexLess(b[i], a[i]) THEN FALSE
  ELSE NameVecLessFrom(a, b, i + 1)
NameVecLess(a, b) == NameVecLessFrom(a, b, 1)

\* little-endian: by address; big-endian: whole per-address buckets ordered by name
CanonBuckets(c) ==
  IF c.endian = "be" THEN SortSeq(c.labels, LAMBDA x, y : NameVecLess(x[2], y[2])) ELSE c.labels
\* every reading of "by name" agrees when the first names are pairwise distinct and ASCII
BEOrderDetermined(c) ==
  /\ \A i, j \in 1..Len(c.labels) : i # j => c.labels[i][2][1] # c.labels[j][2][1]
  /\ \A i \in 1..Len(c.labels) : IsAscii(c.labels[i][2][1])

\* ------------------------------------------------------------------ the general image builder
(* ptable   : sequence of addr               every pointer cell (internal, c-string and string cells) in
                                             pointer-table order
   lentries : sequence of <<addr, name>>     label table
   tseq     : the strings laid out in the text section; every referenced string occurs at least once
   mode     : "first" | "last" | "alt"       which occurrence a reference points at ("alt": references
                                             alternate between the first and the last copy)               *)
Image(c, ptable, lentries, tseq, mode) ==
  LET e      == c.endian
      size   == Len(c.data)
      pool   == PoolBytes(c)
      internal == Internal(c)
      ds     == size + Len(pool)
      pc     == Len(ptable)
      lc     == Len(lentries)
      tstart == ds + 4 * pc + 8 * lc
      toffs  == Offsets(tseq)
      \* string -> offset of its first / last occurrence in the text section
      firstOff == FoldLeft(LAMBDA m, j : IF tseq[j] \in DOMAIN m THEN m ELSE m @@ (tseq[j] :> toffs[j]),
                           <<>>, [j \in 1..Len(tseq) |-> j])
      lastOff  == FoldLeft(LAMBDA m, j : (tseq[j] :> toffs[j]) @@ m, <<>>, [j \in 1..Len(tseq) |-> j])
      Pick(s, r) == IF mode = "first" \/ (mode = "alt" /\ r % 2 = 0) THEN firstOff[s] ELSE lastOff[s]
      patches == [i \in 1..Len(internal) |-> <<internal[i][1], U32(internal[i][2], e)>>]
                 \o [i \in 1..Len(c.text) |-> <<c.text[i][1], U32(tstart + Pick(c.text[i][2], lc + i), e)>>]
      paddrs  == { patches[i][1] : i \in 1..Len(patches) }
      pval    == FoldLeft(LAMBDA m, p : m @@ (p[1] :> p[2]), <<>>, patches)
      data2   == [i \in 1..size |->
                    LET k == i - 1
                        cands == { a \in {k - 3, k - 2, k - 1, k} : a \in paddrs }
                    IN IF cands = {} THEN c.data[i]
                       ELSE LET a == CHOOSE a \in cands : TRUE IN pval[a][k - a + 1]]
      ptab    == FlattenSeq([i \in 1..pc |-> U32(ptable[i], e)])
      ltab    == FlattenSeq([i \in 1..lc |-> U32(lentries[i][1], e) \o U32(Pick(lentries[i][2], i), e)])
      tbytes  == ZBytes(tseq)
      fsize   == 32 + ds + 4 * pc + 8 * lc + Len(tbytes)
  IN U32(fsize, e) \o U32(ds, e) \o U32(pc, e) \o U32(lc, e) \o Zeros(16)
     \o data2 \o pool \o ptab \o ltab \o tbytes

\* ------------------------------------------------------------------ the canonical image (C02)
\* string pointers grouped by string in order of first use, ascending inside a group
CanonStrCells(c) ==
  LET strs == Distinct(Seconds(c.text))
      idx  == [i \in 1..Len(c.text) |-> i]
  IN FlattenSeq([g \in 1..Len(strs) |->
        LET sel == SelectSeq(idx, LAMBDA i : c.text[i][2] = strs[g])
        IN [k \in 1..Len(sel) |-> c.text[sel[k]][1]]])

\* internal pointers by ascending address, then the string pointers
CanonPtrTable(c) == Firsts(Internal(c)) \o CanonStrCells(c)

\* text section: label names in table order, then strings in first-use order, each distinct string once
CanonTextSeq(c, lentries) == Distinct(Seconds(lentries) \o Seconds(c.text))

CanonLabelEntries(c) == LabelEntriesOf(CanonBuckets(c))

Canon(c) ==
  LET le == CanonLabelEntries(c)
  IN Image(c, CanonPtrTable(c), le, CanonTextSeq(c, le), "first")

\* ------------------------------------------------------------------ every conforming layout of the same content (C01)
Perms(s) == { [i \in 1..Len(s) |-> s[p[i]]] : p \in Permutations(1..Len(s)) }
\* label tables: any interleaving that keeps the per-address order
LabelTables(c) ==
  LET le == LabelEntriesOf(c.labels)
  IN { [i \in 1..Len(le) |-> le[p[i]]] :
         p \in { q \in Permutations(1..Len(le)) :
                   \A i, j \in 1..Len(le) : (i < j /\ le[q[i]][1] = le[q[j]][1]) => q[i] < q[j] } }
Reverse2(s) == [i \in 1..Len(s) |-> s[Len(s) + 1 - i]]
\* text sections: canonical, reversed, duplicated (references to the second copy, or alternating), and a
\* "colliding" arrangement: strings, an unreferenced filler, then the label names, with the filler sized so that
\* the first name's offset (relative to the text section) is numerically equal to the first string's pointer
\* value (relative to the data region) - the two coordinate systems must not be confused
TextVariants(c, le) ==
  LET t == CanonTextSeq(c, le)
      strs == Distinct(Seconds(c.text))
      names == Distinct(Seconds(le))
      tstart == Len(c.data) + Len(PoolBytes(c)) + 4 * (Len(Internal(c)) + Len(c.text)) + 8 * Len(le)
      fillLen == tstart - Len(ZBytes(strs)) - 1
      collide == IF Len(strs) > 0 /\ Len(names) > 0 /\ fillLen >= 0
                 THEN { << strs \o << [i \in 1..fillLen |-> 90] >> \o names, "last" >> } ELSE {}
  IN { <<t, "first">>, <<Reverse2(t), "first">>, <<t \o t, "last">>, <<t \o Reverse2(t), "alt">> } \cup collide
Layouts(c) ==
  UNION { { Image(c, pt, le, tv[1], tv[2]) : pt \in Perms(CanonPtrTable(c)), tv \in TextVariants(c, le) }
          : le \in LabelTables(c) }

\* ------------------------------------------------------------------ what a parse of serialize(c) must show (C01)
\* the data region grows by the pool; pending c-strings have become pointers into it
Reparsed(c) ==
  [endian |-> c.endian, data |-> c.data \o PoolBytes(c), text |-> c.text,
   ptrs |-> Internal(c), labels |-> c.labels, cstr |-> <<>>]

\* raw bytes are compared only where the cell holds no pointer of any kind
InCell(s, k) == \E i \in 1..Len(s) : s[i][1] <= k /\ k < s[i][1] + 4
Annotated(c, k) == InCell(c.text, k) \/ InCell(c.ptrs, k) \/ InCell(c.cstr, k)
SameContent(x, y) ==
  /\ x.endian = y.endian
  /\ Len(x.data) = Len(y.data)
  /\ x.text = y.text /\ x.ptrs = y.ptrs /\ x.labels = y.labels
  /\ \A i \in 1..Len(x.data) : Annotated(x, i - 1) \/ x.data[i] = y.data[i]

\* ------------------------------------------------------------------ reference parser (total)
HeaderOK(f, e) ==
  /\ Len(f) >= 32
  /\ LET ds == Rd32(f, 4, e)  pc == Rd32(f, 8, e)  lc == Rd32(f, 12, e)
     IN /\ ds # Huge /\ pc # Huge /\ lc # Huge
        \* no overflow: every term is bounded by the (small) file length before it is added
        /\ ds <= Len(f) /\ pc <= Len(f) /\ lc <= Len(f)
        /\ 32 + ds + 4 * pc + 8 * lc <= Len(f)

\* every string a table entry refers to (string pointers, label names) is terminated inside the buffer
StringsInside(f, e) ==
  LET ds == Rd32(f, 4, e)  pc == Rd32(f, 8, e)  lc == Rd32(f, 12, e)
      ptoff == 32 + ds  ltoff == ptoff + 4 * pc  tstart == ltoff + 8 * lc
  IN /\ \A i \in 1..pc :
          LET pa == Rd32(f, ptoff + 4 * (i - 1), e) IN
          (pa # Huge /\ pa <= ds /\ pa + 4 <= ds) =>
             LET pv == Rd32(f, 32 + pa, e) IN (pv = Huge \/ pv > ds) => (pv # Huge /\ pv <= Len(f) /\ Terminated(f, pv + 32))
     /\ \A i \in 1..lc :
          LET lo == Rd32(f, ltoff + 8 * (i - 1) + 4, e) IN lo # Huge /\ lo <= Len(f) /\ Terminated(f, tstart + lo)

\* a header that declares more data, pointers or labels than the buffer holds, or a table entry whose string runs
\* past the end of the buffer, MUST be rejected (C05)
MustReject(f, e) == ~HeaderOK(f, e) \/ ~StringsInside(f, e)

RefParse(f, e) ==
  IF ~HeaderOK(f, e) THEN Err
  ELSE
  LET ds == Rd32(f, 4, e)  pc == Rd32(f, 8, e)  lc == Rd32(f, 12, e)
      data   == SubSeq(f, 33, 32 + ds)
      ptoff  == 32 + ds
      ltoff  == ptoff + 4 * pc
      tstart == ltoff + 8 * lc
      PAddr(i) == Rd32(f, ptoff + 4 * (i - 1), e)
      PVal(i)  == Rd32(data, PAddr(i), e)
      PtrOK(i) == /\ PAddr(i) # Huge /\ PAddr(i) <= ds /\ PAddr(i) + 4 <= ds
                  /\ (PVal(i) = Huge \/ PVal(i) > ds) => (PVal(i) # Huge /\ PVal(i) <= Len(f) /\ Terminated(f, PVal(i) + 32))
      IsStr(i) == PVal(i) > ds
      LAddr(i) == Rd32(f, ltoff + 8 * (i - 1), e)
      LOff(i)  == Rd32(f, ltoff + 8 * (i - 1) + 4, e)
      LblOK(i) == /\ LAddr(i) # Huge /\ LAddr(i) <= ds
                  /\ LOff(i) # Huge /\ LOff(i) <= Len(f) /\ Terminated(f, tstart + LOff(i))
  IN IF ~(\A i \in 1..pc : PtrOK(i)) \/ ~(\A i \in 1..lc : LblOK(i)) THEN Err
     ELSE
     LET strIdx == SelectSeq([i \in 1..pc |-> i], IsStr)
         ptrIdx == SelectSeq([i \in 1..pc |-> i], LAMBDA i : ~IsStr(i))
         text   == ByAddr([k \in 1..Len(strIdx) |-> <<PAddr(strIdx[k]), CStrAt(f, PVal(strIdx[k]) + 32)>>])
         ptrs   == ByAddr([k \in 1..Len(ptrIdx) |-> <<PAddr(ptrIdx[k]), PVal(ptrIdx[k])>>])
         laddrs == SortSeq(Distinct([i \in 1..lc |-> LAddr(i)]), LAMBDA x, y : x < y)
         NamesAt(a) == LET idx == SelectSeq([i \in 1..lc |-> i], LAMBDA i : LAddr(i) = a)
                       IN [k \in 1..Len(idx) |-> CStrAt(f, tstart + LOff(idx[k]))]
         labels == [k \in 1..Len(laddrs) |-> <<laddrs[k], NamesAt(laddrs[k])>>]
     IN OkC([endian |-> e, data |-> data, text |-> text, ptrs |-> ptrs, labels |-> labels, cstr |-> <<>>])

\* ------------------------------------------------------------------ well-formedness of an image of content c (C01)
WellFormedFor(f, c) ==
  LET e == c.endian IN
  /\ HeaderOK(f, e)
  /\ Rd32(f, 0, e) = Len(f)                                   \* file-size field exact
  /\ RefParse(f, e).ok                                         \* every table entry and string inside the file
  /\ LET ds == Rd32(f, 4, e) pc == Rd32(f, 8, e) lc == Rd32(f, 12, e) IN
       /\ ds = Len(c.data) + Len(PoolBytes(c))                 \* c-string pool included
       /\ pc = Len(c.ptrs) + Len(c.cstr) + Len(c.text)
       /\ lc = Len(LabelEntriesOf(c.labels))
       /\ (Len(c.data) % 4 = 0) => (ds % 4 = 0)                \* tables word-aligned whenever the data is

\* ------------------------------------------------------------------ domain of the properties
\* (a cell is any 4 bytes inside the data: the public API takes every byte address; annotated cells do not overlap)
CellOK(c, a) == a >= 0 /\ a + 4 <= Len(c.data)
ValidContent(c) ==
  /\ \A i \in 1..Len(c.text) : CellOK(c, c.text[i][1])
  /\ \A i \in 1..Len(c.ptrs) : CellOK(c, c.ptrs[i][1]) /\ c.ptrs[i][2] <= Len(c.data)
  /\ \A i \in 1..Len(c.cstr) : CellOK(c, c.cstr[i][1])
  /\ \A i \in 1..Len(c.labels) : c.labels[i][1] <= Len(c.data) /\ Len(c.labels[i][2]) > 0
  \* at most one of pointer / string / c-string per cell
  /\ LET all == Firsts(c.text) \o Firsts(c.ptrs) \o Firsts(c.cstr)
     IN \A i, j \in 1..Len(all) : i # j => (all[i] >= all[j] + 4 \/ all[j] >= all[i] + 4)
=============================================================================
