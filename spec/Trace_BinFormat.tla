-------------------------- MODULE Trace_BinFormat --------------------------
(* impl -> spec for C01 / C02.  Each event carries an archive content built
   through mila's API, the bytes mila serialized, and what mila parsed back
   (or a file from disk with what mila parsed from it).  TLC is the independent
   reference reader/writer: it decides well-formedness, re-parses the bytes
   itself and compares with the canonical image.  bad collects <<index, clause>>. *)
EXTENDS BinFormat, Json, IOUtils

Rec == ndJsonDeserialize(IOEnv.TRACE)

VARIABLES i, bad, ncanon
vars == <<i, bad, ncanon>>

NoCStr(c) == Len(c.cstr) = 0
Exact(c) == NoCStr(c) /\ (c.endian = "le" \/ BEOrderDetermined(c))

\* first failing clause of an API-built image, 0 if none
ImageClause(ev) ==
  LET c == ev.content  f == ev.bytes IN
  IF ~ValidContent(c) THEN 9
  ELSE IF ~WellFormedFor(f, c) THEN 1
  ELSE LET r == RefParse(f, c.endian) IN
       IF ~r.ok THEN 2
       ELSE IF ~SameContent(r.c, Reparsed(c)) THEN 3
       ELSE IF ~SameContent(ev.reparsed, Reparsed(c)) THEN 4
       ELSE IF ev.cstr_read # c.cstr THEN 5
       ELSE IF Exact(c) /\ f # Canon(c) THEN 6
       ELSE IF Exact(c) /\ ~ev.stable THEN 7
       ELSE 0

\* a file from disk: mila's parse must agree with the reference parser; a canonical file re-serializes to itself
FileClause(ev) ==
  LET c == ev.content  f == ev.bytes  r == RefParse(f, c.endian) IN
  IF ~r.ok THEN 2
  ELSE IF ~(r.c = c) THEN 4
  ELSE IF f = Canon(c) /\ ~ev.reserialized_equal THEN 7
  ELSE 0
IsCanonicalFile(ev) == ev.op = "file" /\ RefParse(ev.bytes, ev.content.endian).ok /\ ev.bytes = Canon(ev.content)

\* a large archive built by rule: the header totals must be the rule's numbers, mila's own re-parse must show the
\* built content (compared in the harness) and re-serializing it must reproduce the image
BigClause(ev) ==
  LET h == ev.head  e == ev.endian IN
  IF Len(h) < 32 THEN 1
  ELSE IF Rd32(h, 0, e) # ev.len \/ Rd32(h, 4, e) # ev.size \/ Rd32(h, 8, e) # ev.n_text + ev.n_ptrs
          \/ Rd32(h, 12, e) # ev.n_label_names THEN 1
  ELSE IF ~ev.reparsed_equal THEN 4
  ELSE IF ~ev.stable THEN 7
  ELSE 0

Clause(ev) == CASE ev.op = "image" -> ImageClause(ev)
                [] ev.op = "big"   -> BigClause(ev)
                [] ev.op = "file"  -> FileClause(ev)
                [] OTHER           -> 8          \* mila failed to serialize / parse its own archive

\* the canonical-image clauses (C02) are decided on their own as well: an image that already fails a structural clause
\* (C01) is still examined for "is exactly Canon(content)" and "parse + re-serialize reproduces it"
CanonClause(ev) ==
  CASE ev.op = "image" -> LET c == ev.content IN
                           IF ~ValidContent(c) \/ ~Exact(c) THEN 0
                           ELSE IF ev.bytes # Canon(c) THEN 6 ELSE IF ~ev.stable THEN 7 ELSE 0
    [] ev.op = "big"   -> IF ~ev.stable THEN 7 ELSE 0
    [] OTHER           -> 0

Init == i = 1 /\ bad = <<>> /\ ncanon = 0
Next ==
  /\ i <= Len(Rec)
  /\ LET k == Clause(Rec[i])  k2 == CanonClause(Rec[i]) IN
       /\ bad' = (IF k = 0 THEN bad ELSE Append(bad, <<i, k>>)) \o (IF k2 = 0 \/ k2 = k THEN <<>> ELSE << <<i, k2>> >>)
       /\ ncanon' = IF IsCanonicalFile(Rec[i]) THEN ncanon + 1 ELSE ncanon
       /\ i' = i + 1
Spec == Init /\ [][Next]_vars

Report == (i = Len(Rec) + 1) => PrintT("R " \o ToJson([n |-> Len(Rec), bad |-> bad, canonical_files |-> ncanon]))
=============================================================================
