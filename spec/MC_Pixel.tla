----------------------------- MODULE MC_Pixel -----------------------------
(* C19, plain formats / tile order / tolerance / GameCube palette images:
     MC_Pixel.cfg   laws of the reference semantics, exhaustive over the listed sizes
     Gen_Pixel.cfg  generator: (T) container templates into which the recorder puts
                    its payloads (single-texture canonical CTPK / single-image TPL from
                    TexContainers), (G) small cases with payload and the lowest /
                    highest allowed output bytes for replay against mila.  *)
EXTENDS TexContainers, TLC, Json, IOUtils

Tier == IF "VERIF_TIER" \in DOMAIN IOEnv THEN IOEnv.VERIF_TIER ELSE "quick"

Pow2 == {8, 16, 32, 64, 128}
AllPairs == Pow2 \X Pow2
\* The recorder gets a template for every size (position payloads); nrand = number of
\* random payloads (and of byte-lane sets) it adds for that size
QuickPairs == { <<8, 8>>, <<16, 8>>, <<8, 16>>, <<32, 16>>, <<16, 64>>, <<64, 32>>, <<128, 8>>, <<8, 128>>, <<128, 128>> }
TexPairs == AllPairs
NRand(p) == IF p[1] * p[2] >= 65536 THEN 1
            ELSE IF Tier = "quick" THEN (IF p \in QuickPairs THEN 1 ELSE 0) ELSE 5
NRandPal == IF Tier = "quick" THEN 1 ELSE 4
PalSides == (1..16) \cup {17, 31, 32, 33, 63, 64}
QuickPalSides == {1, 2, 3, 4, 5, 7, 8, 9, 12, 16, 17, 33, 64}
TplSides == IF Tier = "quick" THEN QuickPalSides ELSE PalSides

VARIABLE c
Init == c = <<"root">>

\* ------------------------------------------------------------------ laws
LawCases ==
  {<<"morton">>, <<"expand">>, <<"rgb5a3">>}
  \cup { <<"tile", p[1], p[2]>> : p \in AllPairs }
  \cup { <<"etcblk", p[1], p[2]>> : p \in AllPairs }
  \cup { <<"near", k>> : k \in {1, 3, 4, 5, 6, 8} }
  \cup { <<"ci8", w, h>> : w \in PalSides, h \in {1, 3, 4, 5, 8, 9, 16, 17, 33, 64} }
  \cup { <<"size", f>> : f \in Formats3DS }

Law(k) ==
  CASE k[1] = "root" -> TRUE
    [] k[1] = "morton" ->
         /\ Len(TileTable) = 64
         /\ \A i \in 0..63 :
              /\ MortonX(i) \in 0..7 /\ MortonY(i) \in 0..7
              /\ TileTable[i + 1] = 8 * MortonY(i) + MortonX(i)
              /\ ZInterleave(MortonX(i), MortonY(i)) = i
         /\ \A x, y \in 0..7 : Morton(ZInterleave(x, y)) = <<x, y>>
    [] k[1] = "tile" ->
         \* bijection of the w x h texels onto 0 .. w*h-1, tiles row-major, table order inside
         LET w == k[2]  h == k[3] IN
         /\ { TileIndex(w, x, y) : x \in 0..(w - 1), y \in 0..(h - 1) } = 0..(w * h - 1)
         /\ \A ty \in 0..(h \div 8 - 1), tx \in 0..(w \div 8 - 1), i \in 0..63 :
              TileIndex(w, 8 * tx + (TileTable[i + 1] % 8), 8 * ty + (TileTable[i + 1] \div 8))
                = 64 * (ty * (w \div 8) + tx) + i
    [] k[1] = "etcblk" ->
         LET w == k[2]  h == k[3] IN
         /\ { EtcBlockIndex(w, x, y) : x \in 0..(w - 1), y \in 0..(h - 1) } = 0..((w \div 4) * (h \div 4) - 1)
         /\ \A x \in 0..(w - 1), y \in 0..(h - 1) :
              EtcBlockIndex(w, x, y) = EtcBlockIndex(w, 4 * (x \div 4), 4 * (y \div 4))
         \* inside an 8x8 tile: (0,0) (1,0) (0,1) (1,1)
         /\ <<EtcBlockIndex(w, 0, 0), EtcBlockIndex(w, 4, 0), EtcBlockIndex(w, 0, 4), EtcBlockIndex(w, 4, 4)>> = <<0, 1, 2, 3>>
         /\ EtcPayloadSize(w, h, FALSE) * 2 = w * h /\ EtcPayloadSize(w, h, TRUE) = w * h
    [] k[1] = "near" ->
         LET n == k[2]  m == 2 ^ n - 1 IN
         \A v \in 0..m :
           /\ { o \in 0..255 : Near(o, v, n) } = NearLo(v, n)..NearHi(v, n)
           /\ NearLo(v, n) <= NearHi(v, n)
           \* the rounded linear expansion is always allowed
           /\ Near((255 * v + (m \div 2)) \div m, v, n)
           \* so is the truncated one, and the end points are fixed unless n = 1
           /\ Near((255 * v) \div m, v, n)
           /\ (n >= 8 => NearHi(v, n) - NearLo(v, n) <= 2)
    [] k[1] = "expand" ->
         /\ \A q \in 0..31 : Expand5(q) \in 0..255 /\ Near(Expand5(q), q, 5)
         /\ \A q \in 0..15 : Expand4(q) \in 0..255 /\ Near(Expand4(q), q, 4)
         /\ Expand5(31) = 255 /\ Expand4(15) = 255 /\ Expand5(0) = 0
         /\ { SExt3(d) : d \in 0..7 } = (0 - 4)..3
         /\ \A d \in 0..7 : (SExt3(d) - d) % 8 = 0
    [] k[1] = "rgb5a3" ->
         \A v \in 0..65535 :
           LET s == Rgb5a3Src(v) IN
           /\ \A q \in 1..4 : SrcLo(s[q]) <= SrcHi(s[q]) /\ SrcLo(s[q]) \in 0..255 /\ SrcHi(s[q]) \in 0..255
           /\ (v >= 32768 <=> s[4] = Exact(255))
    [] k[1] = "ci8" ->
         LET w == k[2]  h == k[3]  aw == AlignUp(w, 8)  ah == AlignUp(h, 4) IN
         /\ aw % 8 = 0 /\ ah % 4 = 0 /\ aw - w \in 0..7 /\ ah - h \in 0..3
         /\ { CI8Index(w, x, y) : x \in 0..(aw - 1), y \in 0..(ah - 1) } = 0..(aw * ah - 1)
         /\ CI8PayloadSize(w, h) = aw * ah
         /\ \A x \in 0..(aw - 1), y \in 0..(ah - 1) : CI8InCrop(w, h, CI8Index(w, x, y)) <=> (x < w /\ y < h)
         \* blocks row-major, rows inside a block contiguous
         /\ \A x \in 0..(aw - 2), y \in 0..(ah - 1) :
              CI8Index(w, x + 1, y) - CI8Index(w, x, y) = (IF x % 8 = 7 THEN 25 ELSE 1)
    [] k[1] = "size" ->
         LET f == k[2] IN
         \A p \in AllPairs :
           IF f \in EtcFormats
           THEN PayloadSize(f, p[1], p[2]) = (EtcBlockIndex(p[1], p[1] - 1, p[2] - 1) + 1) * EtcBlockSize(f = ETC1A4)
           ELSE PayloadSize(f, p[1], p[2]) = (TileIndex(p[1], p[1] - 1, p[2] - 1) + 1) * BytesPerPixel(f)

LawNext == c = <<"root">> /\ c' \in LawCases
LawSpec == Init /\ [][LawNext]_c
LawInv == Law(c)

\* ------------------------------------------------------------------ generator
TName == <<116, 120>>     \* "tx"
\* a payload whose bytes depend on format and position (pseudo-random, full byte range)
PatByte(s, k) == (k * k * 7 + k * 131 + s * 29 + (((k \div 3) * 97) % 251)) % 256
PatPayload(fmt, w, h) == [k \in 1..PayloadSize(fmt, w, h) |-> PatByte(fmt + w + 3 * h, k)]
\* position payload: pixel i carries the value i (little-endian, truncated to the pixel size)
PosPayload(fmt, w, h) ==
  LET bpp == BytesPerPixel(fmt) IN
  [k \in 1..(w * h * bpp) |-> LET i == (k - 1) \div bpp  j == (k - 1) % bpp
                              IN IF j < 2 THEN (i \div (256 ^ j)) % 256 ELSE 0]

GenTexSizes == { <<8, 8>>, <<16, 8>>, <<8, 16>> } \cup (IF Tier = "quick" THEN {} ELSE { <<16, 16>>, <<32, 8>> })
GenPalSizes == { <<1, 1>>, <<3, 5>>, <<8, 4>>, <<9, 4>>, <<8, 5>>, <<17, 9>>, <<7, 2>> }
               \cup (IF Tier = "quick" THEN {} ELSE { <<16, 16>>, <<33, 3>>, <<2, 33>> })
NPal(w, h) == 1 + ((w * 5 + h * 3) % 40)
PalBytes(n, s) == [k \in 1..(2 * n) |-> PatByte(s, k + 500)]
\* texels outside the crop are "don't care": 0xFF / the first value that is no palette index / any byte
CI8Pad(w, h, n, k) == CASE (w + h) % 3 = 0 -> 255
                        [] (w + h) % 3 = 1 -> IF n < 256 THEN n ELSE 255
                        [] (w + h) % 3 = 2 -> PatByte(w * h, k + 77)
CI8Pat(w, h, n) == [k \in 1..CI8PayloadSize(w, h) |->
                      IF CI8InCrop(w, h, k - 1) THEN PatByte(w + h, k) % n ELSE CI8Pad(w, h, n, k)]
TplTex(w, h, payload, pal) == [name |-> <<>>, w |-> w, h |-> h, fmt |-> CI8, payload |-> payload, pal |-> pal]

\* palette sizes at the ends of the 8-bit index range, and payloads that use both ends of it
EdgePals == {1, 2, 255, 256}
EdgeIdx(n, j) == CASE j = 0 -> 0 [] j = 1 -> 1 % n [] j = 2 -> (2 * n - 2) % n [] j = 3 -> n - 1
\* the four left-most texels of every block row carry 0, 1, n-2, n-1, rotated per row
CI8Edge(w, h, n) == [k \in 1..CI8PayloadSize(w, h) |->
                       IF ~CI8InCrop(w, h, k - 1) THEN CI8Pad(w, h, n, k)
                       ELSE IF (k - 1) % 8 < 4 THEN EdgeIdx(n, (((k - 1) % 8) + ((k - 1) \div 8)) % 4)
                       ELSE PatByte(w + 3 * h, k) % n]
EdgeSizes == { <<4, 4>>, <<5, 3>>, <<9, 5>> }
CropIndices(w, h, b) == { b[CI8Index(w, x, y) + 1] : x \in 0..(w - 1), y \in 0..(h - 1) }

GenCases ==
  { <<"T-ctpk", f, p[1], p[2]>> : f \in Formats3DS, p \in TexPairs }
  \* the complete format x container matrix: every format also through BCH and CGFX
  \cup { <<"T-head", cc, f, p[1], p[2]>> : cc \in {"bch", "cgfx"}, f \in Formats3DS, p \in { <<8, 8>>, <<16, 8>>, <<64, 32>> } }
  \cup { <<"G-texc", cc, f, pat>> : cc \in {"bch", "cgfx"}, f \in PlainFormats, pat \in {"pat", "pos"} }
  \* w * h = 65 536: beyond 16 bits (8-bit formats keep the payload at 64 KiB)
  \cup { <<"T-ctpk", L8, 256, 256>>, <<"T-ctpk", A8, 512, 128>> }
  \cup { <<"T-tpl", w, h>> : w \in TplSides, h \in TplSides }
  \cup { <<"T-tple", p[1], p[2], n>> : p \in { <<4, 4>>, <<13, 6>> }, n \in EdgePals }
  \cup { <<"G-ci8e", p[1], p[2], n>> : p \in EdgeSizes, n \in EdgePals }
  \cup { <<"G-idx", n>> : n \in EdgePals }
  \cup { <<"G-tex", f, p[1], p[2], pat>> : f \in PlainFormats, p \in GenTexSizes, pat \in {"pat", "pos"} }
  \cup { <<"G-rgb5a3", s>> : s \in 0..(IF Tier = "quick" THEN 3 ELSE 15) }
  \cup { <<"G-ci8", p[1], p[2]>> : p \in GenPalSizes }

Emit ==
  CASE c[1] = "root" -> TRUE
    [] c[1] = "T-ctpk" ->
         PrintT("T " \o ToJson([kind |-> "ctpk", c |-> "ctpk", fmt |-> c[2], w |-> c[3], h |-> c[4], nrand |-> NRand(<<c[3], c[4]>>),
                               head |-> CtpkCanonHead(TName, c[2], c[3], c[4])]))
    [] c[1] = "T-head" ->
         /\ Assert(CanonPayloadLast(c[2], TName, c[3], c[4], c[5]), "payload is not the end of the canonical image")
         /\ PrintT("T " \o ToJson([kind |-> "ctpk", c |-> c[2], fmt |-> c[3], w |-> c[4], h |-> c[5], nrand |-> 1,
                                  head |-> CanonHead(c[2], TName, c[3], c[4], c[5])]))
    [] c[1] = "G-texc" ->
         LET cc == c[2]  f == c[3]  w == 16  h == 8
             b == IF c[4] = "pos" THEN PosPayload(f, w, h) ELSE PatPayload(f, w, h)
             srcs == ImageSrcs(f, w, h, b)
         IN PrintT("G " \o ToJson([api |-> "ctpk", c |-> cc, fmt |-> f, w |-> w, h |-> h, payload |-> b, pal |-> <<>>,
                                  file |-> CanonHead(cc, TName, f, w, h) \o b,
                                  lo |-> BoundOf(srcs, FALSE), hi |-> BoundOf(srcs, TRUE)]))
    [] c[1] = "T-tpl" ->
         \* single-image TPL with zeroed data; the recorder overwrites palette and image data
         LET w == c[2]  h == c[3]  n == 1 + ((w * 7 + h * 13) % 256)
             v == << TplTex(w, h, Fill(CI8PayloadSize(w, h), 0), Fill(2 * n, 0)) >>
         IN PrintT("T " \o ToJson([kind |-> "tpl", w |-> w, h |-> h, npal |-> n, nrand |-> NRandPal, file |-> TplCanon(v),
                                  pal_at |-> TplPalExtents(v, TplCanonP)[1][1],
                                  img_at |-> TplExtents(v, TplCanonP)[1][1],
                                  img_len |-> CI8PayloadSize(w, h),
                                  \* payload offsets inside the crop; the recorder fills the others adversarially
                                  crop |-> [q \in 1..(w * h) |-> CI8Index(w, (q - 1) % w, (q - 1) \div w)]]))
    [] c[1] = "T-tple" ->
         \* templates with 1, 2, 255, 256 palette entries; edge = the recorder puts the index range ends in
         LET w == c[2]  h == c[3]  n == c[4]
             v == << TplTex(w, h, Fill(CI8PayloadSize(w, h), 0), Fill(2 * n, 0)) >>
         IN PrintT("T " \o ToJson([kind |-> "tpl", w |-> w, h |-> h, npal |-> n, nrand |-> NRandPal + 1, file |-> TplCanon(v),
                                  pal_at |-> TplPalExtents(v, TplCanonP)[1][1],
                                  img_at |-> TplExtents(v, TplCanonP)[1][1],
                                  img_len |-> CI8PayloadSize(w, h),
                                  \* payload offsets inside the crop; the recorder fills the others adversarially
                                  crop |-> [q \in 1..(w * h) |-> CI8Index(w, (q - 1) % w, (q - 1) \div w)]]))
    [] c[1] = "G-ci8e" ->
         LET w == c[2]  h == c[3]  n == c[4]
             b == CI8Edge(w, h, n)  pal == PalBytes(n, w * h + n)
             srcs == CI8Srcs(w, h, b, pal)
         IN /\ Assert(CI8InDomain(w, h, b, pal), "generated palette image outside the domain")
            /\ Assert({ EdgeIdx(n, j) : j \in 0..3 } \subseteq CropIndices(w, h, b), "index range ends not inside the crop")
            /\ PrintT("G " \o ToJson([api |-> "tpl", fmt |-> CI8, w |-> w, h |-> h, payload |-> b, pal |-> pal,
                                     file |-> TplCanon(<< TplTex(w, h, b, pal) >>),
                                     lo |-> BoundOf(srcs, FALSE), hi |-> BoundOf(srcs, TRUE)]))
    [] c[1] = "G-idx" ->
         \* ColorFormat::decode_indexed: linear indices (both ends of the range first) and an RGBA palette;
         \* texel i is exactly palette entry idx[i]
         LET n == c[2]
             idx == [i \in 1..64 |-> IF i <= 8 THEN EdgeIdx(n, (i - 1) % 4) ELSE PatByte(n, i) % n]
             rgba == [q \in 1..(4 * n) |-> PatByte(n + 1, q + 900)]
             px == [q \in 1..256 |-> rgba[4 * idx[((q - 1) \div 4) + 1] + ((q - 1) % 4) + 1]]
         IN /\ Assert(IndexedOK(idx, rgba, px), "expected look-up inconsistent with IndexedOK")
            /\ PrintT("G " \o ToJson([api |-> "indexed", fmt |-> CI8, w |-> 64, h |-> 1, payload |-> idx, pal |-> rgba,
                                     file |-> <<>>, lo |-> px, hi |-> px]))
    [] c[1] = "G-tex" ->
         LET f == c[2]  w == c[3]  h == c[4]
             b == IF c[5] = "pos" THEN PosPayload(f, w, h) ELSE PatPayload(f, w, h)
             srcs == ImageSrcs(f, w, h, b)
         IN PrintT("G " \o ToJson([api |-> "ctpk", fmt |-> f, w |-> w, h |-> h, payload |-> b, pal |-> <<>>,
                                  file |-> CtpkCanonHead(TName, f, w, h) \o b,
                                  lo |-> BoundOf(srcs, FALSE), hi |-> BoundOf(srcs, TRUE)]))
    [] c[1] = "G-rgb5a3" ->
         \* 256 values per case, spread over the 16-bit range
         LET s == c[2]
             vals == [j \in 1..256 |-> (j * 257 + s * 4099 + (j % 2) * 32768) % 65536]
             b == Concat([j \in 1..256 |-> BE16(vals[j])])
             srcs == [j \in 1..256 |-> Rgb5a3Src(vals[j])]
         IN PrintT("G " \o ToJson([api |-> "rgb5a3", fmt |-> Rgb5a3Run, w |-> 256, h |-> 1, payload |-> b, pal |-> <<>>,
                                  file |-> <<>>, lo |-> BoundOf(srcs, FALSE), hi |-> BoundOf(srcs, TRUE)]))
    [] c[1] = "G-ci8" ->
         LET w == c[2]  h == c[3]  n == NPal(w, h)
             b == CI8Pat(w, h, n)  pal == PalBytes(n, w * h)
             srcs == CI8Srcs(w, h, b, pal)
         IN /\ Assert(CI8InDomain(w, h, b, pal), "generated palette image outside the domain")
            /\ PrintT("G " \o ToJson([api |-> "tpl", fmt |-> CI8, w |-> w, h |-> h, payload |-> b, pal |-> pal,
                                     file |-> TplCanon(<< TplTex(w, h, b, pal) >>),
                                     lo |-> BoundOf(srcs, FALSE), hi |-> BoundOf(srcs, TRUE)]))

GenNext == c = <<"root">> /\ c' \in GenCases
GenSpec == Init /\ [][GenNext]_c
=============================================================================
