------------------------------- MODULE MC_LZ -------------------------------
(* Exhaustive check of the LZ token model and decoder state machine at SCALED
   constants (LZ10s: W=6, lengths 3..5;  LZ11s: W=6, lengths 3..4 | 5..6 | 7..8
   in the 2/3/4-byte layouts), alphabet {a,b}, output <= MaxOut bytes.

   Phase "build": TLC enumerates every token sequence (AddTok).
   Phase "dec":   for every such sequence and every VARIANT of its stream (exact,
                  every truncation, trailing byte, wrong declared length, a
                  reference before the start of the output at every token position,
                  out-of-range reference, wrong type) the decoder state machine of
                  LZ.tla runs action by action.
   Checked: Decode(Encode(ts)) = Expand(ts) (closed-form copy = byte-by-byte copy),
   the decoder never indexes outside `out` or the stream (TLC would raise an
   evaluation error), every run terminates in exactly one terminal class and that
   class is the one the variant calls for.  *)
EXTENDS LZ, TLC, IOUtils

Tier == IF "VERIF_TIER" \in DOMAIN IOEnv THEN IOEnv.VERIF_TIER ELSE "quick"
MaxOut == IF Tier = "quick" THEN 7 ELSE 9
Fmts == {"lz10s", "lz11s"}
FOf(f) == IF f = "lz10s" THEN LZ10s ELSE LZ11s
Alphabet == {97, 98}

VARIABLES fmt, ph, ts, var, s, d
vars == <<fmt, ph, ts, var, s, d>>

Menu(F, m) == { Lit(b) : b \in Alphabet }
              \cup { Ref(l, dd) : l \in F.MinLen..F.MaxLen, dd \in 1..Min(m, F.W) }

V(v, x) == [var |-> v, s |-> x]
Prefix(t, i) == SubSeq(t, 1, i)

Variants(F, t) ==
  LET e == Encode(F, t)
      n == OutLen(t)
  IN {V("exact", e)}
     \cup { V("cut", Prefix(e, k)) : k \in 0..(Len(e) - 1) }
     \cup { V("trail", e \o <<b>>) : b \in {0, 255} }
     \cup { V("declplus", EncodeN(F, t, n + 1)) }
     \cup (IF n >= 1 THEN { V("declminus", EncodeN(F, t, n - 1)) } ELSE {})
     \cup { V("type", [e EXCEPT ![1] = 18]) }
     \cup { V("before", LET pre == Prefix(t, i) m == OutLen(pre) IN
                        EncodeN(F, Append(pre, Ref(F.MinLen, m + 1)), m + F.MinLen))
            : i \in { j \in 0..Len(t) : OutLen(Prefix(t, j)) + 1 <= F.W } }
     \cup { V("range", LET pre == Prefix(t, i) m == OutLen(pre) IN
                       EncodeN(F, Append(pre, Ref(F.MaxLen + 1, 1)), m + F.MaxLen + 1))
            : i \in 1..Len(t) }
     \cup { V("range", LET pre == Prefix(t, i) m == OutLen(pre) IN
                       EncodeN(F, Append(pre, Ref(F.MinLen, F.W + 1)), m + F.MinLen))
            : i \in { j \in 1..Len(t) : OutLen(Prefix(t, j)) > F.W } }

Init == fmt \in Fmts /\ ph = "build" /\ ts = <<>> /\ var = "" /\ s = <<>> /\ d = Dec0(0)

AddTok == /\ ph = "build"
          /\ \E t \in Menu(FOf(fmt), OutLen(ts)) :
                OutLen(ts) + t.len <= MaxOut /\ ts' = Append(ts, t)
          /\ UNCHANGED <<fmt, ph, var, s, d>>

Start == /\ ph = "build"
         /\ \E v \in Variants(FOf(fmt), ts) : var' = v.var /\ s' = v.s
         /\ ph' = "dec" /\ d' = Dec0(0)
         /\ UNCHANGED <<fmt, ts>>

Running == ph = "dec" /\ d.st \notin Terminal
Took(name) == d' = DStep(FOf(fmt), s, d) /\ d'.why = name /\ UNCHANGED <<fmt, ph, ts, var, s>>

Header     == Running /\ Took("Header")
LoadFlags  == Running /\ Took("LoadFlags")
Literal    == Running /\ Took("Literal")
BackRef    == Running /\ Took("BackRef")
Finish     == Running /\ Took("Finish")
FailShort  == Running /\ Took("short")
FailType   == Running /\ Took("type")
FailTrunc  == Running /\ Took("trunc")
FailRange  == Running /\ Took("range")
FailBefore == Running /\ Took("before")
OpenTrail  == Running /\ Took("trail")
OpenOver   == Running /\ Took("over")
OpenExt    == Running /\ Took("ext")

Next == AddTok \/ Start \/ Header \/ LoadFlags \/ Literal \/ BackRef \/ Finish \/ FailShort
        \/ FailType \/ FailTrunc \/ FailRange \/ FailBefore \/ OpenTrail \/ OpenOver \/ OpenExt

Spec == Init /\ [][Next]_vars

IsPrefix(a, b) == Len(a) <= Len(b) /\ \A i \in 1..Len(a) : a[i] = b[i]

\* ---- laws over every token sequence
RoundTrip ==
  ph = "build" =>
    LET F == FOf(fmt)
        x == ExpandSlow(ts)
        r == Decode(F, Encode(F, ts), 0)
    IN /\ RefsOK(ts, 0)
       /\ \A i \in 1..Len(ts) : InFormat(F, ts[i])
       /\ Expand(ts) = x
       /\ Len(x) = OutLen(ts)
       /\ IF F.ext /\ OutLen(ts) = 0 THEN r.st = "open" /\ r.why = "ext"
          ELSE r.st = "done" /\ r.out = x /\ r.declared = Len(x) /\ r.pos = Len(Encode(F, ts)) + 1
       /\ r = RunFrom(F, Encode(F, ts), Dec0(0))      \* bounded iteration = recursive definition
       \* the wrapped form decodes from offset 4
       /\ Decode(F, Wrap(1, 2, 3, Encode(F, ts)), 4).out = r.out

\* ---- the decoder machine, state by state
DecInv ==
  ph = "dec" =>
    LET F == FOf(fmt) x == ExpandSlow(ts) IN
    /\ d.pos <= Len(s) + 1
    /\ d.st = "hdr" => Decode(FOf(fmt), s, 0) = RunFrom(FOf(fmt), s, d)
    \* the validating decoder accepts exactly the streams that decode to the expected output
    /\ (d.st = "hdr" /\ (Len(x) > 0 \/ ~F.ext)) =>
          LET r == Decode(F, s, 0) IN
          (VRunSeq(F, s, 0, x).st = "done") <=> (r.st = "done" /\ r.out = x /\ r.declared = Len(x))
    /\ Len(d.out) <= d.declared \/ d.st = "hdr"
    /\ d.bits \in 0..8
    /\ var \in {"exact", "cut", "trail", "declplus", "declminus"} => IsPrefix(d.out, x)
    /\ d.st \in Terminal =>
         CASE var = "exact"     -> IF F.ext /\ Len(x) = 0 THEN d.st = "open" /\ d.why = "ext"
                                   ELSE d.st = "done" /\ d.out = x
           [] var = "cut"       -> d.st = "err" /\ d.why \in {"short", "trunc"}
           [] var = "trail"     -> d.st = "open" /\ d.why \in {"trail", "ext"}
           [] var = "declplus"  -> d.st = "err" /\ d.why = "trunc"
           [] var = "declminus" -> d.st = "open" /\ d.why \in {"trail", "over", "ext"}
           [] var = "type"      -> d.st = "err" /\ d.why = "type"
           [] var = "before"    -> d.st = "err" /\ d.why = "before"
           [] var = "range"     -> d.st = "err" /\ d.why = "range"

\* copying, inside the periodic body of a shaped output, from a multiple of the period back continues
\* the body (the fast path of SCopyOK)
ASSUME \A head \in {<<>>, <<5>>, <<5, 6, 1>>}, pat \in {<<1>>, <<1, 2>>, <<1, 2, 1>>, <<1, 1, 2, 3>>}, tail \in {<<>>, <<1, 7>>} :
         \A nb \in {6, 9} : \A m \in 1..12, len \in 1..6, dd \in 1..12 :
            ShapeLemma(Shape(head, pat, nb, tail), m, len, dd)
\* the shaped validating decoder accepts the encoding of a shaped output and rejects a wrong tail
ASSUME \A F \in {LZ10s, LZ11s} :
         LET sh == Shape(<<97, 98>>, <<97>>, 7, <<98, 97>>)
             x  == [i \in 1..SLen(sh) |-> SIn(sh, i)]
             e  == Encode(F, Greedy(F, x))
         IN /\ VRunShaped(F, e, 0, sh).st = "done"
            /\ VRunShaped(F, e, 0, [sh EXCEPT !.tail = <<98, 98>>]).st = "err"

\* large literal-only streams: the closed form (period 9 body) agrees with the decoder machine, at the
\* real formats, bare and behind a 4-byte wrapper, for every n up to 20, every truncation, and a
\* corrupted byte is never mistaken for a literal stream
LitPats == { <<1, 2, 3, 4, 5, 6, 7, 8>>, <<9, 9, 9, 9, 9, 9, 9, 9>>, <<0, 1, 0, 1, 0, 1, 0, 1>> }
ASSUME \A F \in {LZ10, LZ11}, pat \in LitPats, n \in 1..20, off \in {0, 4} :
         LET e == Encode(F, [i \in 1..n |-> Lit(PIn(pat, i))])
             w == IF off = 0 THEN e ELSE Wrap(1, 2, 3, e)
         IN /\ IsLitStream(F, w, off, pat, n) /\ LitLemma(F, w, off, pat, n)
            /\ \A k \in (off + 4)..(Len(w) - 1) :
                  LET c == SubSeq(w, 1, k) IN IsLitTrunc(F, c, off, pat, n) /\ LitLemma(F, c, off, pat, n)
            /\ \A k \in (off + 1)..Len(w) :
                  LET c == [w EXCEPT ![k] = (@ + 1) % 256] IN
                  ~IsLitStream(F, c, off, pat, n) /\ (k > off + 4 => ~IsLitTrunc(F, c, off, pat, n))

\* every step makes progress, so every run ends in a terminal class (DStep is
\* total on non-terminal states: no stuck state other than done/err/open)
Progress == [][(ph = "dec" /\ ph' = "dec") =>
                 (d'.pos > d.pos \/ (d'.st \in Terminal /\ d.st \notin Terminal))]_vars
=============================================================================
