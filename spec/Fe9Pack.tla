------------------------------ MODULE Fe9Pack ------------------------------
(* GameCube/Wii "pack" archive (property C15).

   Value  : sequence of <<name, body>>; name = NUL-free Shift-JIS byte sequence,
            body = byte sequence; names pairwise distinct; at most 65535 files.
   Image  : "pack", u16 BE count, 2 bytes; count 16-byte big-endian entries
            (unknown word, name address, file address, file size); then names
            (NUL terminated) and file bodies (each starting on a 32-byte
            boundary) somewhere in the rest of the file.

   CanonPack(v)        the image the builder is expected to emit
   LayoutImage(v, lay) a conforming image with names/bodies placed as `lay` says
   WellFormedPack(b)   what a reader may rely on (all the statement demands of an image)
   RefParsePack(b)     total reference reader: [ok, v]

   Addresses are file offsets (0-based); TLA+ sequences are 1-based, so the byte
   at offset a is b[a + 1].  *)
EXTENDS Naturals, Sequences, FiniteSets

Magic == <<112, 97, 99, 107>>        \* "pack"
Align == 32
HeaderSize == 8
EntrySize == 16
MaxFiles == 65535
Huge == 536870912                    \* 2^29: stands for "any u32 too large to be an offset" (TLC ints are 32 bit)

RoundUp(x, a) == ((x + a - 1) \div a) * a
Fill(n, byte) == [i \in 1..n |-> byte]
Zeros(n) == Fill(n, 0)
U16BE(x) == <<x \div 256, x % 256>>
U32BE(x) == <<x \div 16777216, (x \div 65536) % 256, (x \div 256) % 256, x % 256>>
TableEnd(n) == HeaderSize + EntrySize * n

RECURSIVE FlatAcc(_, _, _)
FlatAcc(ss, i, acc) == IF i > Len(ss) THEN acc ELSE FlatAcc(ss, i + 1, acc \o ss[i])
Flatten(ss) == FlatAcc(ss, 1, <<>>)

\* running offsets: Offsets(lens, s)[i] = s + lens[1] + ... + lens[i-1]
RECURSIVE OffAcc(_, _, _, _)
OffAcc(lens, i, cur, acc) ==
  IF i > Len(lens) THEN acc ELSE OffAcc(lens, i + 1, cur + lens[i], Append(acc, cur))
Offsets(lens, s) == OffAcc(lens, 1, s, <<>>)
RECURSIVE SumAcc(_, _, _)
SumAcc(lens, i, acc) == IF i > Len(lens) THEN acc ELSE SumAcc(lens, i + 1, acc + lens[i])
Sum(lens) == SumAcc(lens, 1, 0)

NameOf(f) == f[1]
BodyOf(f) == f[2]

IsPackValue(v) ==
  /\ Len(v) <= MaxFiles
  /\ \A i \in 1..Len(v) : \A k \in 1..Len(NameOf(v[i])) : NameOf(v[i])[k] \in 1..255
  /\ \A i \in 1..Len(v) : \A k \in 1..Len(BodyOf(v[i])) : BodyOf(v[i])[k] \in 0..255
  /\ \A i, j \in 1..Len(v) : NameOf(v[i]) = NameOf(v[j]) => i = j

\* ------------------------------------------------------------------ writer
Header(n) == Magic \o U16BE(n) \o <<0, 0>>
Entries(v, na, fa) ==
  Flatten([i \in 1..Len(v) |-> Zeros(4) \o U32BE(na[i]) \o U32BE(fa[i]) \o U32BE(Len(BodyOf(v[i])))])

CanonNameAddrs(v) == Offsets([i \in 1..Len(v) |-> Len(NameOf(v[i])) + 1], TableEnd(Len(v)))
CanonTextEnd(v) == TableEnd(Len(v)) + Sum([i \in 1..Len(v) |-> Len(NameOf(v[i])) + 1])
CanonDataStart(v) == RoundUp(CanonTextEnd(v), Align)
CanonFileAddrs(v) == Offsets([i \in 1..Len(v) |-> RoundUp(Len(BodyOf(v[i])), Align)], CanonDataStart(v))

CanonPack(v) ==
  LET n == Len(v)
      names == Flatten([i \in 1..n |-> Append(NameOf(v[i]), 0)])
      bodies == Flatten([i \in 1..n |->
                  BodyOf(v[i]) \o Zeros(RoundUp(Len(BodyOf(v[i])), Align) - Len(BodyOf(v[i])))])
  IN Header(n) \o Entries(v, CanonNameAddrs(v), CanonFileAddrs(v)) \o names
       \o Zeros(CanonDataStart(v) - CanonTextEnd(v)) \o bodies

\* ------------------------------------------------------------------ conforming re-arrangements
(* lay = [order : sequence of items <<"n"|"b", file index>>  (placement order after the table),
          gaps  : Seq(Nat), same length: unused bytes in front of each item,
          fill  : the byte value unused positions hold,
          tail  : Nat, unused bytes after the last item]
   Bodies are moved up to the next 32-byte boundary; names start anywhere. *)
IsLayoutFor(v, lay) ==
  /\ Len(lay.order) = 2 * Len(v) /\ Len(lay.gaps) = Len(lay.order)
  /\ \A i \in 1..Len(v) : \A kind \in {"n", "b"} : \E k \in 1..Len(lay.order) : lay.order[k] = <<kind, i>>

RECURSIVE PlaceAcc(_, _, _, _, _)
PlaceAcc(v, lay, k, pos, acc) ==
  IF k > Len(lay.order) THEN acc
  ELSE LET it == lay.order[k]
           p1 == pos + lay.gaps[k]
           p2 == IF it[1] = "b" THEN RoundUp(p1, Align) ELSE p1
           bytes == IF it[1] = "b" THEN BodyOf(v[it[2]]) ELSE Append(NameOf(v[it[2]]), 0)
       IN PlaceAcc(v, lay, k + 1, p2 + Len(bytes),
                   [na |-> IF it[1] = "n" THEN [acc.na EXCEPT ![it[2]] = p2] ELSE acc.na,
                    fa |-> IF it[1] = "b" THEN [acc.fa EXCEPT ![it[2]] = p2] ELSE acc.fa,
                    region |-> acc.region \o Fill(p2 - pos, lay.fill) \o bytes])
Place(v, lay) ==
  PlaceAcc(v, lay, 1, TableEnd(Len(v)),
           [na |-> [i \in 1..Len(v) |-> 0], fa |-> [i \in 1..Len(v) |-> 0], region |-> <<>>])

LayoutImage(v, lay) ==
  LET pl == Place(v, lay)
  IN Header(Len(v)) \o Entries(v, pl.na, pl.fa) \o pl.region \o Fill(lay.tail, lay.fill)

PackLayouts(v, lays) == { LayoutImage(v, l) : l \in lays }

\* the builder's arrangement expressed as a layout (all names, then all bodies, zero fill)
CanonLay(v) ==
  LET n == Len(v)
      order == [k \in 1..(2 * n) |-> IF k <= n THEN <<"n", k>> ELSE <<"b", k - n>>]
      lay0 == [order |-> order, gaps |-> [k \in 1..(2 * n) |-> 0], fill |-> 0, tail |-> 0]
      used == TableEnd(n) + Len(Place(v, lay0).region)
  IN [lay0 EXCEPT !.tail = RoundUp(used, Align) - used]

\* ------------------------------------------------------------------ reader
\* big-endian u32 at file offset a; values >= 2^29 are all represented by Huge
U32At(b, a) == IF b[a + 1] >= 32 THEN Huge
               ELSE ((b[a + 1] * 256 + b[a + 2]) * 256 + b[a + 3]) * 256 + b[a + 4]
CountOf(b) == b[5] * 256 + b[6]
EntryName(b, i) == U32At(b, HeaderSize + EntrySize * (i - 1) + 4)
EntryFile(b, i) == U32At(b, HeaderSize + EntrySize * (i - 1) + 8)
EntrySizeOf(b, i) == U32At(b, HeaderSize + EntrySize * (i - 1) + 12)

\* 1-based index of the first NUL at or after index p, 0 if none
RECURSIVE NulPos(_, _)
NulPos(b, p) == IF p > Len(b) THEN 0 ELSE IF b[p] = 0 THEN p ELSE NulPos(b, p + 1)
NameAt(b, a) == SubSeq(b, a + 1, NulPos(b, a + 1) - 1)

EntryOK(b, i) ==
  /\ EntryName(b, i) < Len(b) /\ NulPos(b, EntryName(b, i) + 1) # 0      \* name terminated inside the file
  /\ EntryFile(b, i) % Align = 0                                          \* body starts on a 32-byte boundary
  /\ EntryFile(b, i) <= Len(b) /\ EntrySizeOf(b, i) <= Len(b)
  /\ EntryFile(b, i) + EntrySizeOf(b, i) <= Len(b)                        \* body inside the file

HeaderOK(b) ==
  /\ Len(b) >= HeaderSize /\ SubSeq(b, 1, 4) = Magic
  /\ TableEnd(CountOf(b)) <= Len(b)

WellFormedPack(b) == HeaderOK(b) /\ \A i \in 1..CountOf(b) : EntryOK(b, i)

ParsedEntry(b, i) == <<NameAt(b, EntryName(b, i)), SubSeq(b, EntryFile(b, i) + 1, EntryFile(b, i) + EntrySizeOf(b, i))>>
ParseErr == [ok |-> FALSE, v |-> <<>>]
RefParsePack(b) ==
  IF WellFormedPack(b) THEN [ok |-> TRUE, v |-> [i \in 1..CountOf(b) |-> ParsedEntry(b, i)]]
  ELSE ParseErr

\* ------------------------------------------------------------------ laws (the statement over the reference)
\* the layout facts the statement lists, for any image b claimed to hold v
ExactImage(b, v) ==
  /\ WellFormedPack(b)
  /\ CountOf(b) = Len(v)
  /\ \A i \in 1..Len(v) : ParsedEntry(b, i) = v[i] /\ EntrySizeOf(b, i) = Len(BodyOf(v[i]))
CanonLaws(v) ==
  LET b == CanonPack(v) IN
  /\ ExactImage(b, v)
  /\ Len(b) % Align = 0
  /\ \A i \in 1..Len(v) : EntryFile(b, i) % Align = 0 /\ EntryFile(b, i) >= TableEnd(Len(v))
  /\ RefParsePack(b) = [ok |-> TRUE, v |-> v]
  /\ b = LayoutImage(v, CanonLay(v))
LayoutLaw(v, lay) ==
  LET b == LayoutImage(v, lay) IN ExactImage(b, v) /\ RefParsePack(b) = [ok |-> TRUE, v |-> v]

\* ------------------------------------------------------------------ packs whose data section crosses 2^24 / 2^25 BYTES
(* Such an image cannot travel to TLC.  The harness builds the value by rule - file i (0-based) is named "g<i>" and
   its byte k is BodyByte(i, k) - and sends: lens, names, the image length, the header + entry table, the bytes found
   at every recorded name address, the length and first / last 32 bytes of every recorded range as the image holds
   it, and the same samples of what parse returned.  From the lengths alone the statement's conditions are decided:
   count, names, sizes exact; every body 32-aligned, inside the file and disjoint from every other non-empty body;
   the sampled bytes are the rule's; parse returned the value.  (Where names and bodies sit is not constrained.) *)
BodyByte(i, k) == (k * 31 + i * 7 + (k \div 256)) % 256
SampleOf(i, len) ==
  LET m == IF len < 32 THEN len ELSE 32 IN
  [len |-> len, first |-> [k \in 1..m |-> BodyByte(i, k - 1)], last |-> [k \in 1..m |-> BodyByte(i, len - m + k - 1)]]
BigBodiesCheck(ev, what) ==
  LET n == Len(ev.lens)  t == ev.table IN
  CASE what = "header"  -> Len(t) = TableEnd(n) /\ SubSeq(t, 1, 4) = Magic /\ CountOf(t) = n /\ TableEnd(n) <= ev.len
    [] what = "names"   -> \A i \in 1..n : EntryName(t, i) < ev.len /\ ev.names_at[i] = ev.names[i]
    [] what = "sizes"   -> \A i \in 1..n : EntrySizeOf(t, i) = ev.lens[i]
    [] what = "aligned" -> \A i \in 1..n : EntryFile(t, i) % Align = 0
    [] what = "inside"  -> \A i \in 1..n : EntryFile(t, i) <= ev.len /\ EntryFile(t, i) + ev.lens[i] <= ev.len
    [] what = "disjoint" -> \A i, j \in 1..n : (i < j /\ ev.lens[i] > 0 /\ ev.lens[j] > 0) =>
                               \/ EntryFile(t, i) + ev.lens[i] <= EntryFile(t, j)
                               \/ EntryFile(t, j) + ev.lens[j] <= EntryFile(t, i)
    [] what = "bodies"  -> \A i \in 1..n : ev.bodies_at[i] = SampleOf(i - 1, ev.lens[i])
    [] what = "parsed"  -> /\ DOMAIN ev.parsed = {"ok", "v"} /\ ev.parsed.ok /\ ev.parsed_equal
                           /\ Len(ev.parsed.v) = n
                           /\ \A i \in 1..n : ev.parsed.v[i] = <<ev.names[i], SampleOf(i - 1, ev.lens[i])>>
BigBodiesFailed(ev) ==
  IF ev.ser # "ok" THEN <<"serialize">>
  ELSE IF ~BigBodiesCheck(ev, "header") THEN <<"header">>
  ELSE SelectSeq(<<"names", "sizes", "aligned", "inside", "disjoint", "bodies", "parsed">>, LAMBDA w : ~BigBodiesCheck(ev, w))
=============================================================================
