----------------------------- MODULE MC_Arc3ds -----------------------------
(* Bounded model for C16.  States: root -> value -> (value, layout, planted error).
   MC_Arc3ds.cfg checks on every conforming layout that the reference extraction is the value
   and on every error layout that it is an error; Gen_Arc3ds.cfg prints per layout the archive
   content, the file image BinFormat!Canon(content) and the expected extraction for replay
   against mila::arc::from_bytes.  Thorough adds seeded pseudo-random layouts with 4..7 files. *)
EXTENDS Arc3ds, Json, IOUtils

BF == INSTANCE BinFormat

Tier == IF "VERIF_TIER" \in DOMAIN IOEnv THEN IOEnv.VERIF_TIER ELSE "quick"
Quick == Tier = "quick"
SeedBase == IF "VERIF_SEED" \in DOMAIN IOEnv THEN atoi(IOEnv.VERIF_SEED) ELSE 1

\* file image: one line to change if the container format gets another canonical writer
Image(c) == BF!Canon(c)

\* a NON-canonical image of the same content (sample of BinFormat!Layouts): pointer table reversed, label
\* table by descending address (per-address order kept), text section duplicated with references
\* alternating between the two copies
Rev(s) == [i \in 1..Len(s) |-> s[Len(s) + 1 - i]]
AltImage(c) ==
  LET t == BF!CanonTextSeq(c, BF!CanonLabelEntries(c))
  IN BF!Image(c, Rev(BF!CanonPtrTable(c)), BF!LabelEntriesOf(Rev(c.labels)), t \o Rev(t), "alt")
AltFor(v, c) == IF Len(v) <= 2 THEN AltImage(c) ELSE <<>>

FileNames == << <<97>>, <<98, 46, 108, 122>>, <<130, 160, 149, 92, 46, 98>> >>      \* "a", "b.lz", 2-byte chars + ".b"
Body(i, len) == [j \in 1..len |-> (i * 71 + j * 13) % 256]
Lens == IF Quick THEN {0, 1, 5, 33} ELSE {0, 1, 4, 5, 32, 33, 96}
ErrLens == {0, 1, 5}
Values(n, lens) == { [i \in 1..n |-> <<FileNames[i], Body(i, ls[i])>>] : ls \in [1..n -> lens] }
MaxN == 3
\* ---- names whose Shift-JIS form is L bytes long: one single-byte character (`tag`), then double-byte characters
\* (so one of them straddles every even offset such as 64 and 128), then one more single byte if L is even
LongLens == <<63, 64, 65, 127, 128, 129>>
LongName(L, tag) ==
  <<tag>> \o [p \in 1..(2 * ((L - 1) \div 2)) |->
                IF p % 2 = 1 THEN (IF ((p + 1) \div 2) % 2 = 0 THEN 149 ELSE 130)
                ELSE (IF (p \div 2) % 2 = 0 THEN 92 ELSE 160)]
          \o (IF (L - 1) % 2 = 1 THEN <<98>> ELSE <<>>)
LongValues ==
  { << <<LongName(LongLens[k], 97), Body(1, 5)>> >> : k \in 1..6 }
  \cup { << <<LongName(a, 97), Body(1, 0)>>, <<LongName(b, 99), Body(2, 5)>> >> : a \in {65, 129}, b \in {64, 65, 129} }

\* ---- wider name domain: single-byte-only and double-byte names of 255/256/257 bytes (around a one-byte length
\* class), 300 and 1000 bytes; names of half-width katakana whose Shift-JIS bytes are also well-formed UTF-8
\* (lead 0xC2..0xDF, trail 0xA1..0xBF)
SingleName(L, tag) == <<tag>> \o [p \in 1..(L - 1) |-> 97 + (p % 26)]
WideLens == {255, 256, 257, 300, 1000}
U8Names == << <<195, 169>>, <<206, 177, 46, 98>>, <<97, 223, 191>> >>
WideValues ==
  { << <<LongName(L, 97), Body(1, 33)>> >> : L \in WideLens }
  \cup { << <<SingleName(L, 100), Body(1, 33)>> >> : L \in WideLens }
  \cup { << <<SingleName(256, 100), Body(1, 1)>>, <<LongName(257, 99), Body(2, 33)>> >> }
  \cup { << <<U8Names[k], Body(1, 5)>> >> : k \in 1..3 }
  \cup { << <<U8Names[1], Body(1, 5)>>, <<U8Names[2], Body(2, 1)>> >> }

\* ---- placements
It(k) == Item(k, 0, <<>>)
Gap(b) == Item("gap", 0, b)
Bd(i) == Item("body", i, <<>>)
Placement(p, n) ==
  CASE p = 1 -> [i \in 1..n |-> Bd(i)] \o <<It("count"), It("info")>>                          \* as in real files
    [] p = 2 -> <<It("count"), It("info"), Gap(<<1, 2, 3>>)>>
                \o FlattenSeq([i \in 1..n |-> <<Bd(n + 1 - i), Gap(<<255, 0>>)>>])              \* bodies reversed, gaps
    [] p = 3 -> (IF n >= 1 THEN <<Bd(n)>> ELSE <<>>) \o <<It("info"), Gap(<<0, 0, 0, 0, 9>>)>>
                \o [i \in 1..(n - 1) |-> Bd(i)] \o <<It("count")>>                              \* table between bodies
    [] OTHER -> <<It("info"), It("count")>> \o [i \in 1..n |-> Bd(i)]                          \* table first
\* lead gaps for the un-padded variant: make every following body unaligned; the second one has a zero
\* first BYTE but a non-zero first WORD (the rule speaks of the word)
Lead == <<Gap(<<9>>)>>
LeadOf(ld) == CASE ld = 0 -> <<>> [] ld = 1 -> Lead [] OTHER -> <<Gap(<<0, 0, 0, 9>>)>>
PadLead == { <<TRUE, 0>>, <<FALSE, 0>>, <<FALSE, 1>>, <<FALSE, 2>> }
Lays(n) ==
  { [padded |-> pl[1], items |-> LeadOf(pl[2]) \o Placement(p, n), recs |-> r, extra |-> ex] :
      pl \in PadLead, p \in 1..4, r \in SetToSeqs(1..n), ex \in BOOLEAN }
\* conforming: padded starts with the zero header; un-padded has a non-zero first word
InScope(n, lay) == n = 3 => (lay.extra <=> lay.items[Len(lay.items)].k = "info")
ConformingLays(v) ==
  { l \in Lays(Len(v)) : InScope(Len(v), l) /\ (l.padded \/ ~FirstWordZero(ArcContent(v, l, NoErr))) }
ErrLays(n) ==
  { [padded |-> pd, items |-> (IF pd THEN <<>> ELSE Lead) \o Placement(p, n), recs |-> [i \in 1..n |-> n + 1 - i], extra |-> FALSE] :
      pd \in BOOLEAN, p \in {1, 2} }
\* ranges over the Count word / over numeric fields of the table (conforming: ordinary bytes of the region);
\* also on the table-first placement without a lead gap
OverLays(n) ==
  { [padded |-> pd, items |-> (IF pd \/ p = 4 THEN <<>> ELSE Lead) \o Placement(p, n), recs |-> [i \in 1..n |-> n + 1 - i], extra |-> FALSE] :
      pd \in BOOLEAN, p \in {1, 2, 4} }
OverErrs(n) == { [kind |-> k, j |-> j] : k \in {"overcount", "overfields"}, j \in 1..n }
Errs(n) == { [kind |-> k, j |-> 0] : k \in {"nocount", "noinfo"} }
           \cup { [kind |-> k, j |-> j] : k \in {"noname", "end", "start"}, j \in 1..n }
(* out-of-range offsets and sizes across the whole u32 range (4 bytes, most significant first):
   far past the end, around 2^31, the top 0x60 values (offset + 0x60 header wraps modulo 2^32 into the zero
   header), 2^32 - 0x61 (offset + 0x60 = 2^32 - 1, no wrap), sums that only wrap in 32-bit arithmetic *)
OffWords == { <<0, 16, 0, 0>>, <<127, 255, 255, 255>>, <<128, 0, 0, 0>>, <<128, 0, 0, 1>>,
              <<255, 255, 255, 159>>, <<255, 255, 255, 160>>, <<255, 255, 255, 164>>, <<255, 255, 255, 255>> }
SizeWords == { <<0, 16, 0, 0>>, <<127, 255, 255, 255>>, <<128, 0, 0, 0>>, <<255, 255, 255, 255>> }
BothWords == { << <<255, 255, 255, 240>>, <<0, 0, 0, 17>> >>,      \* offset + size = 1 modulo 2^32
               << <<255, 255, 255, 160>>, <<0, 0, 0, 4>> >>,       \* wraps onto the first header word
               << <<255, 255, 255, 224>>, <<0, 0, 0, 8>> >>,       \* wraps into the middle of the header
               << <<128, 0, 0, 0>>, <<128, 0, 0, 0>> >>,           \* 2^31 + 2^31 = 0 modulo 2^32
               << <<127, 255, 255, 255>>, <<127, 255, 255, 255>> >> }
WordErrs(n) ==
  { [kind |-> "words", j |-> j, ow |-> w, sw |-> <<>>] : j \in 1..n, w \in OffWords }
  \cup { [kind |-> "words", j |-> j, ow |-> <<>>, sw |-> w] : j \in 1..n, w \in SizeWords }
  \cup { [kind |-> "words", j |-> j, ow |-> b[1], sw |-> b[2]] : j \in 1..n, b \in BothWords }
  \cup { [kind |-> "wrapsum", j |-> j] : j \in 1..n }
WordLens == {0, 5}
NamePtrErrs(n) == { [kind |-> "nameptr", j |-> j, target |-> t, listed |-> l] :
                      j \in 1..n, t \in {"zero", "base", "ds4", "ds1", "ds"}, l \in BOOLEAN }

\* ---- seeded pseudo-random layouts (thorough): 4..7 files
Lcg(x) == (x * 75 + 74) % 65537
RECURSIVE LcgSeq(_, _, _)
LcgSeq(x, n, acc) == IF n = 0 THEN acc ELSE LcgSeq(Lcg(x), n - 1, Append(acc, Lcg(x)))
RECURSIVE PermAcc(_, _, _, _)
PermAcc(s, r, k, acc) ==
  IF Len(s) = 0 THEN acc
  ELSE LET j == (r[k] % Len(s)) + 1
       IN PermAcc(SubSeq(s, 1, j - 1) \o SubSeq(s, j + 1, Len(s)), r, k + 1, Append(acc, s[j]))
RndCase(seed) ==
  LET n == 4 + (seed % 4)
      r == LcgSeq(seed, 5 * n + 8, <<>>)
      v == [i \in 1..n |-> << <<97 + i>> \o (IF r[i] % 2 = 0 THEN <<>> ELSE <<130, 160 + (r[i] % 60)>>), Body(r[i] % 9, r[n + i] % 70) >>]
      core == PermAcc([i \in 1..n |-> Bd(i)] \o <<It("count"), It("info")>>, SubSeq(r, 2 * n + 1, 3 * n + 2), 1, <<>>)
      items == FlattenSeq([x \in 1..Len(core) |->
                 IF r[3 * n + 2 + x] % 3 = 0 THEN <<Gap([q \in 1..(1 + (r[3 * n + 2 + x] % 6)) |-> (r[3 * n + 2 + x] + q) % 256]), core[x]>> ELSE <<core[x]>>])
      pd == r[5 * n + 6] % 2 = 0
  IN [v |-> v,
      lay |-> [padded |-> pd, items |-> (IF pd THEN <<>> ELSE Lead) \o items,
               recs |-> PermAcc([i \in 1..n |-> i], SubSeq(r, n + 1, 2 * n), 1, <<>>), extra |-> r[5 * n + 7] % 2 = 0]]
RndSeeds == IF Quick THEN {} ELSE { (4000 + 157 * k + 29 * SeedBase) % 65537 : k \in 1..6 }
RndSteps == 2000

VARIABLE c
Init == c = [k |-> "root"]
PickValue == c.k = "root" /\ c' \in { [k |-> "val", v |-> v] : v \in UNION { Values(n, Lens) : n \in 0..MaxN } \cup LongValues \cup WideValues }
PickLayout == c.k = "val" /\ c' \in { [k |-> "lay", v |-> c.v, lay |-> l, err |-> NoErr] : l \in ConformingLays(c.v) }
PickError == /\ c.k = "val" /\ \A i \in 1..Len(c.v) : Len(BodyOf(c.v[i])) \in ErrLens
             /\ c' \in { [k |-> "lay", v |-> c.v, lay |-> l, err |-> e] : l \in ErrLays(Len(c.v)), e \in Errs(Len(c.v)) }
\* quick: three-file values only with all bodies of length 5 (every record position is still planted)
WordScope(v) == \A i \in 1..Len(v) : Len(BodyOf(v[i])) \in (IF Quick /\ Len(v) = 3 THEN {5} ELSE WordLens)
PickWordError == /\ c.k = "val" /\ WordScope(c.v)
                 /\ c' \in { [k |-> "lay", v |-> c.v, lay |-> l, err |-> e] : l \in ErrLays(Len(c.v)), e \in WordErrs(Len(c.v)) \cup NamePtrErrs(Len(c.v)) }
PickOverlap == /\ c.k = "val" /\ WordScope(c.v)
               /\ c' \in { [k |-> "lay", v |-> c.v, lay |-> l, err |-> e] : l \in OverLays(Len(c.v)), e \in OverErrs(Len(c.v)) }
PickSeed == c.k = "root" /\ c' \in { [k |-> "rnd", seed |-> s, step |-> 0] : s \in RndSeeds }
StepSeed == c.k = "rnd" /\ c.step < RndSteps /\ c' = [k |-> "rnd", seed |-> Lcg(c.seed), step |-> c.step + 1]
Next == PickValue \/ PickLayout \/ PickError \/ PickWordError \/ PickOverlap \/ PickSeed \/ StepSeed
Spec == Init /\ [][Next]_c

ExpectedErr(kind) == CASE kind = "nocount" -> "NoCount" [] kind = "noinfo" -> "NoInfo"
                       [] kind \in {"noname", "nameptr"} -> "MissingName" [] OTHER -> "RangeOutside"
LayoutLaw(v, lay, err) ==
  LET ct == ArcContent(v, lay, err) IN
  /\ IsArcValue(v) /\ IsLayoutFor(v, lay)
  /\ BF!ValidContent(ct)
  /\ LET p == BF!RefParse(Image(ct), "le") IN p.ok /\ BF!SameContent(ct, p.c)
  /\ Len(v) <= 2 => LET p == BF!RefParse(AltImage(ct), "le") IN p.ok /\ BF!SameContent(ct, p.c)
  /\ IF err.kind \in {"overcount", "overfields"}
     THEN LET ex == Extract(ct)  ad == Addrs(v, lay) IN
          /\ Conforms(ct) /\ Len(ex.files) = Len(v)
          /\ Allowed(ct, [ok |-> TRUE, files |-> ex.files]) /\ ~Allowed(ct, [ok |-> TRUE, files |-> v])
          /\ ex.files[err.j][2] = (IF err.kind = "overcount" THEN U32(Len(v), "le")
                                   ELSE SubSeq(ct.data, ad.info + 5, ad.info + 16))
          /\ \A j \in 1..Len(v) : j # err.j => ex.files[j] = v[lay.recs[j]]
     ELSE IF err.kind = "none"
     THEN /\ Conforms(ct)
          /\ Len(Extract(ct).files) = Len(v) /\ AsSet(Extract(ct).files) = AsSet(v)
          /\ (lay.padded <=> FirstWordZero(ct))
          /\ Allowed(ct, [ok |-> TRUE, files |-> v])
          /\ ~Allowed(ct, [ok |-> FALSE, files |-> <<>>])
          /\ Len(v) > 0 => ~Allowed(ct, [ok |-> TRUE, files |-> SubSeq(v, 2, Len(v))])
     ELSE /\ IsErrorLayout(ct) /\ Extract(ct).err = ExpectedErr(err.kind)
          /\ ~EmptyRangePastEnd(ct)
          /\ ~Allowed(ct, [ok |-> TRUE, files |-> v])
          /\ Allowed(ct, [ok |-> FALSE, files |-> <<>>, err |-> "x"])
          /\ ~Allowed(ct, [panic |-> "x"])
Inv == CASE c.k = "lay" -> LayoutLaw(c.v, c.lay, c.err)
         [] c.k = "rnd" -> LET rc == RndCase(c.seed) IN LayoutLaw(rc.v, rc.lay, NoErr)
         [] OTHER -> TRUE

EmitOne(v, lay, err) ==
  LET ct == ArcContent(v, lay, err)
      ex == Extract(ct)
  IN PrintT("G " \o ToJson([v |-> v, kind |-> err.kind, err |-> err, padded |-> lay.padded, content |-> ct, image |-> Image(ct), alt |-> AltFor(v, ct),
                            expect |-> IF ex.ok THEN [ok |-> TRUE, files |-> ex.files] ELSE [ok |-> FALSE, files |-> <<>>]]))
Emit == CASE c.k = "lay" -> EmitOne(c.v, c.lay, c.err)
          [] c.k = "rnd" -> LET rc == RndCase(c.seed) IN EmitOne(rc.v, rc.lay, NoErr)
          [] OTHER -> TRUE
=============================================================================
