---------------------------- MODULE MC_Fe9Pack ----------------------------
(* Bounded model for C15.  States: root -> one state per value in scope -> one
   state per (value, layout).  MC_Fe9Pack.cfg checks the laws on every state;
   Gen_Fe9Pack.cfg stops at the value states and prints, per value, the canonical
   image and every re-arranged image for replay against mila::fe9_arc.
   Thorough tier adds seeded pseudo-random chains with 4..8 files. *)
EXTENDS Fe9Pack, TLC, Json, IOUtils, SequencesExt

Tier == IF "VERIF_TIER" \in DOMAIN IOEnv THEN IOEnv.VERIF_TIER ELSE "quick"
Quick == Tier = "quick"

\* "", "a.b", hiragana a (82 A0), kanji hyou (95 5C: trail byte is a backslash) + ".b"
Names == << <<>>, <<97, 46, 98>>, <<130, 160>>, <<149, 92, 46, 98>> >>
Body(i, len) == [j \in 1..len |-> (i * 53 + j * 29) % 256]

LensFor(n) == IF n <= 2 \/ ~Quick THEN {0, 1, 31, 32, 33, 64} ELSE {0, 1, 32, 33}
NameIdx(n) == IF n <= 2 \/ ~Quick THEN 1..4 ELSE 1..3

InjSeqs(S, n) == { s \in [1..n -> S] : \A i, j \in 1..n : s[i] = s[j] => i = j }
ValuesOver(n, names) ==
  { [i \in 1..n |-> <<Names[ns[i]], Body(i, ls[i])>>] : ns \in InjSeqs(names, n), ls \in [1..n -> LensFor(n)] }
ValuesOfSize(n) == ValuesOver(n, NameIdx(n))
\* ---- names whose Shift-JIS form is L bytes long: one single-byte character (`tag`), then double-byte characters
\* (so one of them straddles every even offset such as 64 and 128), then one more single byte if L is even
LongLens == <<63, 64, 65, 127, 128, 129>>
LongName(L, tag) ==
  <<tag>> \o [p \in 1..(2 * ((L - 1) \div 2)) |->
                IF p % 2 = 1 THEN (IF ((p + 1) \div 2) % 2 = 0 THEN 149 ELSE 130)
                ELSE (IF (p \div 2) % 2 = 0 THEN 92 ELSE 160)]
          \o (IF (L - 1) % 2 = 1 THEN <<98>> ELSE <<>>)
LongValues ==
  { << <<LongName(LongLens[k], 97), Body(1, 33)>> >> : k \in 1..6 }
  \cup { << <<LongName(a, 97), Body(1, 1)>>, <<LongName(b, 99), Body(2, 32)>> >> : a \in {65, 129}, b \in {64, 65, 129} }
\* ---- wider name domain: single-byte-only and double-byte names of 255/256/257 bytes (around a one-byte length
\* class), 300 and 1000 bytes; names of half-width katakana whose Shift-JIS bytes are also well-formed UTF-8
\* (lead 0xC2..0xDF, trail 0xA1..0xBF)
SingleName(L, tag) == <<tag>> \o [p \in 1..(L - 1) |-> 97 + (p % 26)]
WideLens == {255, 256, 257, 300, 1000}
U8Names == << <<195, 169>>, <<206, 177, 46, 98>>, <<97, 223, 191>> >>
WideValues ==
  { << <<LongName(L, 97), Body(1, 33)>> >> : L \in WideLens }
  \cup { << <<SingleName(L, 100), Body(1, 33)>> >> : L \in WideLens }
  \cup { << <<SingleName(256, 100), Body(1, 1)>>, <<LongName(257, 99), Body(2, 33)>> >> }
  \cup { << <<U8Names[k], Body(1, 33)>> >> : k \in 1..3 }
  \cup { << <<U8Names[1], Body(1, 33)>>, <<U8Names[2], Body(2, 1)>> >> }
MaxN == 3
Values == UNION { ValuesOfSize(n) : n \in 0..MaxN } \cup LongValues \cup WideValues
\* replayed against the code: three names are enough for three files (keeps the printed volume bounded)
GenValues == UNION { ValuesOver(n, IF n <= 2 THEN 1..4 ELSE 1..3) : n \in 0..MaxN } \cup LongValues \cup WideValues

\* ---- layouts in scope
Items(n) == { <<k, i>> : k \in {"n", "b"}, i \in 1..n }
Curated3 == {
  << <<"n",1>>, <<"n",2>>, <<"n",3>>, <<"b",1>>, <<"b",2>>, <<"b",3>> >>,
  << <<"b",1>>, <<"b",2>>, <<"b",3>>, <<"n",1>>, <<"n",2>>, <<"n",3>> >>,
  << <<"n",1>>, <<"b",1>>, <<"n",2>>, <<"b",2>>, <<"n",3>>, <<"b",3>> >>,
  << <<"b",3>>, <<"n",3>>, <<"b",2>>, <<"n",2>>, <<"b",1>>, <<"n",1>> >>,
  << <<"n",3>>, <<"n",2>>, <<"n",1>>, <<"b",3>>, <<"b",2>>, <<"b",1>> >>,
  << <<"b",2>>, <<"n",1>>, <<"b",3>>, <<"n",3>>, <<"n",2>>, <<"b",1>> >> }
OrdersFor(n) == IF n <= 2 THEN SetToSeqs(Items(n)) ELSE Curated3
\* <<gap pattern, fill, tail>>
Settings(m) == {
  << [k \in 1..m |-> 0], 0, 0 >>,
  << [k \in 1..m |-> 5], 170, 7 >>,
  << [k \in 1..m |-> IF k = 1 THEN 3 ELSE 0], 0, 7 >>,
  << [k \in 1..m |-> IF k % 2 = 0 THEN 32 ELSE 0], 170, 0 >> }
Lays(v) ==
  { [order |-> o, gaps |-> s[1], fill |-> s[2], tail |-> s[3]] :
      o \in OrdersFor(Len(v)), s \in Settings(2 * Len(v)) }

\* thorough only: every one of the 720 placements of three files, on a reduced value set
AllOrderValues ==
  { [i \in 1..3 |-> <<Names[i + 1], Body(i, ls[i])>>] : ls \in [1..3 -> {0, 1, 32, 33}] }
AllOrderLays ==
  { [order |-> o, gaps |-> [k \in 1..6 |-> IF k = 3 THEN 2 ELSE 0], fill |-> 170, tail |-> 1] : o \in SetToSeqs(Items(3)) }

\* ---- seeded pseudo-random cases (thorough): 4..8 files
Lcg(x) == (x * 75 + 74) % 65537
RECURSIVE LcgSeq(_, _, _)
LcgSeq(x, n, acc) == IF n = 0 THEN acc ELSE LcgSeq(Lcg(x), n - 1, Append(acc, Lcg(x)))
\* permutation of s driven by the numbers r (selection without replacement)
RECURSIVE PermAcc(_, _, _, _)
PermAcc(s, r, k, acc) ==
  IF Len(s) = 0 THEN acc
  ELSE LET j == (r[k] % Len(s)) + 1
       IN PermAcc(SubSeq(s, 1, j - 1) \o SubSeq(s, j + 1, Len(s)), r, k + 1, Append(acc, s[j]))
RndName(i, r) == <<97 + i>> \o (IF r % 3 = 0 THEN <<>> ELSE IF r % 3 = 1 THEN <<130, 160 + (r % 50)>> ELSE <<149, 92>>)
RndLen(r) == LET base == ((r \div 8) % 4) * 32 IN
             CASE r % 8 = 0 -> 0 [] r % 8 = 1 -> base + 31 [] r % 8 = 2 -> base + 32 [] r % 8 = 3 -> base + 33
               [] OTHER -> r % 131
RndCase(seed) ==
  LET n == 4 + (seed % 5)
      r == LcgSeq(seed, 6 * n + 4, <<>>)
      v == [i \in 1..n |-> <<RndName(i, r[i]), Body(r[n + i] % 7, RndLen(r[n + i]))>>]
      items == [k \in 1..(2 * n) |-> IF k <= n THEN <<"n", k>> ELSE <<"b", k - n>>]
      order == PermAcc(items, SubSeq(r, 2 * n + 1, 4 * n), 1, <<>>)
      gaps == [k \in 1..(2 * n) |-> IF r[4 * n + k] % 3 = 0 THEN r[4 * n + k] % 41 ELSE 0]
  IN [v |-> v, lay |-> [order |-> order, gaps |-> gaps, fill |-> r[6 * n + 1] % 256, tail |-> r[6 * n + 2] % 40]]
SeedBase == IF "VERIF_SEED" \in DOMAIN IOEnv THEN atoi(IOEnv.VERIF_SEED) ELSE 1
RndSeeds == IF Quick THEN {} ELSE { (1000 + 97 * k + 31 * SeedBase) % 65537 : k \in 1..6 }
RndSteps == 2000

VARIABLE c
Init == c = [k |-> "root"]
PickValue == c.k = "root" /\ c' \in { [k |-> "val", v |-> v] : v \in Values }
PickLayout == c.k = "val" /\ c' \in { [k |-> "lay", v |-> c.v, lay |-> l] : l \in Lays(c.v) }
PickAllOrders == ~Quick /\ c.k = "root" /\ c' \in { [k |-> "lay", v |-> v, lay |-> l] : v \in AllOrderValues, l \in AllOrderLays }
PickSeed == c.k = "root" /\ c' \in { [k |-> "rnd", seed |-> s, step |-> 0] : s \in RndSeeds }
StepSeed == c.k = "rnd" /\ c.step < RndSteps /\ c' = [k |-> "rnd", seed |-> Lcg(c.seed), step |-> c.step + 1]
Next == PickValue \/ PickLayout \/ PickAllOrders \/ PickSeed \/ StepSeed
Spec == Init /\ [][Next]_c
PickGenValue == c.k = "root" /\ c' \in { [k |-> "val", v |-> v] : v \in GenValues }
GenNext == PickGenValue \/ PickSeed \/ StepSeed
GenSpec == Init /\ [][GenNext]_c

Inv ==
  CASE c.k = "val" -> IsPackValue(c.v) /\ CanonLaws(c.v)
    [] c.k = "lay" -> IsLayoutFor(c.v, c.lay) /\ LayoutLaw(c.v, c.lay)
    [] c.k = "rnd" -> LET rc == RndCase(c.seed) IN
                        IsPackValue(rc.v) /\ IsLayoutFor(rc.v, rc.lay) /\ CanonLaws(rc.v) /\ LayoutLaw(rc.v, rc.lay)
    [] OTHER -> TRUE

\* a damaged image must not parse as the value (the reference reader is not vacuous)
Damage == \A v \in ValuesOfSize(1) :
            LET b == CanonPack(v) IN
            /\ ~RefParsePack([b EXCEPT ![1] = 80]).ok                   \* magic
            /\ Len(BodyOf(v[1])) > 0 =>
                  ~RefParsePack(SubSeq(b, 1, CanonFileAddrs(v)[1] + Len(BodyOf(v[1])) - 1)).ok  \* body cut short
            /\ RefParsePack([b EXCEPT ![6] = 0]) = [ok |-> TRUE, v |-> <<>>]  \* count 0: nothing extracted
ASSUME Damage

Emit ==
  CASE c.k = "val" ->
         PrintT("G " \o ToJson([v |-> c.v, canon |-> CanonPack(c.v),
                                layouts |-> SetToSeq(PackLayouts(c.v, Lays(c.v)))]))
    [] c.k = "rnd" ->
         LET rc == RndCase(c.seed) IN
         PrintT("G " \o ToJson([v |-> rc.v, canon |-> CanonPack(rc.v), layouts |-> <<LayoutImage(rc.v, rc.lay)>>]))
    [] OTHER -> TRUE
=============================================================================
