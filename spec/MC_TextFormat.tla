--------------------------- MODULE MC_TextFormat ---------------------------
(* Bounded enumeration of text archive values (built entry by entry) in all four
   format x endianness configurations; exhaustive check of the C06 laws and
   emission of one replay case per value (Gen_TextFormat.cfg). *)
EXTENDS TextFormat, Json, IOUtils

Tier == IF "VERIF_TIER" \in DOMAIN IOEnv THEN IOEnv.VERIF_TIER ELSE "quick"
Quick == Tier = "quick"
MaxEntries == IF Quick THEN 2 ELSE 3

Titles == { <<>>, <<84>>, <<84, 105, 116>>, <<84, 105, 116, 108>> }      \* lengths 0, 1, 3, 4
\* "", "K", "ab", a two-byte character, and a key of which "K" is a proper suffix behind a two-byte character
\* (keys are label names: a writer that shares name storage between labels must count encoded bytes)
KeyPool == { <<>>, <<75>>, <<97, 98>>, <<130, 160>>, <<130, 160, 75>> }
Keys == IF Quick THEN { <<75>>, <<97, 98>>, <<130, 160>>, <<130, 160, 75>> } ELSE KeyPool \ { <<97, 98>> }

\* Shift-JIS messages: every encoded length 0..5 (all residues modulo 4), single/double byte, trail byte 5C
SjisMsgs ==
  { <<>>, <<65>>, <<177>>, <<65, 66>>, <<130, 160>>, <<131, 92>>, <<65, 66, 67>>, <<149, 92, 65>>,
    <<65, 66, 67, 68>>, <<130, 160, 131, 92>>, <<65, 66, 67, 68, 69>> }
\* UTF-16 messages (code units): ASCII, U+0100 (low byte 00), hiragana, BOM-like first characters
\* (U+FEFF, U+FFFE, units whose bytes are EF BB BF ..), an astral character (surrogate pair), all lengths modulo 4
UniMsgs ==
  { <<>>, <<97>>, <<256>>, <<97, 98>>, <<12354, 97, 98>>, <<97, 98, 99, 100>>,
    <<65279>>, <<65279, 97>>, <<65534, 97, 98, 99>>, <<48111, 16831>>, <<55357, 56832>>, <<97, 55357, 56832>>, <<10, 92>>,
    \* code points a decoder may use as error / sentinel values: U+FFFD, U+FFFF, U+FFFC
    <<97, 65533, 98>>, <<65535, 65532>> }
QuickSjis == { <<>>, <<65>>, <<65, 66>>, <<131, 92>>, <<65, 66, 67>>, <<149, 92, 65, 66>>, <<65, 66, 67, 68, 69>> }
QuickUni == { <<>>, <<97>>, <<256, 98>>, <<12354, 97, 98>>, <<65279, 97>>, <<65534, 97, 98, 99>>, <<48111, 16831>>, <<55357, 56832>>,
              <<97, 65533>>, <<65535, 1>> }
Msgs(fmt) == IF fmt = "unicode" THEN (IF Quick THEN QuickUni ELSE UniMsgs) ELSE (IF Quick THEN QuickSjis ELSE SjisMsgs)

VARIABLES v, fmt, e, started
vars == <<v, fmt, e, started>>

Init == v = [title |-> <<>>, entries |-> <<>>] /\ fmt = "sjis" /\ e = "le" /\ started = FALSE

Configure ==
  /\ ~started
  /\ \E f \in {"sjis", "unicode"}, en \in {"le", "be"} :
       \E t \in (IF f = "unicode" THEN (IF Quick THEN { <<>>, <<84>>, <<84, 105, 116, 108>> } ELSE Titles) ELSE { <<>> }) :
          /\ fmt' = f /\ e' = en /\ v' = [title |-> t, entries |-> <<>>]
  /\ started' = TRUE

AddEntry ==
  /\ started /\ Len(v.entries) < MaxEntries
  \* (a third entry draws its message from the quick pool: the thorough state space stays near half a million values)
  /\ \E k \in Keys, m \in (IF Len(v.entries) = 2 THEN (IF fmt = "unicode" THEN QuickUni ELSE QuickSjis) ELSE Msgs(fmt)) :
        /\ \A i \in 1..Len(v.entries) : v.entries[i][1] # k
        /\ v' = [v EXCEPT !.entries = Append(@, <<k, m>>)]
  /\ UNCHANGED <<fmt, e, started>>

Next == Configure \/ AddEntry
Spec == Init /\ [][Next]_vars

Laws ==
  /\ KeysDistinct(v)
  /\ RoundTrip(v, fmt, e)
  /\ Aligned4(v, fmt)
  /\ ValidContent(TextContent(v, fmt, e))
  /\ WellFormedFor(TextImage(v, fmt, e), TextContent(v, fmt, e))

Emit == started =>
  PrintT("G " \o ToJson([fmt |-> fmt, endian |-> e, title |-> v.title, entries |-> v.entries,
                         image |-> TextImage(v, fmt, e), exact |-> ImageDetermined(v, fmt, e), offsets |-> EntryOffsets(v, fmt)]))
=============================================================================
