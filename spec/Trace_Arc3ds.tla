---------------------------- MODULE Trace_Arc3ds ----------------------------
(* Impl -> spec for C16.  mila has no arc writer, so the harness builds random arcs from its own
   layout generator; this module decides (a) whether the logged archive content really is what
   its `kind` claims - a conforming layout ("ok") or one of the statement's error layouts -
   and (b) whether arc::from_bytes returned what the specification allows for that content.
     [kind, src, content, result]
   result = [ok |-> TRUE, files |-> <<name, bytes>>...] | [ok |-> FALSE, files |-> <<>>, err] | [panic].
   `bad`  collects rejected results (violations of the code),
   `odd`  collects events whose content is not of the claimed kind (a defect of the driver). *)
EXTENDS Arc3ds, Json, IOUtils

Rec == ndJsonDeserialize(IOEnv.TRACE)

VARIABLES i, bad, odd
vars == <<i, bad, odd>>

\* kind "big": [kind, src, desc |-> [n, image_bytes, strings, labels, head], result |-> summary] - see BigAllowed in Arc3ds.tla
KindOK(ev) ==
  IF ev.kind = "big" THEN BigImageOK(ev.desc)
  ELSE IF ev.kind \in {"ok", "overlap"} THEN Conforms(ev.content)
  ELSE /\ ev.kind \in {"nocount", "noinfo", "noname", "nameptr", "end", "start", "words", "wrapsum"}
       /\ IsErrorLayout(ev.content) /\ ~EmptyRangePastEnd(ev.content)
       /\ Extract(ev.content).err = (CASE ev.kind = "nocount" -> "NoCount" [] ev.kind = "noinfo" -> "NoInfo"
                                        [] ev.kind \in {"noname", "nameptr"} -> "MissingName" [] OTHER -> "RangeOutside")

Init == i = 1 /\ bad = <<>> /\ odd = <<>>
Next == /\ i <= Len(Rec)
        /\ i' = i + 1
        /\ odd' = IF KindOK(Rec[i]) THEN odd ELSE Append(odd, i)
        /\ bad' = IF Rec[i].kind = "big"
                  THEN (IF BigAllowed(Rec[i].desc.n, Rec[i].result) THEN bad ELSE Append(bad, [i |-> i, why |-> <<"large-count-summary">>]))
                  ELSE IF Allowed(Rec[i].content, Rec[i].result) THEN bad
                  ELSE Append(bad, [i |-> i, why |-> <<IF Extract(Rec[i].content).ok THEN "extraction" ELSE "error-not-reported">>])
Spec == Init /\ [][Next]_vars

Report == (i = Len(Rec) + 1) => PrintT("R " \o ToJson([n |-> Len(Rec), bad |-> bad, odd |-> odd]))
=============================================================================
