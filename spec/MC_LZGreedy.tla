---------------------------- MODULE MC_LZGreedy ----------------------------
(* C10 on the model: the greedy longest-match tokeniser of LZ.tla (window W,
   displacement >= 2 as in get_occurrence_length, look-ahead MaxLen) at SCALED
   constants produces, for every input, a well-formed stream that expands to the
   input (so it is one of the behaviours CompressOK allows) and satisfies the
   expansion bound; for every input with a period p <= W it satisfies the
   effectiveness bound.  Exhaustive over all inputs over {0,1} up to MaxN bytes
   and over ALL periodic inputs (every period 1..W, every pattern, every total
   length up to MaxNP).  The ASSUME at the end shows the bound discriminates:
   the same tokeniser with a window one byte short, or a match length one short,
   violates it within the same scope.  *)
EXTENDS LZ, TLC, IOUtils

Tier == IF "VERIF_TIER" \in DOMAIN IOEnv THEN IOEnv.VERIF_TIER ELSE "quick"
MaxN  == IF Tier = "quick" THEN 11 ELSE 15
MaxNP == IF Tier = "quick" THEN 40 ELSE 100
Alphabet == {0, 1}

\* scaled counterparts of ("lz10": H=4, R=2, L=18) and ("lz13": H=8, R=4, L=4096)
Models == { [F |-> LZ10s, H |-> 4, R |-> 2], [F |-> LZ11s, H |-> 8, R |-> 4] }

RECURSIVE SeqsUpTo(_)
SeqsUpTo(n) == IF n = 0 THEN { <<>> }
               ELSE LET q == SeqsUpTo(n - 1) IN q \cup { Append(x, c) : x \in q, c \in Alphabet }
RECURSIVE SeqsOf(_)
SeqsOf(n) == IF n = 0 THEN { <<>> } ELSE { Append(x, c) : x \in SeqsOf(n - 1), c \in Alphabet }

PeriodicInput(pat, n) == [i \in 1..n |-> pat[((i - 1) % Len(pat)) + 1]]
PeriodicInputs(W) == { PeriodicInput(pat, n) : pat \in UNION { SeqsOf(p) : p \in 1..W }, n \in 2..MaxNP }

\* compressed size of a token sequence: header, tokens, one flag byte per 8 tokens
CLen(M, ts) == M.H + (Len(Encode(M.F, ts)) - 4)

VARIABLE x
Init == x \in SeqsUpTo(MaxN) \cup PeriodicInputs(6)
Next == UNCHANGED x
Spec == Init /\ [][Next]_x

GreedyOK(M, G, y) ==
  LET ts == Greedy(G, y)
      c  == CLen(M, ts)
      n  == Len(y)
  IN /\ ExpandSlow(ts) = y
     /\ RefsOK(ts, 0)
     /\ \A i \in 1..Len(ts) : InFormat(M.F, ts[i]) /\ (ts[i].k = "ref" => ts[i].disp >= 2)
     /\ n > 0 \/ ~M.F.ext => LET d == Decode(M.F, Encode(M.F, ts), 0) IN d.st = "done" /\ d.out = y
     /\ SizeBoundG(M.H, n, c)
     /\ \A p \in Periods(y) : p <= M.F.W => PeriodBoundG(M.H, M.R, M.F.MaxLen, n, p, c)

Inv == \A M \in Models : GreedyOK(M, M.F, x)

\* vacuity guard: weakened tokenisers break the effectiveness bound inside the explored scope
D1 == \A M \in Models :
        \E pat \in SeqsOf(6), n \in 40..60 :
           ~GreedyOK(M, [M.F EXCEPT !.W = M.F.W - 1], PeriodicInput(pat, n))
D2 == \A M \in Models :
        \E n \in 150..200 :
           ~GreedyOK(M, [M.F EXCEPT !.MaxLen = M.F.MaxLen - 1], PeriodicInput(<<0>>, n))
ASSUME D1
ASSUME D2
=============================================================================
