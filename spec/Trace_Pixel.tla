--------------------------- MODULE Trace_Pixel ---------------------------
(* Trace validation (impl -> spec) for C19.  Every event is one decoding done by
   mila: {kind, api, fmt, w, h, payload, pal, ok, pixels, err}.
     kind "tex"     3DS texture (fmt, w, h, payload) decoded through a container
                    reader or mila::decode (ETC1)
     kind "rgb5a3"  run of big-endian RGB5A3 values (ColorFormat::decode)
     kind "ci8"     w x h palette image: payload in 8x4 blocks, pal = RGB5A3 bytes
                    (single-image TPL)
     kind "indexed" linear indices + RGBA palette (ColorFormat::decode_indexed)
   An event is accepted iff the call returned pixels (ok) and every channel of
   every texel is one the specification allows.  Rejected indices are collected;
   validation continues.  *)
EXTENDS Pixel, TLC, Json, IOUtils

Rec == ndJsonDeserialize(IOEnv.TRACE)

VARIABLES i, bad, open
vars == <<i, bad, open>>

Accept(ev) ==
  /\ ev.ok
  /\ CASE ev.kind = "tex"     -> /\ ev.fmt \in Formats3DS
                                 /\ Len(ev.payload) = PayloadSize(ev.fmt, ev.w, ev.h)
                                 /\ ImageOK(ev.fmt, ev.w, ev.h, ev.payload, ev.pixels)
       [] ev.kind = "rgb5a3"  -> Rgb5a3RunOK(ev.payload, ev.pixels)
       [] ev.kind = "ci8"     -> /\ CI8InDomain(ev.w, ev.h, ev.payload, ev.pal)
                                 /\ CI8ImageOK(ev.w, ev.h, ev.payload, ev.pal, ev.pixels)
       [] ev.kind = "indexed" -> IndexedOK(ev.payload, ev.pal, ev.pixels)
       [] OTHER -> FALSE

\* number of ETC blocks of the event that are outside the ETC1 rules (their
\* sub-block-2 texels are unconstrained); the recorder is expected to produce none
OpenBlocks(ev) ==
  IF ev.kind = "tex" /\ ev.fmt \in EtcFormats /\ Len(ev.payload) = PayloadSize(ev.fmt, ev.w, ev.h)
  THEN LET bs == EtcBlockSize(ev.fmt = ETC1A4)
           n  == Len(ev.payload) \div bs
       IN Cardinality({ k \in 0..(n - 1) : ~EtcValid(ev.payload, k * bs + bs - 8) })
  ELSE 0

Why(ev) ==
  IF ~ev.ok THEN <<>>
  ELSE IF ev.kind = "tex" /\ Len(ev.pixels) = 4 * ev.w * ev.h /\ ev.fmt \in Formats3DS
            /\ Len(ev.payload) = PayloadSize(ev.fmt, ev.w, ev.h)
       THEN LET s == BadTexels(ev.fmt, ev.w, ev.h, ev.payload, ev.pixels)
                t == CHOOSE t \in s : \A u \in s : <<t[2], t[1]>> = <<u[2], u[1]>> \/ t[2] < u[2] \/ (t[2] = u[2] /\ t[1] < u[1])
                at == 4 * (t[2] * ev.w + t[1])
            IN <<Cardinality(s), t[1], t[2], ev.pixels[at + 1], ev.pixels[at + 2], ev.pixels[at + 3], ev.pixels[at + 4]>>
       ELSE <<>>

Init == i = 1 /\ bad = <<>> /\ open = 0

Next ==
  /\ i <= Len(Rec)
  /\ LET ev == Rec[i]
         acc == Accept(ev) IN
       /\ i' = i + 1
       /\ open' = open + OpenBlocks(ev)
       /\ bad' = IF acc THEN bad ELSE Append(bad, i)
       /\ acc \/ PrintT("B " \o ToJson([i |-> i, why |-> Why(ev)]))

Spec == Init /\ [][Next]_vars

Report == (i = Len(Rec) + 1) =>
            PrintT("R " \o ToJson([n |-> Len(Rec), bad |-> bad, open |-> open]))
=============================================================================
