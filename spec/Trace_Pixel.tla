--------------------------- MODULE Trace_Pixel ---------------------------
(* Trace validation (impl -> spec) for C19.  Every event is one decoding done by
   mila: {kind, api, gen, fmt, w, h, payload, pal, ok, pixels, err}.
     kind "tex"     3DS texture (fmt, w, h, payload) decoded through a container
                    reader (api "ctpk") or mila::decode (api "decode", ETC1)
     kind "rgb5a3"  run of big-endian RGB5A3 values (ColorFormat::decode)
     kind "ci8"     w x h palette image: payload in 8x4 blocks, pal = RGB5A3 bytes
                    (single-image TPL)
     kind "indexed" linear indices + RGBA palette (ColorFormat::decode_indexed)
   An event is accepted iff the call returned pixels (ok) and every channel of
   every texel is one the specification allows.

   The events are decodings of a pure function and independent of each other,
   so instead of one linear behaviour the events are the leaves of a two-level
   tree (root -> bucket -> event): TLC's workers validate buckets in parallel.
   One line "E {i, ok, open, why}" is printed per event; the check insists on
   exactly one line for each of the Len(Rec) events.  *)
EXTENDS Pixel, TLC, Json, IOUtils

Rec == ndJsonDeserialize(IOEnv.TRACE)
NB == 24

VARIABLE i          \* 0 root, -k bucket k, > 0 event index
Init == i = 0
Next == \/ i = 0 /\ i' \in { 0 - k : k \in 1..NB }
        \/ i < 0 /\ i' \in { j \in 1..Len(Rec) : (j % NB) + 1 = 0 - i }
Spec == Init /\ [][Next]_i

Accept(ev) ==
  /\ ev.ok
  /\ CASE ev.kind = "tex"     -> /\ ev.fmt \in Formats3DS
                                 /\ ev.w \in TexSides /\ ev.h \in TexSides
                                 /\ Len(ev.payload) = PayloadSize(ev.fmt, ev.w, ev.h)
                                 /\ ImageOK(ev.fmt, ev.w, ev.h, ev.payload, ev.pixels)
       [] ev.kind = "rgb5a3"  -> Rgb5a3RunOK(ev.payload, ev.pixels)
       [] ev.kind = "ci8"     -> /\ CI8InDomain(ev.w, ev.h, ev.payload, ev.pal)
                                 /\ CI8ImageOK(ev.w, ev.h, ev.payload, ev.pal, ev.pixels)
       [] ev.kind = "indexed" -> IndexedOK(ev.payload, ev.pal, ev.pixels)
       [] OTHER -> FALSE

\* number of ETC blocks of the event that are outside the ETC1 rules (their
\* sub-block-2 texels are unconstrained); the recorder is expected to produce none
OpenBlocks(ev) ==
  IF ev.kind = "tex" /\ ev.fmt \in EtcFormats /\ Len(ev.payload) = PayloadSize(ev.fmt, ev.w, ev.h)
  THEN LET bs == EtcBlockSize(ev.fmt = ETC1A4)
           n  == Len(ev.payload) \div bs
       IN Cardinality({ k \in 0..(n - 1) : ~EtcValid(ev.payload, k * bs + bs - 8) })
  ELSE 0

\* diagnosis of a rejected texture event: number of bad texels, the first one and what was there
Why(ev) ==
  IF ev.ok /\ ev.kind = "tex" /\ ev.fmt \in Formats3DS /\ Len(ev.pixels) = 4 * ev.w * ev.h
     /\ Len(ev.payload) = PayloadSize(ev.fmt, ev.w, ev.h)
  THEN LET s  == BadTexels(ev.fmt, ev.w, ev.h, ev.payload, ev.pixels)
           t  == CHOOSE t \in s : \A o \in s : t[2] * ev.w + t[1] <= o[2] * ev.w + o[1]
           at == 4 * (t[2] * ev.w + t[1])
       IN <<Cardinality(s), t[1], t[2], ev.pixels[at + 1], ev.pixels[at + 2], ev.pixels[at + 3], ev.pixels[at + 4]>>
  ELSE <<>>

Report ==
  i > 0 => LET ev == Rec[i]
               acc == Accept(ev)
           IN PrintT("E " \o ToJson([i |-> i, ok |-> acc, open |-> OpenBlocks(ev),
                                    why |-> IF acc THEN <<>> ELSE Why(ev)]))
=============================================================================
