------------------------------ MODULE LayeredFS ------------------------------
(* Layered filesystem (properties C12, C13 and the filesystem clause of C14).

   STATE.  L = non-empty sequence of layers, L[1] lowest priority, L[Len(L)] the top
   (highest priority, the only writable one).  A layer is a tree, represented as the set of
   its nodes below the (always present) root:
       [p |-> path (sequence of components, a component = byte string),
        k |-> "dir" | "file",
        b |-> stored bytes (<<>> for directories),
        x |-> [lz10 |-> E, lz13 |-> E]]     E = [ok |-> BOOLEAN, v |-> bytes]
   x is an OBSERVED ENVIRONMENT FUNCTION: what the LZ10 / LZ13 decompressor makes of the
   stored bytes.  The specification never computes an expansion (the compressor is not
   modelled either): a write to a path with the game's compressed suffix may store ANY
   bytes that start with the game's type byte and expand to the payload.  The set Cand of
   candidate stored forms [b, x] is a parameter: the bounded model passes literal-only
   streams, the trace validator passes what the implementation actually left on disk.

   OPERATIONS are functions to the SET of allowed outcomes [res |-> R, st |-> L'].
       R = [ok |-> BOOLEAN, e |-> error class, v |-> value]
   error classes: "notfound", "loc" (localisation), "io", "codec".
   Two corners on which the statement is silent are made explicit as an INTERPRETATION
   I = [rule, tsf] under which every operation is deterministic (up to Cand):
     rule \in {"req","act"}  whether the compressed suffix is looked for on the requested
                             or on the localised name (they differ only for a localised
                             single-component path of a prefix game, "x.cmp" -> "x.cmp/e_");
     tsf  \in BOOLEAN        whether a path with a trailing '/' can denote a FILE
                             (localised single-component paths end with '/').
   XOutcomes(...) is the union over all interpretations; the trace validator additionally
   demands that ONE interpretation explains a whole history ("the same top-down search",
   "read after write"). *)
EXTENDS Localize, TLC, SequencesExt

\* ------------------------------------------------------------------ configuration (the statement's table)
Games == {"FE9", "FE10", "FE11", "FE12", "FE13", "FE14", "FE15"}
SupportedGame(g) == g \in {"FE9", "FE10", "FE13", "FE14", "FE15"}
Cfg(g) == IF g \in {"FE9", "FE10"}
          THEN [endian |-> "be", text |-> "sjis",    comp |-> "lz10", loc |-> g]
          ELSE [endian |-> "le", text |-> "unicode", comp |-> "lz13", loc |-> g]
TypeByte(comp) == IF comp = "lz10" THEN 16 ELSE 19                   \* 0x10 / 0x13
CompSuffixes(comp) == IF comp = "lz10" THEN { <<46, 99, 109, 115>>, <<46, 99, 109, 112>> }   \* .cms .cmp
                      ELSE { <<46, 108, 122>> }                                               \* .lz
Interps == [rule : {"req", "act"}, tsf : BOOLEAN]

\* ------------------------------------------------------------------ results
Ok(v) == [ok |-> TRUE, e |-> "", v |-> v]
Err(e, dv) == [ok |-> FALSE, e |-> e, v |-> dv]       \* dv: a default of the operation's value type
IsPanic(r) == "panic" \in DOMAIN r
\* equality of a specified result with a logged one (a logged panic record equals nothing)
ResEq(a, b) == /\ ~IsPanic(b)
               /\ a.ok = b.ok /\ a.e = b.e
               /\ a.ok => a.v = b.v

\* ------------------------------------------------------------------ trees
XErr == [ok |-> FALSE, v |-> <<>>]
XOk(v) == [ok |-> TRUE, v |-> v]
NoX == [lz10 |-> XErr, lz13 |-> XErr]
DirNode(p) == [p |-> p, k |-> "dir", b |-> <<>>, x |-> NoX]
FileNode(p, b, x) == [p |-> p, k |-> "file", b |-> b, x |-> x]

Has(T, p) == p = <<>> \/ \E n \in T : n.p = p
At(T, p) == IF p = <<>> THEN DirNode(<<>>) ELSE CHOOSE n \in T : n.p = p
KindAt(T, p) == IF Has(T, p) THEN At(T, p).k ELSE "none"
ProperPrefixes(p) == { SubSeq(p, 1, i) : i \in 1..(Len(p) - 1) }
Under(d, p) == Len(p) > Len(d) /\ SubSeq(p, 1, Len(d)) = d
RelTo(d, p) == SubSeq(p, Len(d) + 1, Len(p))

WellFormedTree(T) ==
  /\ \A n, m \in T : n.p = m.p => n = m
  /\ \A n \in T : /\ Len(n.p) > 0
                  /\ \A i \in 1..Len(n.p) : NormalC(n.p[i])
                  /\ \A q \in ProperPrefixes(n.p) : KindAt(T, q) = "dir"
                  /\ n.k \in {"dir", "file"}
                  /\ n.k = "dir" => n.b = <<>>
WellFormed(L) == Len(L) >= 1 /\ \A i \in 1..Len(L) : WellFormedTree(L[i])

\* ------------------------------------------------------------------ paths
\* requested paths are relative, of plain components: [c, t]; the empty path is the root
\* (a requested path may carry a = TRUE, "starts with '/'": only the degenerate rooted paths "/", "//", "/.." of
\*  C14, and only in localized calls - an unlocalized rooted path would leave the layer and is out of scope)
AsPath(P) == [a |-> IF "a" \in DOMAIN P THEN P.a ELSE FALSE, c |-> P.c, t |-> P.t]
RenderRel(A) == Render(AsPath(A))
\* the actual (on-disk) path(s) of a request: the localisation mapping of C14, or the path itself
Actuals(cfg, lang, P, loc) ==
  IF loc THEN { IF o.ok THEN [ok |-> TRUE, p |-> [c |-> o.p.c, t |-> o.p.t]] ELSE [ok |-> FALSE, p |-> [c |-> <<>>, t |-> FALSE]]
                  : o \in LocalizeOutcomes(cfg.loc, lang, AsPath(P)) }
  ELSE { [ok |-> TRUE, p |-> [c |-> P.c, t |-> P.t]] }

HasCompSuffix(comp, A) == /\ Len(A.c) > 0 /\ ~A.t
                          /\ \E s \in CompSuffixes(comp) : EndsWith(A.c[Len(A.c)], s)
IsCompressed(I, cfg, P, A) == IF I.rule = "req" THEN HasCompSuffix(cfg.comp, P) ELSE HasCompSuffix(cfg.comp, A)

\* what an actual path denotes in one layer
Kind(I, T, A) == LET k == KindAt(T, A.c) IN IF k = "file" /\ A.t /\ ~I.tsf THEN "none" ELSE k
LayersWith(I, L, A, kinds) == { i \in 1..Len(L) : Kind(I, L[i], A) \in kinds }
MaxOf(S) == CHOOSE x \in S : \A y \in S : x >= y
TopIdx(L) == Len(L)

\* ------------------------------------------------------------------ read
ReadAt(I, L, cfg, P, A) ==
  LET S == LayersWith(I, L, A, {"file"}) IN
  IF S = {} THEN Err("notfound", <<>>)
  ELSE LET n == At(L[MaxOf(S)], A.c) IN
       IF IsCompressed(I, cfg, P, A)
       THEN (IF n.x[cfg.comp].ok THEN Ok(n.x[cfg.comp].v) ELSE Err("codec", <<>>))
       ELSE Ok(n.b)

ReadOutcomesI(I, L, cfg, lang, P, loc) ==
  { [res |-> IF a.ok THEN ReadAt(I, L, cfg, P, a.p) ELSE Err("loc", <<>>), st |-> L]
      : a \in Actuals(cfg, lang, P, loc) }

\* ------------------------------------------------------------------ write / create_dir
\* A failing mutation may leave behind directories it created on the way to the target
\* (a chain of missing proper prefixes); the statement only protects the lower layers.
Creatable(T, q) == ~Has(T, q) /\ \A r \in ProperPrefixes(q) : KindAt(T, r) # "file"
ChainDirs(T, qs, j) == { DirNode(q) : q \in { q \in qs : Len(q) <= j /\ Creatable(T, q) } }
Failures(L, e, qs, maxj) ==
  LET n == TopIdx(L) IN
  { [res |-> Err(e, <<>>), st |-> [L EXCEPT ![n] = L[n] \cup ChainDirs(L[n], qs, j)]] : j \in 0..maxj }

StoredOK(comp, z, data, c) ==
  IF z THEN Len(c.b) > 0 /\ c.b[1] = TypeByte(comp) /\ c.x[comp] = XOk(data)
  ELSE c.b = data

WriteAt(I, L, cfg, P, A, data, Cand) ==
  LET n == TopIdx(L)
      T == L[n]
      tgt == A.c
      z == IsCompressed(I, cfg, P, A)
      pp == ProperPrefixes(tgt)
      fails(e) == Failures(L, e, pp, Len(tgt) - 1)
  IN IF Len(tgt) = 0 THEN { [res |-> Err("io", <<>>), st |-> L] }          \* the root is a directory
     ELSE IF A.t /\ ~I.tsf THEN fails("io")                                  \* "x/" names no file
     ELSE IF \E q \in pp : KindAt(T, q) = "file" THEN fails("io")
     ELSE IF KindAt(T, tgt) = "dir" THEN fails("io")
     ELSE LET base == { m \in T : m.p # tgt } \cup { DirNode(q) : q \in { q \in pp : ~Has(T, q) } }
              good == { c \in Cand : StoredOK(cfg.comp, z, data, c) }
          IN { [res |-> Ok(<<>>), st |-> [L EXCEPT ![n] = base \cup { FileNode(tgt, c.b, c.x) }]] : c \in good }
             \* C09 leaves open whether LZ13 compression of the empty input succeeds
             \cup (IF z /\ cfg.comp = "lz13" /\ data = <<>> THEN fails("codec") ELSE {})

WriteOutcomesI(I, L, cfg, lang, P, loc, data, Cand) ==
  UNION { IF a.ok THEN WriteAt(I, L, cfg, P, a.p, data, Cand) ELSE { [res |-> Err("loc", <<>>), st |-> L] }
            : a \in Actuals(cfg, lang, P, loc) }

CreateDirAt(L, A) ==
  LET n == TopIdx(L)
      T == L[n]
      tgt == A.c
      all == ProperPrefixes(tgt) \cup {tgt}
  IN IF Len(tgt) = 0 THEN { [res |-> Ok(<<>>), st |-> L] }
     ELSE IF \E q \in all : KindAt(T, q) = "file" THEN Failures(L, "io", all, Len(tgt))
     ELSE { [res |-> Ok(<<>>), st |-> [L EXCEPT ![n] = T \cup { DirNode(q) : q \in { q \in all : ~Has(T, q) } }]] }

CreateDirOutcomesI(I, L, cfg, lang, P, loc) ==
  UNION { IF a.ok THEN CreateDirAt(L, a.p) ELSE { [res |-> Err("loc", <<>>), st |-> L] }
            : a \in Actuals(cfg, lang, P, loc) }

\* ------------------------------------------------------------------ existence queries, resolve
QueryKinds(op) == CASE op = "exists" -> {"file", "dir"}
                    [] op = "file_exists" -> {"file"}
                    [] op = "directory_exists" -> {"dir"}
ExistsOutcomesI(I, L, cfg, lang, P, loc, op) ==
  { [res |-> IF a.ok THEN Ok(LayersWith(I, L, a.p, QueryKinds(op)) # {}) ELSE Err("loc", FALSE), st |-> L]
      : a \in Actuals(cfg, lang, P, loc) }

NoResolve == [layer |-> 0, rel |-> <<>>]
ResolveAt(I, L, A) ==
  LET S == LayersWith(I, L, A, {"file", "dir"}) IN
  IF S = {} THEN Err("none", NoResolve) ELSE Ok([layer |-> MaxOf(S), rel |-> RenderRel(A)])
ResolveOutcomesI(I, L, cfg, lang, P, loc) ==
  { [res |-> IF a.ok THEN ResolveAt(I, L, a.p) ELSE Err("none", NoResolve), st |-> L]
      : a \in Actuals(cfg, lang, P, loc) }

\* ------------------------------------------------------------------ listings (C13)
\* byte-wise order on the '/'-joined spelling
LexLess(a, b) ==
  \E i \in 1..(Len(a) + 1) :
     /\ i <= Len(b)
     /\ SubSeq(a, 1, i - 1) = SubSeq(b, 1, i - 1)
     /\ (i = Len(a) + 1 \/ a[i] < b[i])
SortedListing(S) == SetToSortSeq({ Join(p) : p \in S }, LexLess)
\* equivalent characterisation used on long listings: strictly ascending and the same set
IsListingOf(v, S) == /\ \A i \in 1..(Len(v) - 1) : LexLess(v[i], v[i + 1])
                     /\ { v[i] : i \in 1..Len(v) } = { Join(p) : p \in S }

\* the closed pattern family; rel = path of the entry relative to the listed directory
NoGlob == [some |-> FALSE, s |-> ""]
Glob(s) == [some |-> TRUE, s |-> s]
GlobFamily == { NoGlob, Glob("*"), Glob("*.bin"), Glob("x*"), Glob("**/*.bin"), Glob("**/*") }
DotBin == <<46, 98, 105, 110>>
Matches(g, rel) ==
  LET name == rel[Len(rel)] IN
  CASE ~g.some -> TRUE                                   \* no pattern: every descendant
    [] g.some /\ g.s = "**/*" -> TRUE
    [] g.some /\ g.s = "*" -> Len(rel) = 1
    [] g.some /\ g.s = "*.bin" -> Len(rel) = 1 /\ EndsWith(name, DotBin)
    [] g.some /\ g.s = "x*" -> Len(rel) = 1 /\ StartsWith(name, <<120>>)
    [] g.some /\ g.s = "**/*.bin" -> EndsWith(name, DotBin)

ListedPaths(I, L, A, g) ==
  UNION { { n.p : n \in { n \in L[i] : Under(A.c, n.p) /\ Matches(g, RelTo(A.c, n.p)) } }
            : i \in LayersWith(I, L, A, {"dir"}) }
SubdirPaths(I, L, A) ==
  UNION { { n.p : n \in { n \in L[i] : n.k = "dir" /\ Under(A.c, n.p) /\ Len(n.p) = Len(A.c) + 1 } }
            : i \in LayersWith(I, L, A, {"dir"}) }

ListOutcomesI(I, L, cfg, lang, P, loc, g) ==
  { [res |-> IF a.ok THEN Ok(SortedListing(ListedPaths(I, L, a.p, g))) ELSE Err("loc", <<>>), st |-> L]
      : a \in Actuals(cfg, lang, P, loc) }
SubdirsOutcomesI(I, L, cfg, lang, P, loc) ==
  { [res |-> IF a.ok THEN Ok(SortedListing(SubdirPaths(I, L, a.p))) ELSE Err("loc", <<>>), st |-> L]
      : a \in Actuals(cfg, lang, P, loc) }

\* ------------------------------------------------------------------ typed helpers
\* helper = codec o byte-level read.  The codec is an observed environment function: ev.cd maps a
\* configuration key to the result of the parser called directly on the bytes of ev.rd; the key is
\* chosen here from the game's configuration.
ReadHelpers == {"read_archive", "read_text_archive", "read_fe9_arc", "read_arc",
                "read_tpl_textures", "read_bch_textures", "read_ctpk_textures", "read_cgfx_textures"}
WriteHelpers == {"write_archive", "write_text_archive"}
CodecKey(cfg, op) == CASE op = "read_archive" -> cfg.endian
                       [] op = "read_text_archive" -> cfg.text \o "-" \o cfg.endian
                       [] OTHER -> "any"
\* the helper fails iff either step fails, with the failing step's error
Compose(rd, c) == IF ~rd.ok THEN [ok |-> FALSE, e |-> rd.e] ELSE IF IsPanic(c) THEN [ok |-> FALSE, e |-> "panic"]
                  ELSE IF ~c.ok THEN [ok |-> FALSE, e |-> "codec"] ELSE [ok |-> TRUE, e |-> ""]
TypedReadAllowed(I, L, cfg, lang, ev) ==
  LET c == ev.cd[CodecKey(cfg, ev.op)]
      k == Compose(ev.rd, c)
  IN /\ \E o \in ReadOutcomesI(I, L, cfg, lang, ev.p, ev.loc) : ResEq(o.res, ev.rd)   \* the bytes are the read's
     /\ IF k.e = "panic" THEN IsPanic(ev.res)       \* the parser itself panics on these bytes: not the helper's fault
        ELSE /\ ~IsPanic(ev.res)
             /\ ev.res.ok = k.ok /\ ev.res.e = k.e
             /\ k.ok => ev.res.v = c.v

\* ------------------------------------------------------------------ dispatcher
\* ev = [op, p |-> [c, t], loc, data, glob, ...]
OutcomesI(I, L, cfg, lang, ev, Cand) ==
  CASE ev.op = "read"  -> ReadOutcomesI(I, L, cfg, lang, ev.p, ev.loc)
    [] ev.op = "write" -> WriteOutcomesI(I, L, cfg, lang, ev.p, ev.loc, ev.data, Cand)
    [] ev.op = "create_dir" -> CreateDirOutcomesI(I, L, cfg, lang, ev.p, ev.loc)
    [] ev.op \in {"exists", "file_exists", "directory_exists"} -> ExistsOutcomesI(I, L, cfg, lang, ev.p, ev.loc, ev.op)
    [] ev.op = "resolve" -> ResolveOutcomesI(I, L, cfg, lang, ev.p, ev.loc)
    [] ev.op = "list" -> ListOutcomesI(I, L, cfg, lang, ev.p, ev.loc, ev.glob)
    [] ev.op = "subdirectories" -> SubdirsOutcomesI(I, L, cfg, lang, ev.p, ev.loc)
    [] ev.op \in WriteHelpers ->
         \* archive writers: serialise (observed: ev.ser), then the byte-level write
         IF IsPanic(ev.ser) THEN {}
         ELSE IF ~ev.ser.ok THEN { [res |-> Err("codec", <<>>), st |-> L] }
         ELSE WriteOutcomesI(I, L, cfg, lang, ev.p, ev.loc, ev.ser.v, Cand)
Outcomes(L, cfg, lang, ev, Cand) == UNION { OutcomesI(I, L, cfg, lang, ev, Cand) : I \in Interps }

\* ------------------------------------------------------------------ properties of single outcomes (C12)
LowerLayersImmutable(L, o) ==
  /\ Len(o.st) = Len(L)
  /\ \A i \in 1..(Len(L) - 1) : o.st[i] = L[i]

\* in the top layer nothing but the target and the directories leading to it may change;
\* a successful write leaves a file at the target, its parents are directories
WriteTouchesOnlyTarget(L, A, o) ==
  LET n == TopIdx(L) IN
  /\ \A m \in L[n] : (m.p # A.c) => m \in o.st[n]
  /\ \A m \in o.st[n] : m \notin L[n] => (m.p = A.c \/ (m.p \in ProperPrefixes(A.c) /\ m.k = "dir"))
  /\ o.res.ok => /\ KindAt(o.st[n], A.c) = "file"
                 /\ \A q \in ProperPrefixes(A.c) : KindAt(o.st[n], q) = "dir"
  /\ ~o.res.ok => \A m \in o.st[n] : m \notin L[n] => m.k = "dir"

\* Read returns the bytes of the topmost layer in which the path is a file
ReadIsTopmostFile(I, L, cfg, P, A, r) ==
  LET S == LayersWith(I, L, A, {"file"}) IN
  /\ (r.ok \/ r.e = "codec") <=> S # {}
  /\ (~r.ok /\ r.e = "notfound") <=> S = {}
  /\ r.ok => \E i \in S : /\ \A j \in S : j <= i
                          /\ LET n == At(L[i], A.c) IN
                             r.v = IF IsCompressed(I, cfg, P, A) THEN n.x[cfg.comp].v ELSE n.b
=============================================================================
