------------------------------- MODULE Arc3ds -------------------------------
(* 3DS "arc" container (property C16).  mila has a reader only (arc::from_bytes).

   Value: sequence of <<name, bytes>> with pairwise distinct names (compared as a set).
   An arc is a little-endian bin archive whose CONTENT has
     - optionally 0x60 zero bytes at the start of the data region (the padded variant; in the
       un-padded variant the first data word is non-zero),
     - a label "Count" on a u32 holding the number of records,
     - a label "Info" on a table of 16-byte records: string cell (file name), u32 index,
       u32 size, u32 offset (relative to the end of the padding),
     - the file bodies anywhere else in the data region, any order, gaps, unaligned lengths.

   ArcContent(v, lay, err)  archive content for value v arranged as `lay` says; err # "none"
                            plants exactly one of the defects the statement calls an error
   Extract(c)               the reference extraction (total): [ok, files] or [ok |-> FALSE, err]
   Allowed(c, result)       what arc::from_bytes may return for an image with content c
   The file image is BinFormat!Canon(content) (wired in MC_Arc3ds). *)
EXTENDS Bytes, TLC

PadLenHdr == 96                                     \* 0x60
RecSize == 16
CountName == <<67, 111, 117, 110, 116>>             \* "Count"
InfoName == <<73, 110, 102, 111>>                   \* "Info"
DataName == <<68, 97, 116, 97>>                     \* "Data"

NoStr == [some |-> FALSE, v |-> <<>>]
Str(s) == [some |-> TRUE, v |-> s]
NameOf(f) == f[1]
BodyOf(f) == f[2]

IsArcValue(v) ==
  /\ \A i \in 1..Len(v) : Len(NameOf(v[i])) > 0 /\ \A k \in 1..Len(NameOf(v[i])) : NameOf(v[i])[k] \in 1..255
  /\ \A i, j \in 1..Len(v) : NameOf(v[i]) = NameOf(v[j]) => i = j

\* ------------------------------------------------------------------ layouts
(* lay = [padded : BOOLEAN,
          items  : sequence of [k |-> "count" | "info" | "body" | "gap", i |-> file index, b |-> gap bytes]
                   placement order in the data region after the padding; count and info are moved
                   up to the next 4-byte boundary (they hold cells), bodies and gaps are not,
          recs   : the order of the records in the Info table (a permutation of the file indices),
          extra  : BOOLEAN, also carry the labels real files have ("Data", one per record)] *)
Item(k, i, b) == [k |-> k, i |-> i, b |-> b]
IsLayoutFor(v, lay) ==
  LET n == Len(v) IN
  /\ Len(lay.recs) = n /\ \A i \in 1..n : \E j \in 1..n : lay.recs[j] = i
  /\ Cardinality({ x \in 1..Len(lay.items) : lay.items[x].k = "count" }) = 1
  /\ Cardinality({ x \in 1..Len(lay.items) : lay.items[x].k = "info" }) = 1
  /\ \A i \in 1..n : Cardinality({ x \in 1..Len(lay.items) : lay.items[x].k = "body" /\ lay.items[x].i = i }) = 1
  /\ \A x \in 1..Len(lay.items) : lay.items[x].k = "body" => lay.items[x].i \in 1..n

Base(lay) == IF lay.padded THEN PadLenHdr ELSE 0

\* pass 1: addresses
RECURSIVE AddrAcc(_, _, _, _, _)
AddrAcc(v, lay, x, pos, acc) ==
  IF x > Len(lay.items) THEN [acc EXCEPT !.end = pos]
  ELSE LET it == lay.items[x] IN
       CASE it.k = "count" -> AddrAcc(v, lay, x + 1, AlignUp(pos, 4) + 4, [acc EXCEPT !.count = AlignUp(pos, 4)])
         [] it.k = "info"  -> AddrAcc(v, lay, x + 1, AlignUp(pos, 4) + RecSize * Len(v), [acc EXCEPT !.info = AlignUp(pos, 4)])
         [] it.k = "body"  -> AddrAcc(v, lay, x + 1, pos + Len(BodyOf(v[it.i])), [acc EXCEPT !.body[it.i] = pos])
         [] OTHER          -> AddrAcc(v, lay, x + 1, pos + Len(it.b), acc)
Addrs(v, lay) == AddrAcc(v, lay, 1, Base(lay), [count |-> 0, info |-> 0, body |-> [i \in 1..Len(v) |-> 0], end |-> 0])

(* err = [kind |-> "none" | "nocount" | "noinfo" | "noname" | "end" | "start" | "words" | "wrapsum", j |-> record position, ...]
   "end" / "start"  a range ending one byte past / starting past the end of the data region;
   "words"          [.., ow |-> offset word, sw |-> size word]: 32-bit field values anywhere in the u32 range,
                    given as 4 bytes, most significant first (<<>> = leave the field as it is).  TLC integers are
                    32 bit, so such values never become numbers: they go into the data as bytes and Extract
                    classifies them through Rd32 (which yields Huge from 2^31 on);
   "wrapsum"        size word = 2^32 - (absolute start address): start + size is 0 modulo 2^32 although the
                    range leaves the data region by almost 4 GiB. *)
(* "overcount" / "overfields"   NOT errors: record j's range is the Count word (4 bytes) / the index, size and
                    offset fields of the first record (12 bytes).  Those are ordinary bytes of the data region, so
                    the extraction of that record is exactly those bytes (Extract says which).  A range that touches a
                    NAME cell is different: what the image holds there is a file-relative text offset, and the
                    statement does not say what is extracted - see TouchesNameCell. *)
(* "nameptr"        [.., target |-> "zero" | "base" | "ds4" | "ds1" | "ds", listed |-> BOOLEAN]: the name cell of record j
                    holds an ADDRESS of the data region (its start, the record itself, 4 / 1 bytes before the end,
                    the end) instead of a string reference, either as a pointer cell listed in the pointer table
                    or as plain bytes.  A pointer into the data region, end included, is not a string:
                    the record has no name. *)
NoErr == [kind |-> "none", j |-> 0]
NamePtrTarget(lay, ad, err) ==
  CASE err.target = "zero" -> 0
    [] err.target = "base" -> ad.info + RecSize * (err.j - 1)
    [] err.target = "ds4"  -> ad.end - 4
    [] err.target = "ds1"  -> ad.end - 1
    [] OTHER               -> ad.end
\* the 32-bit two's complement of d (1 <= d <= 65535), most significant byte first
NegWord(d) == <<255, 255, (65536 - d) \div 256, (65536 - d) % 256>>
RecBytes(v, lay, ad, err, j) ==
  LET f == lay.recs[j]
      len == Len(BodyOf(v[f]))
      hit == err.j = j
      size == IF err.kind = "overcount" /\ hit THEN 4
              ELSE IF err.kind = "overfields" /\ hit THEN 12
              ELSE IF err.kind = "end" /\ hit THEN (ad.end - ad.body[f]) + 1             \* one byte past the region
              ELSE IF err.kind \in {"start", "words"} /\ hit /\ len = 0 THEN 1            \* the planted range is not empty
              ELSE len
      off == IF err.kind = "overcount" /\ hit THEN ad.count - Base(lay)
             ELSE IF err.kind = "overfields" /\ hit THEN (ad.info + 4) - Base(lay)
             ELSE IF err.kind = "start" /\ hit THEN (ad.end - Base(lay)) + 3              \* starts past the region
             ELSE ad.body[f] - Base(lay)
      sizeW == IF err.kind = "words" /\ hit /\ err.sw # <<>> THEN Word32(err.sw, "le")
               ELSE IF err.kind = "wrapsum" /\ hit THEN Word32(NegWord(IF ad.body[f] = 0 THEN 1 ELSE ad.body[f]), "le")
               ELSE U32(size, "le")
      offW == IF err.kind = "words" /\ hit /\ err.ow # <<>> THEN Word32(err.ow, "le") ELSE U32(off, "le")
      nameW == IF err.kind = "nameptr" /\ hit /\ ~err.listed THEN U32(NamePtrTarget(lay, ad, err), "le") ELSE Zeros(4)
  IN nameW \o U32(f - 1, "le") \o sizeW \o offW

\* pass 2: bytes
RECURSIVE DataAcc(_, _, _, _, _, _)
DataAcc(v, lay, ad, err, x, acc) ==
  IF x > Len(lay.items) THEN acc
  ELSE LET it == lay.items[x]
           al == Zeros(AlignUp(Len(acc), 4) - Len(acc))
       IN CASE it.k = "count" -> DataAcc(v, lay, ad, err, x + 1, acc \o al \o U32(Len(v), "le"))
            [] it.k = "info"  -> DataAcc(v, lay, ad, err, x + 1,
                                         acc \o al \o FlattenSeq([j \in 1..Len(v) |-> RecBytes(v, lay, ad, err, j)]))
            [] it.k = "body"  -> DataAcc(v, lay, ad, err, x + 1, acc \o BodyOf(v[it.i]))
            [] OTHER          -> DataAcc(v, lay, ad, err, x + 1, acc \o it.b)

\* <<addr, name>> pairs -> content labels (sorted by address, per-address order kept)
GroupLabels(pairs) ==
  LET addrs == SortSeq(SetToSeq({ pairs[i][1] : i \in 1..Len(pairs) }), LAMBDA x, y : x < y)
  IN [k \in 1..Len(addrs) |->
        <<addrs[k], LET sel == SelectSeq(pairs, LAMBDA p : p[1] = addrs[k]) IN [m \in 1..Len(sel) |-> sel[m][2]]>>]

ArcContent(v, lay, err) ==
  LET ad == Addrs(v, lay)
      n == Len(v)
      pairs == (IF lay.extra THEN << <<Base(lay), DataName>> >> ELSE <<>>)
               \o (IF err.kind = "nocount" THEN <<>> ELSE << <<ad.count, CountName>> >>)
               \o (IF err.kind = "noinfo" THEN <<>> ELSE << <<ad.info, InfoName>> >>)
               \o (IF lay.extra THEN [j \in 1..n |-> <<ad.info + RecSize * (j - 1), NameOf(v[lay.recs[j]])>>] ELSE <<>>)
      named == SelectSeq([j \in 1..n |-> j], LAMBDA j : ~(err.kind \in {"noname", "nameptr"} /\ err.j = j))
  IN [endian |-> "le",
      data   |-> DataAcc(v, lay, ad, err, 1, Zeros(Base(lay))),
      text   |-> [m \in 1..Len(named) |-> <<ad.info + RecSize * (named[m] - 1), NameOf(v[lay.recs[named[m]]])>>],
      ptrs   |-> IF err.kind = "nameptr" /\ err.listed
                 THEN << <<ad.info + RecSize * (err.j - 1), NamePtrTarget(lay, ad, err)>> >> ELSE <<>>,
      labels |-> GroupLabels(pairs),
      cstr   |-> <<>>]

\* ------------------------------------------------------------------ reference extraction
ErrR(e) == [ok |-> FALSE, err |-> e]
LabelAddr(c, name) ==
  IF \E i \in 1..Len(c.labels) : \E j \in 1..Len(c.labels[i][2]) : c.labels[i][2][j] = name
  THEN c.labels[CHOOSE i \in 1..Len(c.labels) : \E j \in 1..Len(c.labels[i][2]) : c.labels[i][2][j] = name][1]
  ELSE -1
StringAt(c, a) ==
  IF \E i \in 1..Len(c.text) : c.text[i][1] = a
  THEN Str(c.text[CHOOSE i \in 1..Len(c.text) : c.text[i][1] = a][2]) ELSE NoStr
(* The first data word OF THE IMAGE.  A string cell holds the (non-zero) offset of its text, a pointer cell its
   target; content.data carries no meaningful bytes for such cells, so the word is zero iff cell 0 is not a string
   cell and either is a pointer cell with target 0 or is plain data with four zero bytes.  (An un-padded arc
   may begin with the Info table: its first word is then the text offset of the first record's name.) *)
FirstWordZero(c) ==
  /\ ~\E i \in 1..Len(c.text) : c.text[i][1] = 0
  /\ IF \E i \in 1..Len(c.ptrs) : c.ptrs[i][1] = 0
     THEN \E i \in 1..Len(c.ptrs) : c.ptrs[i][1] = 0 /\ c.ptrs[i][2] = 0
     ELSE c.data[1] = 0 /\ c.data[2] = 0 /\ c.data[3] = 0 /\ c.data[4] = 0
PadOf(c) == IF FirstWordZero(c) THEN PadLenHdr ELSE 0

RecName(c, ia, j) == StringAt(c, ia + RecSize * (j - 1))
RecLen(c, ia, j) == Rd32(c.data, ia + RecSize * (j - 1) + 8, "le")
RecOff(c, ia, j) == Rd32(c.data, ia + RecSize * (j - 1) + 12, "le")
\* the recorded range [start, start + len) lies inside the data region
RangeInside(c, ia, j) ==
  LET len == RecLen(c, ia, j)  off == RecOff(c, ia, j)  size == Len(c.data) IN
  /\ len # Huge /\ off # Huge /\ len <= size /\ off <= size
  /\ off + PadOf(c) + len <= size

Extract(c) ==
  LET ca == LabelAddr(c, CountName)
      ia == LabelAddr(c, InfoName)
      size == Len(c.data)
  IN IF ca < 0 THEN ErrR("NoCount")
     ELSE IF ia < 0 THEN ErrR("NoInfo")
     ELSE IF size < 4 \/ ca + 4 > size THEN ErrR("CountOutside")
     ELSE LET n == Rd32(c.data, ca, "le") IN
          IF n = Huge \/ n > size THEN ErrR("TableOutside")
          ELSE IF ia + RecSize * n > size THEN ErrR("TableOutside")
          ELSE IF \E j \in 1..n : ~RecName(c, ia, j).some THEN ErrR("MissingName")
          ELSE IF \E j \in 1..n : ~RangeInside(c, ia, j) THEN ErrR("RangeOutside")
          ELSE [ok |-> TRUE,
                files |-> [j \in 1..n |->
                             <<RecName(c, ia, j).v,
                               SubSeq(c.data, RecOff(c, ia, j) + PadOf(c) + 1, RecOff(c, ia, j) + PadOf(c) + RecLen(c, ia, j))>>]]

\* some (non-empty) recorded range shares a byte with a string or pointer cell
TouchesNameCell(c) ==
  LET ca == LabelAddr(c, CountName)  ia == LabelAddr(c, InfoName) IN
  /\ Extract(c).ok
  /\ \E j \in 1..Rd32(c.data, ca, "le") :
       LET lo == RecOff(c, ia, j) + PadOf(c)  hi == lo + RecLen(c, ia, j) IN
       \/ \E i \in 1..Len(c.text) : lo < c.text[i][1] + 4 /\ c.text[i][1] < hi
       \/ \E i \in 1..Len(c.ptrs) : lo < c.ptrs[i][1] + 4 /\ c.ptrs[i][1] < hi
AsSet(files) == { files[i] : i \in 1..Len(files) }
DistinctNames(files) == \A i, j \in 1..Len(files) : files[i][1] = files[j][1] => i = j

\* the layout rules of the statement
Conforms(c) ==
  /\ Extract(c).ok
  /\ ~TouchesNameCell(c)
  /\ DistinctNames(Extract(c).files)
  /\ FirstWordZero(c) => (Len(c.data) >= PadLenHdr /\ \A p \in 1..PadLenHdr : c.data[p] = 0)
\* an error the statement names
IsErrorLayout(c) == ~Extract(c).ok
\* the statement is silent about an EMPTY range that starts past the end of the region
EmptyRangePastEnd(c) ==
  LET ca == LabelAddr(c, CountName)  ia == LabelAddr(c, InfoName) IN
  /\ ~Extract(c).ok /\ Extract(c).err = "RangeOutside"
  /\ \A j \in 1..Rd32(c.data, ca, "le") : ~RangeInside(c, ia, j) => RecLen(c, ia, j) = 0

\* result = [ok |-> TRUE, files |-> sequence of <<name, bytes>>] | [ok |-> FALSE, files |-> <<>>, ...]
\* (a panic has neither shape: records with other fields are never equal to these)
Allowed(c, result) ==
  IF TouchesNameCell(c) THEN TRUE           \* the statement is silent about ranges over string / pointer cells
  ELSE IF Extract(c).ok
  THEN /\ DOMAIN result = {"ok", "files"} /\ result.ok
       /\ Len(result.files) = Len(Extract(c).files)
       /\ AsSet(result.files) = AsSet(Extract(c).files)
  ELSE IF EmptyRangePastEnd(c) THEN TRUE
  ELSE "ok" \in DOMAIN result /\ ~result.ok

\* ------------------------------------------------------------------ arcs too large for a full reference parse
(* For record counts around 2^16 the image (about 2 MB) is built by the harness from a RULE: file i (0-based)
   is named BigName(i) and holds BigBody(i), placed by the same layout builder whose small outputs are
   validated in full through Conforms / Extract.  Of such an image only a summary is validated:
     result = [ok, count |-> number of entries returned, sample |-> <<[i, name, found, bytes] ...>>]
   the count must be the number of records and every sampled file (first, last, every 4099th, the
   indices around 2^8 and 2^16) must have come back under the rule's name with the rule's bytes.
   The middle of such an image is only sampled. *)
RECURSIVE Dec(_)
Dec(n) == IF n < 10 THEN <<48 + n>> ELSE Dec(n \div 10) \o <<48 + (n % 10)>>
BigName(i) == (IF i % 1000 = 7 THEN <<130, 160>> ELSE <<102>>) \o Dec(i)        \* hiragana a / "f", then the index
BigBody(i) == IF i % 251 = 0 THEN <<i % 256, (i \div 256) % 256>> ELSE <<>>
RequiredSample(n) ==
  { i \in {0, n - 1, 254, 255, 256, 257, 65534, 65535, 65536} : i >= 0 /\ i < n }
  \cup { 4099 * k : k \in 0..((n - 1) \div 4099) }
\* the image really announces n string cells and the labels the builder put (Count, Info and, with the extra
\* labels, Data and one per record): desc = [n, image_bytes, strings, labels, head]
BigImageOK(desc) ==
  /\ desc.n \in 0..1048576 /\ desc.strings = desc.n /\ desc.labels \in {2, desc.n + 3}
  /\ Len(desc.head) = 32
  /\ Rd32(desc.head, 0, "le") = desc.image_bytes
  /\ Rd32(desc.head, 8, "le") = desc.strings
  /\ Rd32(desc.head, 12, "le") = desc.labels
BigAllowed(n, result) ==
  /\ "ok" \in DOMAIN result /\ result.ok
  /\ result.count = n
  /\ n > 0 => \A i \in RequiredSample(n) : \E k \in 1..Len(result.sample) : result.sample[k].i = i
  /\ \A k \in 1..Len(result.sample) :
        LET x == result.sample[k] IN x.found /\ x.name = BigName(x.i) /\ x.bytes = BigBody(x.i)
=============================================================================
