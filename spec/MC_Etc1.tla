------------------------------ MODULE MC_Etc1 ------------------------------
(* C19, ETC1 / ETC1A4:
     MC_Etc1.cfg   laws of the block rules (field map of the 64-bit word, sub-block
                   geometry, modifier codes, differential arithmetic), exhaustive
     Gen_Etc1.cfg  generator: textures assembled from enumerated blocks
                   (A) both modes x both flips x all 8x8 table pairs x 4 selector
                       rotations (every pixel position sees all four codes)
                   (B) per channel: all 16x16 individual pairs and every (base, delta)
                       whose sum stays in 0..31, both flips, tables/selectors varying
                   (C, thorough) black / white base colours with every mode, flip,
                       table pair and rotation (clamping at both ends)
                   with the exact expected image (ETC1A4: alpha within Near(.,.,4)).  *)
EXTENDS TexContainers, TLC, Json, IOUtils, SequencesExt

Tier == IF "VERIF_TIER" \in DOMAIN IOEnv THEN IOEnv.VERIF_TIER ELSE "quick"

VARIABLE c
Init == c = <<"root">>

\* ------------------------------------------------------------------ blocks
\* selector words for rotation s: pixel i gets code (i + s) % 4; code = 2*msb + lsb
SelLsb(s) == LET Bv(i) == ((i + s) % 4) % 2 IN
             [j \in 1..2 |-> Bv(8 * (j - 1)) + 2 * Bv(8 * (j - 1) + 1) + 4 * Bv(8 * (j - 1) + 2) + 8 * Bv(8 * (j - 1) + 3)
                            + 16 * Bv(8 * (j - 1) + 4) + 32 * Bv(8 * (j - 1) + 5) + 64 * Bv(8 * (j - 1) + 6) + 128 * Bv(8 * (j - 1) + 7)]
SelMsb(s) == LET Bv(i) == ((i + s) % 4) \div 2 IN
             [j \in 1..2 |-> Bv(8 * (j - 1)) + 2 * Bv(8 * (j - 1) + 1) + 4 * Bv(8 * (j - 1) + 2) + 8 * Bv(8 * (j - 1) + 3)
                            + 16 * Bv(8 * (j - 1) + 4) + 32 * Bv(8 * (j - 1) + 5) + 64 * Bv(8 * (j - 1) + 6) + 128 * Bv(8 * (j - 1) + 7)]
\* colour block: selector rotation s, tables t1 t2, mode (1 = differential), flip, blue green red bytes
Block(s, t1, t2, mode, flip, bb, gb, rb) ==
  SelLsb(s) \o SelMsb(s) \o <<t1 * 32 + t2 * 4 + mode * 2 + flip, bb, gb, rb>>

\* a colour byte is admissible in mode m
ByteOK(m, v) == m = 0 \/ ((v \div 8) + SExt3(v % 8)) \in 0..31
NeutralByte(m) == IF m = 0 THEN 133 ELSE 130      \* 8|5 individual ; base 16 delta +2

SetA == { Block(s, t1, t2, m, fl, NeutralByte(m), NeutralByte(m), NeutralByte(m)) :
            s \in 0..3, t1 \in 0..7, t2 \in 0..7, m \in 0..1, fl \in 0..1 }
SetB == { LET t1 == v % 8  t2 == (v \div 8) % 8  s == (v + ch) % 4
              Ch(q) == IF q = ch THEN v ELSE NeutralByte(m)
          IN Block(s, t1, t2, m, fl, Ch(2), Ch(1), Ch(0)) :
            ch \in 0..2, m \in 0..1, fl \in 0..1, v \in 0..255 }
SetBValid == { b \in SetB : EtcValid(b, 0) }

\* (C, thorough) the extreme base colours with every mode, flip, table pair and rotation: clamping
SetC == IF Tier = "quick" THEN {}
        ELSE { Block(s, t1, t2, m, fl, v, v, v) :
                 s \in 0..3, t1 \in 0..7, t2 \in 0..7, m \in 0..1, fl \in 0..1, v \in {0, 248, 255} }
\* a deterministic enumeration (TLC keeps sets normalised)
BlocksA == SetToSeq(SetA)
BlocksB == SetToSeq(SetBValid)
BlocksC == SetToSeq({ b \in SetC : EtcValid(b, 0) })

\* ------------------------------------------------------------------ laws
Zero8 == <<0, 0, 0, 0, 0, 0, 0, 0>>
OneBit(q) == [k \in 1..8 |-> IF k = (q \div 8) + 1 THEN 2 ^ (q % 8) ELSE 0]
\* the fields of the word as read by the rules: <<name, lo, n>>
Fields(mode) ==
  IF mode = 0
  THEN { <<"r1", 60, 4>>, <<"r2", 56, 4>>, <<"g1", 52, 4>>, <<"g2", 48, 4>>, <<"b1", 44, 4>>, <<"b2", 40, 4>>,
         <<"t1", 37, 3>>, <<"t2", 34, 3>>, <<"diff", 33, 1>>, <<"flip", 32, 1>>,
         <<"msb-hi", 24, 8>>, <<"msb-lo", 16, 8>>, <<"lsb-hi", 8, 8>>, <<"lsb-lo", 0, 8>> }
  ELSE { <<"r", 59, 5>>, <<"dr", 56, 3>>, <<"g", 51, 5>>, <<"dg", 48, 3>>, <<"b", 43, 5>>, <<"db", 40, 3>>,
         <<"t1", 37, 3>>, <<"t2", 34, 3>>, <<"diff", 33, 1>>, <<"flip", 32, 1>>,
         <<"msb-hi", 24, 8>>, <<"msb-lo", 16, 8>>, <<"lsb-hi", 8, 8>>, <<"lsb-lo", 0, 8>> }

LawCases == { <<"fields">>, <<"geometry">>, <<"codes">>, <<"diff">>, <<"indiv">>, <<"clamp">>, <<"sets">> }

Law(k) ==
  CASE k[1] = "root" -> TRUE
    [] k[1] = "fields" ->
         \* every bit of the word belongs to exactly one field, in both modes
         \A mode \in {0, 1} : \A q \in 0..63 :
            Cardinality({ f \in Fields(mode) : BitsLE(OneBit(q), 0, f[2], f[3]) # 0 }) = 1
    [] k[1] = "geometry" ->
         \A fl \in {0, 1} :
           LET b == Block(0, 0, 0, 0, fl, 0, 0, 0) IN
           /\ EtcFlip(b, 0) = (fl = 1)
           /\ \A sub \in {1, 2} :
                Cardinality({ p \in (0..3) \X (0..3) : EtcSub(b, 0, p[1], p[2]) = sub }) = 8
           /\ \A px, py \in 0..3 :
                EtcSub(b, 0, px, py) = (IF fl = 0 THEN (IF px <= 1 THEN 1 ELSE 2) ELSE (IF py <= 1 THEN 1 ELSE 2))
    [] k[1] = "codes" ->
         \* code 0 -> +small, 1 -> +large, 2 -> -small, 3 -> -large; pixel i = 4x + y
         /\ Len(EtcModTable) = 8
         /\ \A t \in 1..8 : 0 < EtcModTable[t][1] /\ EtcModTable[t][1] < EtcModTable[t][2]
         /\ \A t \in 1..7 : EtcModTable[t][1] < EtcModTable[t + 1][1] /\ EtcModTable[t][2] < EtcModTable[t + 1][2]
         /\ \A s \in 0..3, t1 \in 0..7, t2 \in 0..7, fl \in 0..1 :
              LET b == Block(s, t1, t2, 0, fl, 0, 0, 0) IN
              \A px, py \in 0..3 :
                LET code == (4 * px + py + s) % 4
                    t    == IF EtcSub(b, 0, px, py) = 1 THEN t1 ELSE t2
                IN EtcModifier(b, 0, px, py) =
                     (CASE code = 0 -> EtcModTable[t + 1][1] [] code = 1 -> EtcModTable[t + 1][2]
                        [] code = 2 -> 0 - EtcModTable[t + 1][1] [] code = 3 -> 0 - EtcModTable[t + 1][2])
    [] k[1] = "diff" ->
         \A v \in 0..255 : \A ch \in 0..2 :
           LET b == [Zero8 EXCEPT ![5] = 2, ![8 - ch] = v]
               base == v \div 8
               d == IF v % 8 >= 4 THEN (v % 8) - 8 ELSE v % 8
           IN /\ EtcDiff(b, 0)
              /\ EtcBase5(b, 0, ch) = base /\ EtcDelta3(b, 0, ch) = d
              /\ EtcChanValid(b, 0, ch) = (base + d >= 0 /\ base + d <= 31)
              /\ EtcBaseColour(b, 0, 1, ch) = base * 8 + (base \div 4)
              /\ EtcChanValid(b, 0, ch) => EtcBaseColour(b, 0, 2, ch) = (base + d) * 8 + ((base + d) \div 4)
              /\ \A o \in (0..2) \ {ch} : EtcBaseColour(b, 0, 1, o) = 0 /\ EtcBaseColour(b, 0, 2, o) = 0
    [] k[1] = "indiv" ->
         \A v \in 0..255 : \A ch \in 0..2 :
           LET b == [Zero8 EXCEPT ![8 - ch] = v] IN
           /\ ~EtcDiff(b, 0) /\ EtcValid(b, 0)
           /\ EtcBaseColour(b, 0, 1, ch) = 17 * (v \div 16)
           /\ EtcBaseColour(b, 0, 2, ch) = 17 * (v % 16)
    [] k[1] = "clamp" ->
         \* white with the largest negative step and black with the largest positive one
         LET bw == Block(3, 7, 7, 0, 0, 255, 255, 255)   \* pixel 0 has code 3
             bk == Block(1, 7, 7, 0, 0, 0, 0, 0)         \* pixel 0 has code 1
         IN /\ \A ch \in 0..2 : EtcColour(bw, 0, 0, 0, ch) = 255 - 183 /\ EtcColour(bk, 0, 0, 0, ch) = 183
            /\ \A ch \in 0..2 : EtcColour(bw, 0, 0, 1, ch) = 255     \* code 0: 255 + 47 clamps
            /\ \A ch \in 0..2 : EtcColour(bk, 0, 0, 1, ch) = 0       \* code 2: 0 - 47 clamps
            /\ \A b \in {bw, bk} : \A px, py \in 0..3 : \A ch \in 0..2 : EtcColour(b, 0, px, py, ch) \in 0..255
    [] k[1] = "sets" ->
         /\ Cardinality(SetA) = 1024
         /\ \A b \in SetA : EtcValid(b, 0)
         /\ Cardinality(SetBValid) = 3 * 2 * (256 + 240)
         \* every pixel position sees all four codes in set A
         /\ \A i \in 0..15 : { <<BitsLE(b, 0, 16 + i, 1), BitsLE(b, 0, i, 1)>> : b \in SetA } = {0, 1} \X {0, 1}

LawNext == c = <<"root">> /\ c' \in LawCases
LawSpec == Init /\ [][LawNext]_c
LawInv == Law(c)

\* ------------------------------------------------------------------ generator
TName == <<116, 120>>
Side == 64                      \* 64x64 texture = 256 blocks
PerTex == (Side \div 4) * (Side \div 4)
AllBlocks == BlocksA \o BlocksB \o BlocksC
NTex == (Len(AllBlocks) + PerTex - 1) \div PerTex
\* block j (1-based, wrapping) of the enumeration
BlockNo(j) == AllBlocks[((j - 1) % Len(AllBlocks)) + 1]
ColourPayload(t) == Concat([j \in 1..PerTex |-> BlockNo((t - 1) * PerTex + j)])
\* ETC1A4: alpha nibble of pixel i in block j is (i + j) % 16
AlphaBytes(j) == [k \in 1..8 |-> ((2 * (k - 1) + j) % 16) + 16 * ((2 * (k - 1) + 1 + j) % 16)]
AlphaPayload(t) == Concat([j \in 1..PerTex |-> AlphaBytes(j + t) \o BlockNo((t - 1) * PerTex + j)])

\* ETC1A4 with a uniform alpha word (fully transparent, fully opaque, mid): the colour rules hold whatever the alpha
UniformAlpha(a) == [k \in 1..8 |-> a + 16 * a]
UniformAlphaPayload(a) == Concat([j \in 1..PerTex |-> UniformAlpha(a) \o BlockNo(7 * j + a)])

GenCases == { <<"etc1", t>> : t \in 1..NTex }
            \cup { <<"etc1a4u", a>> : a \in {0, 15, 7} }
            \cup { <<"etc1a4", t>> : t \in 1..(IF Tier = "quick" THEN 4 ELSE NTex) }
            \cup { <<"small", f, cc>> : f \in EtcFormats, cc \in {"ctpk", "bch", "cgfx"} }

EmitTexIn(cc, f, w, h, b) ==
  LET srcs == ImageSrcs(f, w, h, b) IN
  PrintT("G " \o ToJson([api |-> "etc", c |-> cc, fmt |-> f, w |-> w, h |-> h, payload |-> b, pal |-> <<>>,
                        file |-> CanonHead(cc, TName, f, w, h) \o b,
                        lo |-> BoundOf(srcs, FALSE), hi |-> BoundOf(srcs, TRUE)]))
EmitTex(f, w, h, b) == EmitTexIn("ctpk", f, w, h, b)
Emit ==
  CASE c[1] \in {"root", "bucket"} -> TRUE
    [] c[1] = "etc1"   -> EmitTex(ETC1, Side, Side, ColourPayload(c[2]))
    [] c[1] = "etc1a4" -> EmitTex(ETC1A4, Side, Side, AlphaPayload(c[2]))
    [] c[1] = "etc1a4u" -> EmitTex(ETC1A4, Side, Side, UniformAlphaPayload(c[2]))
    [] c[1] = "small"  ->
         \* non-square, so that width and height cannot be confused
         LET w == 16  h == 8  n == (w \div 4) * (h \div 4) IN
         \* ... and through every container that can carry the format
         EmitTexIn(c[3], c[2], w, h, IF c[2] = ETC1 THEN Concat([j \in 1..n |-> BlockNo(37 * j)])
                             ELSE Concat([j \in 1..n |-> AlphaBytes(3 * j) \o BlockNo(37 * j)]))

\* two levels, so that several workers share the cases
NBuckets == 6
CaseSeq == SetToSeq(GenCases)
GenNext == \/ c = <<"root">> /\ c' \in { <<"bucket", k>> : k \in 0..(NBuckets - 1) }
           \/ c[1] = "bucket" /\ c' \in { CaseSeq[j] : j \in { q \in 1..Len(CaseSeq) : q % NBuckets = c[2] } }
GenSpec == Init /\ [][GenNext]_c
=============================================================================
