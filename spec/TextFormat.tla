----------------------------- MODULE TextFormat -----------------------------
(* The text archive FILE FORMAT (property C06), layered on BinFormat.

   value  = [title   |-> Shift-JIS byte string (stored only by the "unicode" format),
             entries |-> sequence of <<key, message>>, keys pairwise distinct]
   key     : Shift-JIS byte string (it becomes a label name)
   message : "sjis" format    - NUL-free Shift-JIS byte string
             "unicode" format - sequence of non-zero UTF-16 code units (stored little-endian
                                whatever the archive's endianness)

   Data region: [title, NUL, zero pad to 4   -- unicode format only]
                then per entry: encoded message, terminator (1 or 2 NULs), zero pad to 4.
   Every message starts on a 4-byte boundary and carries its key as the label of that address. *)
EXTENDS BinFormat

UnitsLE(m) == FlattenSeq([i \in 1..Len(m) |-> <<m[i] % 256, m[i] \div 256>>])
EncMsg(m, fmt) == IF fmt = "unicode" THEN PadTo(UnitsLE(m) \o <<0, 0>>, 4) ELSE PadTo(m \o <<0>>, 4)
TitleBytes(v, fmt) == IF fmt = "unicode" THEN PadTo(v.title \o <<0>>, 4) ELSE <<>>

RECURSIVE EntryOffsetsAcc(_, _, _, _, _)
EntryOffsetsAcc(es, fmt, i, off, acc) ==
  IF i > Len(es) THEN acc
  ELSE EntryOffsetsAcc(es, fmt, i + 1, off + Len(EncMsg(es[i][2], fmt)), Append(acc, off))
EntryOffsets(v, fmt) == EntryOffsetsAcc(v.entries, fmt, 1, Len(TitleBytes(v, fmt)), <<>>)

TextContent(v, fmt, e) ==
  LET offs == EntryOffsets(v, fmt)
  IN [endian |-> e,
      data   |-> TitleBytes(v, fmt) \o FlattenSeq([i \in 1..Len(v.entries) |-> EncMsg(v.entries[i][2], fmt)]),
      text   |-> <<>>, ptrs |-> <<>>, cstr |-> <<>>,
      labels |-> [i \in 1..Len(v.entries) |-> <<offs[i], <<v.entries[i][1]>>>>]]

TextImage(v, fmt, e) == Canon(TextContent(v, fmt, e))
\* the byte image is fully determined by the value (big-endian label order: see BinFormat!BEOrderDetermined)
ImageDetermined(v, fmt, e) == e = "le" \/ BEOrderDetermined(TextContent(v, fmt, e))

\* ------------------------------------------------------------------ reference reader of an archive content
ErrT == [ok |-> FALSE]
\* (Utf16End / UnitsOf: module Bytes)

LabelAt(c, a) == IF \E i \in 1..Len(c.labels) : c.labels[i][1] = a
                 THEN (CHOOSE l \in { c.labels[i] : i \in 1..Len(c.labels) } : l[1] = a)[2]
                 ELSE <<>>

\* walk the data region from 0-based offset pos: <<key, message>> for every message that carries a label;
\* a message without a label is skipped; an unterminated message is an error
RECURSIVE WalkMsgs(_, _, _, _)
WalkMsgs(c, fmt, pos, acc) ==
  IF pos >= Len(c.data) THEN [ok |-> TRUE, entries |-> acc]
  ELSE
    LET d == c.data
        stop == IF fmt = "unicode" THEN Utf16End(d, pos + 1) ELSE NulAt(d, pos + 1)
    IN IF stop = 0 THEN ErrT
       ELSE LET raw  == SubSeq(d, pos + 1, stop - 1)
                msg  == IF fmt = "unicode" THEN UnitsOf(raw) ELSE raw
                next == AlignUp(stop - 1 + (IF fmt = "unicode" THEN 2 ELSE 1), 4)
                lbl  == LabelAt(c, pos)
            IN WalkMsgs(c, fmt, next, IF Len(lbl) > 0 THEN Append(acc, <<lbl[1], msg>>) ELSE acc)

RefParseText(c, fmt) ==
  IF fmt = "unicode"
  THEN IF NulAt(c.data, 1) = 0 THEN ErrT
       ELSE LET w == WalkMsgs(c, fmt, AlignUp(NulAt(c.data, 1), 4), <<>>)
            IN IF w.ok THEN [ok |-> TRUE, title |-> SubSeq(c.data, 1, NulAt(c.data, 1) - 1), entries |-> w.entries] ELSE ErrT
  ELSE LET w == WalkMsgs(c, fmt, 0, <<>>)
       IN IF w.ok THEN [ok |-> TRUE, title |-> <<>>, entries |-> w.entries] ELSE ErrT

\* what a re-parse must return for value v
Expected(v, fmt) == [ok |-> TRUE, title |-> IF fmt = "unicode" THEN v.title ELSE <<>>, entries |-> v.entries]

\* ------------------------------------------------------------------ laws
KeysDistinct(v) == \A i, j \in 1..Len(v.entries) : v.entries[i][1] = v.entries[j][1] => i = j
RoundTrip(v, fmt, e) ==
  LET img == TextImage(v, fmt, e)
      r == RefParse(img, e)
  IN /\ r.ok
     /\ RefParseText(r.c, fmt) = Expected(v, fmt)
\* every message starts on a 4-byte boundary, carries its key as the label of that address, and messages do not overlap
Aligned4(v, fmt) ==
  LET offs == EntryOffsets(v, fmt)
  IN \A i \in 1..Len(offs) : offs[i] % 4 = 0 /\ (i < Len(offs) => offs[i + 1] >= offs[i] + 4)
=============================================================================
