---------------------------- MODULE MC_Localize ----------------------------
(* Bounded scope for C14: all 6 localizers x 8 languages x the paths below.
   MC_Localize.cfg checks LocalizeLaws on every triple (the statement transcribed over the
   reference definition); Gen_Localize.cfg prints one replay case per triple with the set of
   allowed result strings, to be compared string-for-string with PathLocalizer::localize. *)
EXTENDS Localize, TLC, Json, IOUtils, SequencesExt

Tier == IF "VERIF_TIER" \in DOMAIN IOEnv THEN IOEnv.VERIF_TIER ELSE "quick"

\* component spellings (UTF-8 bytes)
N_m     == <<109>>                                                         \* m
N_game  == <<71, 97, 109, 101, 68, 97, 116, 97, 46, 98, 105, 110, 46, 108, 122>>   \* GameData.bin.lz
N_ab    == <<97, 32, 98>>                                                  \* "a b"
N_atE   == <<64, 69>>                                                      \* @E   (looks like a marker)
N_sx    == <<115, 95, 120>>                                                \* s_x  (looks like a prefixed name)
N_ddx   == <<46, 46, 120>>                                                 \* ..x
N_sp    == <<32>>                                                          \* " "  (a lone space is a legal name)
N_eac   == <<195, 169>>                                                    \* e-acute, UTF-8
N_hira  == <<227, 129, 130>>                                               \* HIRAGANA A, UTF-8
N_doth  == <<46, 104>>                                                     \* .h

\* unusual but legal bytes of a Unix file name: nothing but '/' and NUL is special
N_bsg   == <<71, 97, 109, 101, 92, 68, 97, 116, 97, 46, 98, 105, 110, 46, 108, 122>>  \* Game\Data.bin.lz  (a backslash)
N_bs    == <<92>>                                                          \* \   (a lone backslash)
N_tdot  == <<120, 46>>                                                     \* x.   (trailing dot)
N_eu    == <<101, 95>>                                                     \* e_   (equal to a prefix marker)
N_S     == <<83>>                                                          \* S    (equal to FE13's Spanish directory)
N_ux    == <<95, 120>>                                                     \* _x
N_at    == <<64>>                                                          \* @
N_long  == [k \in 1..200 |-> 97 + (k % 26)]                                \* 200 bytes

N_ndd   == <<110, 111, 116, 101, 115, 46, 46, 116, 120, 116>>              \* notes..txt  (inner double dot)
N_xdd   == <<120, 46, 46>>                                                 \* x..         (trailing double dot)
NamesQuick == {N_m, N_game, N_ab, N_atE, N_ddx, N_sp, N_bsg, N_bs, N_tdot, N_eu, N_eac, N_long, N_ndd}
NamesThorough == NamesQuick \cup {N_sx, N_hira, N_doth, N_S, N_ux, N_at, N_xdd}
Names == IF Tier = "quick" THEN NamesQuick ELSE NamesThorough

DirsBase == {N_m, N_game, N_ab, N_atE, N_ddx, N_sp}
Dirs2 == IF Tier = "quick" THEN { <<N_m, N_atE>>, <<N_ab, N_m>>, <<N_sp, N_game>>, <<N_ddx, N_sp>>, <<N_bs, N_m>>, <<N_m, N_bsg>> }
         ELSE { <<a, b>> : a \in {N_m, N_ab, N_sp}, b \in {N_atE, N_game, N_ddx} }
              \cup { <<N_bs, N_m>>, <<N_m, N_bsg>>, <<N_long, N_tdot>>, <<N_eu, N_S>> }
Dirs3 == { <<N_m, N_ab, N_atE>>, <<N_sp, N_m, N_sp>> }

Rel(c, t) == [a |-> FALSE, c |-> c, t |-> t]
PlainPaths ==
  { Rel(<<f>>, t) : f \in Names, t \in BOOLEAN }
  \cup { Rel(<<d, f>>, t) : d \in NamesQuick, f \in Names, t \in BOOLEAN }
  \cup { Rel(d \o <<f>>, t) : d \in Dirs2, f \in Names, t \in BOOLEAN }
  \cup { Rel(d \o <<f>>, t) : d \in Dirs3, f \in Names, t \in BOOLEAN }
Abs(c, t) == [a |-> TRUE, c |-> c, t |-> t]
DegeneratePaths ==
  { Rel(<<>>, FALSE),                          \* ""
    Abs(<<>>, FALSE),                          \* "/"
    Abs(<<>>, TRUE),                           \* "//"
    Rel(<<DotC>>, FALSE),                      \* "."
    Rel(<<DotC>>, TRUE),                       \* "./"
    Abs(<<DotC>>, FALSE),                      \* "/."
    Rel(<<DotDotC>>, FALSE),                   \* ".."
    Rel(<<DotDotC>>, TRUE),                    \* "../"
    Abs(<<DotDotC>>, FALSE),                   \* "/.."
    Rel(<<N_m, DotDotC>>, FALSE),              \* "m/.."
    Rel(<<N_m, DotDotC>>, TRUE) }              \* "m/../"
Paths == PlainPaths \cup DegeneratePaths

ASSUME \A p \in Paths : InScope(p)
ASSUME \A p \in PlainPaths : Plain(p)
ASSUME \A p \in DegeneratePaths : Degenerate(p) /\ ~HasFinal(p)

VARIABLE done
Init == done = FALSE
Next == UNCHANGED done
Spec == Init /\ [][Next]_done

\* ---- the property over the reference definition
LawsHold == \A loc \in Localizers, lang \in Languages, p \in Paths : LocalizeLaws(loc, lang, p)

\* a few hand-computed anchors (the examples of the pinned tests and of the statement)
Anchors ==
  /\ RenderedOutcomes("FE13", "Spanish", Rel(<<N_m, N_game>>, FALSE))
       = { [ok |-> TRUE, s |-> N_m \o <<SLASH, 83, SLASH>> \o N_game] }
  /\ [ok |-> TRUE, s |-> N_m \o <<SLASH, 64, 69, SLASH>>] \in RenderedOutcomes("FE14", "EnglishNA", Rel(<<N_m>>, TRUE))
  /\ RenderedOutcomes("FE14", "Japanese", Rel(<<N_m, N_game>>, FALSE))
       = { [ok |-> TRUE, s |-> N_m \o <<SLASH>> \o N_game] }
  /\ RenderedOutcomes("FE10", "Spanish", Rel(<<N_m, N_game>>, FALSE))
       = { [ok |-> TRUE, s |-> N_m \o <<SLASH, 115, 95>> \o N_game] }
  /\ RenderedOutcomes("FE9", "EnglishNA", Rel(<<N_m, N_game>>, FALSE))
       = { [ok |-> TRUE, s |-> N_m \o <<SLASH>> \o N_game] }
  /\ RenderedOutcomes("FE13", "Dutch", Rel(<<N_m, N_game>>, FALSE)) = { [ok |-> FALSE, s |-> <<>>] }
  /\ RenderedOutcomes("FE15", "Dutch", Rel(<<N_m, N_game>>, FALSE))
       = { [ok |-> TRUE, s |-> N_m \o <<SLASH, 64, 78, 79, 69, 95, 68, 85, SLASH>> \o N_game] }
  /\ RenderedOutcomes("FE14", "EnglishNA", Rel(<<N_sp, N_m>>, FALSE))
       = { [ok |-> TRUE, s |-> N_sp \o <<SLASH, 64, 69, SLASH>> \o N_m] }

Inv == LawsHold /\ Anchors
       /\ PrintT("N " \o ToJson([triples |-> Cardinality(Localizers) * Cardinality(Languages) * Cardinality(Paths),
                                 paths |-> Cardinality(Paths)]))

\* ---- generator
Emit == \A loc \in Localizers, lang \in Languages, p \in Paths :
          PrintT("G " \o ToJson([loc |-> loc, lang |-> lang, raw |-> Render(p),
                                plain |-> Plain(p), depth |-> Len(p.c), t |-> p.t,
                                kind |-> Marker(loc, lang).kind,
                                allowed |-> SetToSeq(RenderedOutcomes(loc, lang, p))]))
=============================================================================
