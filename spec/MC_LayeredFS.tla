--------------------------- MODULE MC_LayeredFS ---------------------------
(* Bounded model of the layered filesystem.
   MC_LayeredFS.cfg : exhaustive check of the C12/C13 laws on every reachable state
                      (curated initial layer configurations, then writes / create_dirs).
   Gen_LayeredFS.cfg: prints every reachable state ("S" lines) and the call alphabet ("E" line);
                      the harness materialises each state as real directories, applies each call
                      to the real LayeredFilesystem and records what happened; Trace_LayeredFS
                      then decides every recorded transition against LayeredFS!Outcomes. *)
EXTENDS LayeredFS, Json, IOUtils

Tier == IF "VERIF_TIER" \in DOMAIN IOEnv THEN IOEnv.VERIF_TIER ELSE "quick"
MaxDepth == IF "FS_DEPTH" \in DOMAIN IOEnv THEN (IF IOEnv.FS_DEPTH = "0" THEN 0 ELSE IF IOEnv.FS_DEPTH = "1" THEN 1 ELSE 2) ELSE 1

\* ------------------------------------------------------------------ names (byte spellings)
d    == <<100>>                                   \* d
e    == <<101>>                                   \* e
m    == <<109>>                                   \* m
a    == <<97>>                                    \* a
z    == <<122>>                                   \* z
q    == <<113>>                                   \* q      (never present initially)
xx   == <<120>>                                   \* x
fbin == <<102, 46, 98, 105, 110>>                 \* f.bin
ab   == <<97, 46, 98>>                            \* a.b    ("a.b" < "a/z" bytewise, "a" < "a.b" component-wise)
glz  == <<103, 46, 98, 105, 110, 46, 108, 122>>   \* g.bin.lz   (LZ13 suffix)
hcmp == <<104, 46, 99, 109, 112>>                 \* h.cmp      (LZ10 suffix)
icms == <<105, 46, 99, 109, 115>>                 \* i.cms      (LZ10 suffix)
atE  == <<64, 69>>                                \* @E     (FE14 EnglishNA directory)
sx   == <<115, 95, 120>>                          \* s_x    (FE10 Spanish spelling of x)
sfbin == <<115, 95, 102, 46, 98, 105, 110>>       \* s_f.bin
kbin == <<107, 46, 98, 105, 110>>                 \* k.bin  (a DIRECTORY whose name matches *.bin)
\* unusual but legal bytes in names: a backslash (an ordinary byte on Unix), a trailing dot, a 200-byte name, a name
\* equal to a marker
bsbin == <<98, 92, 99, 46, 98, 105, 110>>         \* b\c.bin
kbsd == <<107, 92, 100>>                          \* k\d    (a directory)
xdot == <<120, 46>>                               \* x.
long == [k \in 1..200 |-> 97 + (k % 26)]          \* 200 bytes
ndd  == <<110, 111, 116, 101, 115, 46, 46, 116, 120, 116>>   \* notes..txt   (inner double dot)
vdd  == <<118, 49, 46, 46, 50>>                   \* v1..2        (a directory)
edd  == <<101, 46, 46, 46, 98, 105, 110>>         \* e...bin
xdd  == <<120, 46, 46>>                           \* x..          (trailing double dot)

\* ------------------------------------------------------------------ literal-only LZ streams and the model's view of the decompressors
RECURSIVE LitGroups(_)
LitGroups(s) == IF Len(s) = 0 THEN <<>>
                ELSE LET k == IF Len(s) < 8 THEN Len(s) ELSE 8
                     IN <<0>> \o SubSeq(s, 1, k) \o LitGroups(SubSeq(s, k + 1, Len(s)))
Lit10(s) == <<16, Len(s), 0, 0>> \o LitGroups(s)
Lit11(s) == IF Len(s) = 0 THEN <<17, 0, 0, 0, 0, 0, 0, 0>> ELSE <<17, Len(s), 0, 0>> \o LitGroups(s)
Lit13(s) == <<19, Len(s), 0, 0>> \o Lit11(s)
LitZ(comp, s) == IF comp = "lz10" THEN Lit10(s) ELSE Lit13(s)

RECURSIVE LitDecode(_, _, _)
LitDecode(s, i, n) ==
  IF n = 0 THEN XOk(<<>>)
  ELSE IF i > Len(s) \/ s[i] # 0 THEN XErr
  ELSE LET k == IF n < 8 THEN n ELSE 8 IN
       IF i + k > Len(s) THEN XErr
       ELSE LET r == LitDecode(s, i + k + 1, n - k) IN
            IF r.ok THEN XOk(SubSeq(s, i + 1, i + k) \o r.v) ELSE XErr
Len24(s, i) == s[i] + 256 * s[i + 1] + 65536 * s[i + 2]
ExpBare(s) ==    \* a bare LZ10 / LZ11 stream
  IF Len(s) < 4 THEN XErr
  ELSE IF s[1] = 16 THEN LitDecode(s, 5, Len24(s, 2))
  ELSE IF s[1] = 17 THEN (IF Len24(s, 2) # 0 THEN LitDecode(s, 5, Len24(s, 2))
                          ELSE IF Len(s) < 8 THEN XErr ELSE LitDecode(s, 9, Len24(s, 5)))
  ELSE XErr
Exp13(s) == IF Len(s) < 4 THEN XErr
            ELSE IF s[1] = 0 THEN XOk(SubSeq(s, 5, Len(s)))          \* type-0 stored form
            ELSE IF s[1] = 19 THEN ExpBare(SubSeq(s, 5, Len(s)))    \* 0x13 wrapper
            ELSE ExpBare(s)
ModelX(s) == [lz10 |-> ExpBare(s), lz13 |-> Exp13(s)]
\* the model's byte strings are either no stream at all or literal-only streams, so ModelX is exact on them;
\* the harness checks this claim against the real decompressors when it materialises a state
RECURSIVE AllZeroFlags(_, _, _)
AllZeroFlags(s, i, n) == n = 0 \/ (i <= Len(s) /\ s[i] = 0 /\ AllZeroFlags(s, i + 9, IF n < 8 THEN 0 ELSE n - 8))
ModelKnown(s) == Len(s) = 0 \/ s[1] \notin {0, 16, 17, 19}
                 \/ (s[1] = 16 /\ Len(s) >= 4 /\ AllZeroFlags(s, 5, Len24(s, 2)))
                 \/ (s[1] = 19 /\ Len(s) >= 8 /\ s[5] = 17 /\ (IF Len24(s, 6) # 0 THEN AllZeroFlags(s, 9, Len24(s, 6)) ELSE Len(s) >= 12))

\* ------------------------------------------------------------------ payloads and file contents
P0   == <<>>
P3   == <<1, 2, 3>>
PRun == [i \in 1..40 |-> 7]
PInc == [i \in 1..24 |-> 200 - 7 * i]
Payloads == IF Tier = "quick" THEN {P0, P3} ELSE {P0, P3, PRun, PInc}
B1 == <<65>>
B2 == <<66, 66>>
B3 == <<67>>
Junk == <<200, 1, 2, 3, 4>>

F(p, b) == FileNode(p, b, ModelX(b))
D(p) == DirNode(p)

\* ------------------------------------------------------------------ initial layer configurations (L[1] lowest ... top last)
C1 == << { D(<<m>>), F(<<m, fbin>>, B1), D(<<a>>), F(<<a, z>>, B2), F(<<ab>>, B3),
           F(<<m, bsbin>>, B2), D(<<kbsd>>), F(<<kbsd, xdot>>, B1), F(<<kbsd, long>>, B3),
           F(<<m, ndd>>, B1), D(<<vdd>>), F(<<vdd, edd>>, B2), D(<<vdd, xdd>>) } >>
C2 == << { D(<<m>>), F(<<m, fbin>>, B1), F(<<m, glz>>, Lit13(P3)), F(<<m, hcmp>>, Lit10(P3)) },      \* file shadows file
         { D(<<m>>), F(<<m, fbin>>, B2) } >>
C3 == << { D(<<m>>), F(<<m, fbin>>, B1) },                                                             \* dir above file
         { D(<<m>>), D(<<m, fbin>>), F(<<m, fbin, xx>>, B2) } >>
C4 == << { D(<<m>>), D(<<m, fbin>>), F(<<m, fbin, xx>>, B2) },                                          \* file above dir
         { D(<<m>>), F(<<m, fbin>>, B1) } >>
C5 == << { D(<<d>>), D(<<d, e>>), F(<<d, e, fbin>>, B1), F(<<ab>>, B3) },                               \* 3 layers, nested, empty dir
         { D(<<d>>), D(<<d, e>>), D(<<a>>), F(<<a, z>>, B2), F(<<ab>>, B1) },
         { } >>
C6 == << { D(<<m>>), D(<<m, atE>>), F(<<m, atE, fbin>>, B1), F(<<m, atE, xx>>, B2), F(<<m, sx>>, B3),   \* localised content
           F(<<m, sfbin>>, B1), F(<<m, xx>>, B1), D(<<m, atE, kbsd>>), F(<<m, atE, kbsd, bsbin>>, B2) },
         { D(<<m>>), F(<<m, fbin>>, B2), D(<<m, kbin>>), F(<<m, kbin, fbin>>, B3), D(<<m, atE>>), F(<<m, atE, xx>>, B3) } >>
C7 == << { D(<<m>>), F(<<m, glz>>, Lit13(P3)), F(<<m, hcmp>>, Lit10(P3)), F(<<icms>>, Lit10(PRun)),      \* streams, junk on top
           D(<<m, atE>>), F(<<m, atE, glz>>, Lit13(B2)), F(<<m, sfbin>>, B1) },
         { D(<<m>>), F(<<m, glz>>, Junk), F(<<m, hcmp>>, Junk) } >>
C8 == << { } >>
Configs == {C1, C2, C3, C4, C5, C6, C7, C8}

ClassesQuick == { <<"FE14", "EnglishNA">>, <<"FE10", "Spanish">>, <<"FE13", "Japanese">>, <<"FE9", "Dutch">> }
ClassesAll == { <<g, l>> : g \in {"FE9", "FE10", "FE13", "FE14", "FE15"}, l \in Languages }
\* The generator's quick tier walks through more pairs than the model checker's: every pair on which two games'
\* tables differ has to be replayed against the real code, so that a filesystem built with a neighbouring game's
\* localizer (or compression format) is seen:  FE9-English (none) / FE10-English (e_);  FE13-Japanese (none) /
\* FE15-Japanese (@J);  FE13-Spanish (S) / FE14-English (@E) / FE15 (@NOE_..);  Dutch unsupported (FE9) / supported (FE15).
ClassesGenQuick == { <<"FE9", "EnglishNA">>, <<"FE9", "Dutch">>, <<"FE10", "EnglishNA">>, <<"FE10", "Spanish">>,
                     <<"FE13", "Japanese">>, <<"FE13", "Spanish">>, <<"FE14", "EnglishNA">>,
                     <<"FE15", "Japanese">>, <<"FE15", "Dutch">> }
GenMode == "FS_GEN" \in DOMAIN IOEnv
Classes == IF Tier = "quick" THEN (IF GenMode /\ MaxDepth = 0 THEN ClassesGenQuick ELSE ClassesQuick) ELSE ClassesAll

\* ------------------------------------------------------------------ call alphabet
Pth(c) == [c |-> c, t |-> FALSE]
PthT(c) == [c |-> c, t |-> TRUE]
WPaths == { Pth(<<m, fbin>>), Pth(<<m, glz>>), Pth(<<m, hcmp>>), Pth(<<m, xx>>), Pth(<<a, z>>), Pth(<<ab>>),
            Pth(<<d, e, fbin>>), Pth(<<m, atE, fbin>>), Pth(<<q>>), Pth(<<m, fbin, xx>>), Pth(<<icms>>), Pth(<<m>>),
            Pth(<<m, bsbin>>), Pth(<<kbsd, long>>), Pth(<<vdd, ndd>>) }
CPaths == { Pth(<<m>>), PthT(<<d, e>>), Pth(<<q>>), Pth(<<m, fbin>>), Pth(<<m, atE>>), Pth(<<>>), Pth(<<q, xx>>) }
QPaths == WPaths \cup { Pth(<<m, ndd>>), Pth(<<vdd>>), Pth(<<vdd, edd>>), Pth(<<vdd, xdd>>) } \cup { Pth(<<>>), PthT(<<m>>), Pth(<<d, e>>), Pth(<<m, atE>>), Pth(<<m, sx>>), Pth(<<a>>), Pth(<<m, atE, glz>>) }
LDirs == { Pth(<<>>), Pth(<<m>>), PthT(<<m>>), Pth(<<a>>), Pth(<<d>>), PthT(<<d, e>>), Pth(<<m, atE>>), Pth(<<q>>),
           Pth(<<m, fbin>>), Pth(<<ab>>), Pth(<<kbsd>>), Pth(<<vdd>>) }
TPaths == { Pth(<<m, fbin>>), Pth(<<m, glz>>), Pth(<<m, hcmp>>), Pth(<<q>>) }

Ev(op, p, loc, data, g) == [op |-> op, p |-> p, loc |-> loc, data |-> data, glob |-> g]
WriteEvents == { Ev("write", p, loc, s, NoGlob) : p \in WPaths, loc \in BOOLEAN, s \in Payloads }
CreateEvents == { Ev("create_dir", p, loc, <<>>, NoGlob) : p \in CPaths, loc \in BOOLEAN }
QueryOps == {"read", "exists", "file_exists", "directory_exists", "resolve"}
QueryEvents == { Ev(op, p, loc, <<>>, NoGlob) : op \in QueryOps, p \in QPaths, loc \in BOOLEAN }
ListEvents == { Ev("list", p, loc, <<>>, g) : p \in LDirs, loc \in BOOLEAN, g \in GlobFamily }
             \cup { Ev("subdirectories", p, loc, <<>>, NoGlob) : p \in LDirs, loc \in BOOLEAN }
TypedEvents == { Ev(op, p, loc, <<>>, NoGlob) : op \in ReadHelpers \cup WriteHelpers, p \in TPaths, loc \in BOOLEAN }
\* C14: paths without a final component, in LOCALIZED calls of every operation (an unlocalized rooted path would
\* leave the layer and is out of scope): "/", "//", "/..", ".", "./", "..", "m/..", "m/../"  ("" is in the sets above)
DegPaths == { [a |-> TRUE, c |-> <<>>, t |-> FALSE], [a |-> TRUE, c |-> <<>>, t |-> TRUE],
              [a |-> TRUE, c |-> <<DotDotC>>, t |-> FALSE], [a |-> FALSE, c |-> <<DotC>>, t |-> FALSE],
              [a |-> FALSE, c |-> <<DotC>>, t |-> TRUE], [a |-> FALSE, c |-> <<DotDotC>>, t |-> FALSE],
              [a |-> FALSE, c |-> <<m, DotDotC>>, t |-> FALSE], [a |-> FALSE, c |-> <<m, DotDotC>>, t |-> TRUE] }
DegEvents == { Ev(op, p, TRUE, <<>>, NoGlob) : op \in QueryOps \cup {"create_dir", "list", "subdirectories"}, p \in DegPaths }
             \cup { Ev("write", p, TRUE, P3, NoGlob) : p \in DegPaths }
             \cup { Ev("list", p, TRUE, <<>>, Glob("**/*")) : p \in DegPaths }
ModelEvents == WriteEvents \cup CreateEvents \cup QueryEvents \cup ListEvents \cup DegEvents

\* candidates for what a write may leave on disk: the payload itself, or a literal-only stream of it
CandM(cfg, ev) == { [b |-> ev.data, x |-> ModelX(ev.data)],
                    [b |-> LitZ(cfg.comp, ev.data), x |-> ModelX(LitZ(cfg.comp, ev.data))] }

ASSUME \A s \in Payloads \cup {B1, B2, B3, Junk} : ModelKnown(s) /\ ModelKnown(Lit10(s)) /\ ModelKnown(Lit13(s))
ASSUME \A s \in Payloads \cup {B1, B2, B3} : /\ ModelX(Lit10(s)) = [lz10 |-> XOk(s), lz13 |-> XOk(s)]
                                            /\ ModelX(Lit13(s)) = [lz10 |-> XErr, lz13 |-> XOk(s)]
                                            /\ ModelX(s) = NoX
ASSUME \A c \in Configs : WellFormed(c)

\* ------------------------------------------------------------------ the model
VARIABLES L, game, lang, depth
vars == <<L, game, lang, depth>>

\* the pairs that only the generator's quick tier adds start from the two configurations with localised content
\* and LZ streams (enough to tell a neighbouring game's localizer / compression format apart)
ConfigsFor(cl) == IF Tier = "quick" /\ cl \notin ClassesQuick THEN {C6, C7} ELSE Configs
Init == /\ \E cl \in Classes : game = cl[1] /\ lang = cl[2] /\ L \in ConfigsFor(cl)
        /\ depth = 0

\* the model walks on with a reduced alphabet (the laws below quantify over the full one in every state)
StepWrites == { ev \in WriteEvents : ev.data = P3 /\ ev.p \in { Pth(<<m, fbin>>), Pth(<<m, glz>>), Pth(<<m, hcmp>>), Pth(<<q>>),
                                                                Pth(<<m, fbin, xx>>), Pth(<<a, z>>) } }
StepCreates == { ev \in CreateEvents : ev.p \in { Pth(<<q, xx>>), Pth(<<m, fbin>>), PthT(<<d, e>>) } }
DoWrite == /\ depth < MaxDepth
           /\ \E ev \in StepWrites : \E o \in Outcomes(L, Cfg(game), lang, ev, CandM(Cfg(game), ev)) : L' = o.st
           /\ depth' = depth + 1
           /\ UNCHANGED <<game, lang>>
DoCreateDir == /\ depth < MaxDepth
               /\ \E ev \in StepCreates : \E o \in Outcomes(L, Cfg(game), lang, ev, {}) : L' = o.st
               /\ depth' = depth + 1
               /\ UNCHANGED <<game, lang>>
Next == DoWrite \/ DoCreateDir
Spec == Init /\ [][Next]_vars

\* ------------------------------------------------------------------ laws
cfgOf == Cfg(game)
OkActuals(P, loc) == { act.p : act \in { act \in Actuals(cfgOf, lang, P, loc) : act.ok } }
AsReq(A) == [c |-> A.c, t |-> A.t]

\* --- C12: mutations
MutationLaws ==
  \A ev \in WriteEvents \cup CreateEvents : \A I \in Interps :
    LET outs == OutcomesI(I, L, cfgOf, lang, ev, CandM(cfgOf, ev)) IN
    /\ outs # {}
    /\ \A o \in outs : /\ LowerLayersImmutable(L, o)
                       /\ WellFormed(o.st)
                       /\ ~o.res.ok => o.res.e \in {"loc", "io", "codec"}
    \* a localised call fails with a localisation error exactly on unsupported pairs / final-less paths
    /\ (ev.loc /\ OkActuals(ev.p, TRUE) = {}) => \A o \in outs : ~o.res.ok /\ o.res.e = "loc" /\ o.st = L

WriteLaws ==
  \A ev \in WriteEvents : \A I \in Interps : \A A \in OkActuals(ev.p, ev.loc) :
    \A o \in WriteAt(I, L, cfgOf, ev.p, A, ev.data, CandM(cfgOf, ev)) :
      /\ WriteTouchesOnlyTarget(L, A, o)
      \* ReadAfterWrite: same path, same localisation choice -> exactly the written bytes;
      \* the stored file of a compressed-suffix path is a stream of the game's type that expands to them
      /\ o.res.ok =>
           LET top == o.st[Len(L)]
               n == At(top, A.c)
           IN /\ ReadAt(I, o.st, cfgOf, ev.p, A) = Ok(ev.data)
              /\ IsCompressed(I, cfgOf, ev.p, A) => /\ n.b[1] = TypeByte(cfgOf.comp)
                                                    /\ n.x[cfgOf.comp] = XOk(ev.data)
              /\ ~IsCompressed(I, cfgOf, ev.p, A) => n.b = ev.data
              /\ LayersWith(I, o.st, A, {"file"}) # {}
              /\ MaxOf(LayersWith(I, o.st, A, {"file", "dir"})) = Len(L)       \* resolve now points into the top layer
              /\ ResolveAt(I, o.st, A) = Ok([layer |-> Len(L), rel |-> RenderRel(A)])

CreateDirLaws ==
  \A ev \in CreateEvents : \A A \in OkActuals(ev.p, ev.loc) : \A o \in CreateDirAt(L, A) :
    o.res.ok => /\ KindAt(o.st[Len(L)], A.c) = "dir"
                /\ \A n \in L[Len(L)] : n \in o.st[Len(L)]
                /\ \A n \in o.st[Len(L)] : n \notin L[Len(L)] => n.k = "dir" /\ (n.p = A.c \/ n.p \in ProperPrefixes(A.c))

\* --- C12: queries
QueryLaws ==
  \A P \in QPaths, loc \in BOOLEAN, I \in Interps :
    /\ \A op \in QueryOps : \A o \in OutcomesI(I, L, cfgOf, lang, Ev(op, P, loc, <<>>, NoGlob), {}) : o.st = L
    /\ \A A \in OkActuals(P, loc) :
         LET r == ReadAt(I, L, cfgOf, P, A)
             Q(op) == (CHOOSE o \in ExistsOutcomesI(I, L, cfgOf, lang, AsReq(A), FALSE, op) : TRUE).res
             fe == Q("file_exists").v
             de == Q("directory_exists").v
             ex == Q("exists").v
             rs == (CHOOSE o \in ResolveOutcomesI(I, L, cfgOf, lang, AsReq(A), FALSE) : TRUE).res
         IN /\ ReadIsTopmostFile(I, L, cfgOf, P, A, r)
            /\ \A op \in {"exists", "file_exists", "directory_exists"} :
                 /\ Cardinality(ExistsOutcomesI(I, L, cfgOf, lang, AsReq(A), FALSE, op)) = 1
                 /\ Q(op).ok
            /\ ex <=> \E j \in 1..Len(L) : Kind(I, L[j], A) # "none"
            \* QueriesAgree
            /\ fe <=> ~(~r.ok /\ r.e = "notfound")
            /\ ex <=> rs.ok
            /\ ex <=> (fe \/ de)
            /\ rs.ok => /\ Kind(I, L[rs.v.layer], A) # "none"
                        /\ \A j \in (rs.v.layer + 1)..Len(L) : Kind(I, L[j], A) = "none"
    /\ (loc /\ OkActuals(P, TRUE) = {}) =>
         /\ ReadOutcomesI(I, L, cfgOf, lang, P, TRUE) = { [res |-> Err("loc", <<>>), st |-> L] }
         /\ ResolveOutcomesI(I, L, cfgOf, lang, P, TRUE) = { [res |-> Err("none", NoResolve), st |-> L] }

\* --- C13: listings
SeqRange(s) == { s[i] : i \in 1..Len(s) }
ListLaws ==
  \A P \in LDirs, loc \in BOOLEAN, I \in Interps :
    /\ \A A \in OkActuals(P, loc) :
         /\ \A g \in GlobFamily :
              LET S == ListedPaths(I, L, A, g)
                  v == SortedListing(S)
              IN /\ \A i \in 1..(Len(v) - 1) : LexLess(v[i], v[i + 1])                          \* ListSorted
                 /\ \A i, j \in 1..Len(v) : v[i] = v[j] => i = j                                \* ListNoDup
                 /\ IsListingOf(v, S)
                 /\ \A p \in S : /\ LayersWith(I, L, Pth(p), {"file", "dir"}) # {}             \* ListSound
                                 /\ Under(A.c, p)
                 /\ \A i \in 1..Len(L) : \A n \in L[i] :                                         \* ListComplete
                      (Kind(I, L[i], A) = "dir" /\ Under(A.c, n.p) /\ Matches(g, RelTo(A.c, n.p))) => Join(n.p) \in SeqRange(v)
                 /\ LayersWith(I, L, A, {"dir"}) = {} => v = <<>>                               \* missing directory / a file
                 \* LocalizedListIsListOfLocalized
                 /\ [res |-> Ok(v), st |-> L] \in ListOutcomesI(I, L, cfgOf, lang, AsReq(A), FALSE, g)
         /\ ListedPaths(I, L, A, NoGlob) = ListedPaths(I, L, A, Glob("**/*"))
         /\ LET S == SubdirPaths(I, L, A) IN                                                     \* SubdirsAreDirs
              /\ \A p \in S : /\ LayersWith(I, L, Pth(p), {"dir"}) # {}
                              /\ Len(p) = Len(A.c) + 1 /\ Under(A.c, p)
              /\ \A i \in 1..Len(L) : \A n \in L[i] :
                   (Kind(I, L[i], A) = "dir" /\ n.k = "dir" /\ Under(A.c, n.p) /\ Len(n.p) = Len(A.c) + 1) => n.p \in S
              /\ S \subseteq ListedPaths(I, L, A, Glob("*"))
    /\ \A g \in GlobFamily :
         ListOutcomesI(I, L, cfgOf, lang, P, loc, g)
           = UNION { IF act.ok THEN ListOutcomesI(I, L, cfgOf, lang, AsReq(act.p), FALSE, g)
                     ELSE { [res |-> Err("loc", <<>>), st |-> L] } : act \in Actuals(cfgOf, lang, P, loc) }

\* --- C14 (filesystem clause): every operation applies the localisation mapping and nothing else - a localized
\* call is the same call on the mapped path.  (Under rule "req" the compressed-suffix decision looks at the
\* requested name, which is the one open difference; the law is stated for rule "act".)
Twin(ev, A) == [ev EXCEPT !.p = AsReq(A), !.loc = FALSE]
TwinLaws ==
  \A ev \in { ev \in ModelEvents : ev.loc } : \A I \in { I \in Interps : I.rule = "act" } :
    LET acts == Actuals(cfgOf, lang, ev.p, TRUE)
        cand == IF ev.op = "write" THEN CandM(cfgOf, ev) ELSE {}
        failing == CASE ev.op \in {"read", "list", "subdirectories", "write", "create_dir"} -> { [res |-> Err("loc", <<>>), st |-> L] }
                     [] ev.op \in {"exists", "file_exists", "directory_exists"} -> { [res |-> Err("loc", FALSE), st |-> L] }
                     [] ev.op = "resolve" -> { [res |-> Err("none", NoResolve), st |-> L] }
    IN OutcomesI(I, L, cfgOf, lang, ev, cand)
         = UNION { IF act.ok THEN OutcomesI(I, L, cfgOf, lang, Twin(ev, act.p), cand) ELSE failing : act \in acts }

\* a localized call on a path without a final component fails with a localisation error (None for resolve) and
\* changes nothing, under every interpretation, for every game and language
DegLaws ==
  \A ev \in DegEvents : \A I \in Interps :
    /\ \A act \in Actuals(cfgOf, lang, ev.p, TRUE) : ~act.ok
    /\ \A o \in OutcomesI(I, L, cfgOf, lang, ev, {}) :
         /\ ~o.res.ok /\ o.st = L
         /\ o.res.e = IF ev.op = "resolve" THEN "none" ELSE "loc"

LawSel == IF "FS_LAWS" \in DOMAIN IOEnv THEN IOEnv.FS_LAWS ELSE "all"
Inv == /\ WellFormed(L)
       /\ LawSel \in {"all", "c12"} => MutationLaws /\ WriteLaws /\ CreateDirLaws /\ QueryLaws
       /\ LawSel \in {"all", "c13"} => ListLaws
       /\ LawSel \in {"all", "c14"} => TwinLaws /\ DegLaws

\* --- step property: whatever happens, the lower layers stay as they are
LowerLayersStep == [][/\ Len(L') = Len(L)
                      /\ \A i \in 1..(Len(L) - 1) : L'[i] = L[i]]_vars

\* ------------------------------------------------------------------ generator
GenEvents == ModelEvents \cup TypedEvents
WithRaw(ev) == [op |-> ev.op, p |-> ev.p, raw |-> RenderRel(ev.p), loc |-> ev.loc, data |-> ev.data, glob |-> ev.glob]
ASSUME IF "FS_GEN" \in DOMAIN IOEnv THEN PrintT("E " \o ToJson(SetToSeq({ WithRaw(ev) : ev \in GenEvents }))) ELSE TRUE
\* C14: the explicit-path twin of a localized call is computed HERE - Localize applied with the localizer that
\* Cfg(game) prescribes and the filesystem's language (canonical spelling) - never by the code under test.
\* One "W" line per game x language pair: for every requested path of the alphabet its twin path, if it has one.
TwinOf(g, l, P) ==
  LET mk == Marker(Cfg(g).loc, l)
      pp == AsPath(P)
  IN IF HasFinal(pp) /\ mk.kind \in {"dir", "none", "prefix"}
     THEN LET cp == Canonical(mk, pp).p IN
          [raw |-> RenderRel(P), some |-> TRUE, p |-> [c |-> cp.c, t |-> cp.t], traw |-> Render(cp)]
     ELSE [raw |-> RenderRel(P), some |-> FALSE, p |-> [c |-> <<>>, t |-> FALSE], traw |-> <<>>]
ASSUME IF GenMode
       THEN \A cl \in Classes :
              PrintT("W " \o ToJson([game |-> cl[1], lang |-> cl[2],
                                     twins |-> SetToSeq({ TwinOf(cl[1], cl[2], ev.p) : ev \in GenEvents })]))
       ELSE TRUE
\* C12: payloads around and beyond the 4096-byte LZ window, for the compressed-suffix writes (one "B" line; the
\* harness writes them into the empty configuration C8 and reads them back).  Content classes: periodic with a
\* period that does not divide the window, text-like over a small alphabet, incompressible.
Periodic(n, per) == [k \in 1..n |-> (((k % per) * 37) + ((k % per) \div 11)) % 256]
TextLike(n) == [k \in 1..n |-> 97 + ((((k % 251) * (k % 241)) + (k \div 7)) % 4)]
Incompr(n) == [k \in 1..n |-> ((k % 251) * 37 + (k % 241) * 101 + (k \div 3) * 7) % 256]
\* payloads whose longest match has exactly the length L, for L at the boundaries of the reference layouts
\* (LZ10: 3..18 in two bytes; LZ11/LZ13: ..0x10 two bytes, ..0x110 three bytes, beyond four bytes):
\* a block of L bytes, a separator, the block again, then a byte that differs from the separator
Block(n) == [k \in 1..n |-> (k * 7 + 3) % 251]
MatchL(n) == Block(n) \o <<255>> \o Block(n) \o <<254, 253>>
MatchPayloads == { MatchL(n) : n \in {16, 17, 18, 19, 272, 273, 274} }
BigPayloads == MatchPayloads \cup IF Tier = "quick"
               THEN { Periodic(4097, 7), TextLike(4097), Periodic(8200, 13), TextLike(20000), Incompr(4096) }
               ELSE { Periodic(n, 7) : n \in {4095, 4096, 4097, 8200} } \cup { TextLike(n) : n \in {4095, 4096, 4097, 8200, 20000} }
                    \cup { Incompr(n) : n \in {4095, 4097, 8200} } \cup { Periodic(20000, 4099), Periodic(12000, 13) }
ASSUME GenMode => \A s \in BigPayloads : \A k \in 1..Len(s) : s[k] \in 0..255
BigEvents == { Ev("write", p, FALSE, s, NoGlob) : p \in { Pth(<<hcmp>>), Pth(<<icms>>), Pth(<<glz>>) }, s \in BigPayloads }
             \cup { Ev("write", Pth(<<m, glz>>), TRUE, TextLike(4097), NoGlob), Ev("write", Pth(<<m, hcmp>>), TRUE, TextLike(4097), NoGlob),
                    Ev("write", Pth(<<fbin>>), FALSE, TextLike(4097), NoGlob) }
ASSUME IF GenMode /\ "FS_BIG" \in DOMAIN IOEnv THEN PrintT("B " \o ToJson(SetToSeq({ WithRaw(ev) : ev \in BigEvents }))) ELSE TRUE
Emit == PrintT("S " \o ToJson([game |-> game, lang |-> lang, depth |-> depth, layers |-> L]))
=============================================================================
