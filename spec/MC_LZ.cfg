SPECIFICATION Spec
INVARIANT RoundTrip
INVARIANT DecInv
PROPERTY Progress
CHECK_DEADLOCK FALSE
