--------------------------- MODULE Trace_LayeredFS ---------------------------
(* Validation of recorded behaviour of the real LayeredFilesystem (C12, C13, C14) - used for both
   directions: the replay of TLC-generated (state, call) cases and the seeded random histories.

   The harness logs one event per call after it returned: the call, its result, the observed
   environment functions (expansion of every stored file by both decompressors; for typed
   helpers the bytes read and the parser's result on them) and - when anything changed on
   disk - the full walk of every layer.  A "reset" event starts a run from a logged state.

   Event i is accepted iff <<result, post-state>> is an outcome LayeredFS allows from the
   previous logged state.  Within a run the set of interpretations (LayeredFS!Interps) that
   explain ALL events so far is carried along, so that e.g. the compressed-suffix decision of a
   write and of the following read must be the same.  Rejected indices are collected and
   validation continues from the logged state. *)
EXTENDS LayeredFS, Json, IOUtils

Rec == ndJsonDeserialize(IOEnv.TRACE)

VARIABLES i, L, game, lang, interps, bad
vars == <<i, L, game, lang, interps, bad>>

LayersOf(js) == [k \in 1..Len(js) |-> ToSet(js[k])]

Init == /\ i = 1 /\ L = << {} >> /\ game = "FE14" /\ lang = "EnglishNA"
        /\ interps = Interps /\ bad = <<>>

PostOf(ev) == IF ev.same THEN L ELSE LayersOf(ev.post)

\* stored forms the implementation left in the top layer: the witnesses for "any stream that expands to the payload"
CandOf(post) == { [b |-> n.b, x |-> n.x] : n \in { n \in post[Len(post)] : n.k = "file" } }

AllowedI(I, ev, post) ==
  /\ ev.raw = RenderRel(ev.p)          \* the string handed to the implementation spells the logged path
  /\ IF ev.op \in ReadHelpers
     THEN TypedReadAllowed(I, L, Cfg(game), lang, ev) /\ post = L
     ELSE \E o \in OutcomesI(I, L, Cfg(game), lang, ev, CandOf(post)) : ResEq(o.res, ev.res) /\ o.st = post

\* creation of the filesystem object: supported games only
NewAllowed(ev) == /\ ~IsPanic(ev.res)
                  /\ IF SupportedGame(ev.game) THEN ev.res.ok ELSE ~ev.res.ok /\ ev.res.e = "unsupported"

Next ==
  /\ i <= Len(Rec)
  /\ LET ev == Rec[i] IN
       /\ i' = i + 1
       /\ IF ev.op = "reset"
          THEN LET st == LayersOf(ev.post) IN
               /\ L' = st /\ game' = ev.game /\ lang' = ev.lang /\ interps' = Interps
               /\ bad' = IF NewAllowed(ev) /\ WellFormed(st) THEN bad ELSE Append(bad, i)
          ELSE IF ev.op = "new"
          THEN /\ UNCHANGED <<L, game, lang, interps>>
               /\ bad' = IF NewAllowed(ev) THEN bad ELSE Append(bad, i)
          ELSE LET post == PostOf(ev)
                   good == { I \in interps : AllowedI(I, ev, post) }
               IN /\ L' = post
                  /\ UNCHANGED <<game, lang>>
                  /\ interps' = IF good = {} THEN Interps ELSE good
                  /\ bad' = IF good = {} THEN Append(bad, i) ELSE bad

Spec == Init /\ [][Next]_vars

Report == (i = Len(Rec) + 1) => PrintT("R " \o ToJson([n |-> Len(Rec), bad |-> bad]))
=============================================================================
