---------------------------- MODULE Gen_Parsers ----------------------------
(* Generator for C05: for every base image (conforming files of each family, given
   by the orchestrator as ndjson {name, family, bytes}) print the single-field
   boundary mutations and the truncation lengths.  One TLC step per base. *)
EXTENDS Parsers, Json, IOUtils

Bases == ndJsonDeserialize(IOEnv.BASES)

Tier == IF "VERIF_TIER" \in DOMAIN IOEnv THEN IOEnv.VERIF_TIER ELSE "quick"
FieldCap == IF Tier = "quick" THEN 24 ELSE 400
Big(n) == n > 20000        \* large bases (thousands of table entries): a handful of fields and cuts only
Truncs(n) ==
  IF Big(n) THEN (0..16) \cup { k \in 0..(n - 1) : k % 9973 = 0 } \cup ((n - 8)..(n - 1)) ELSE
  IF n <= (IF Tier = "quick" THEN 200 ELSE 1500) THEN 0..(n - 1)
  ELSE (0..64) \cup { k \in 0..(n - 1) : k % (IF Tier = "quick" THEN 23 ELSE 7) = 0 } \cup ((n - 40)..(n - 1))

\* keep the first and last FieldCap/2 field offsets when a base has very many fields (capped BEFORE the patches are
\* built); large bases keep only the fields near the start and the end of the file
CappedOffsets(f, family) ==
  LET all == FieldsOf(f, family)
      offs == SetToSortSeq(IF Big(Len(f)) THEN { x \in all : x < 40 \/ x > Len(f) - 40 } ELSE all, LAMBDA a, b : a < b)
      n == Len(offs)
  IN IF n <= FieldCap THEN { offs[k] : k \in 1..n }
     ELSE { offs[k] : k \in (1..(FieldCap \div 2)) \cup ((n - (FieldCap \div 2) + 1)..n) }

VARIABLE i
Init == i = 1
Next == i <= Len(Bases) /\ i' = i + 1
Spec == Init /\ [][Next]_i

Emit == (i <= Len(Bases)) =>
  LET b == Bases[i] IN
  PrintT("G " \o ToJson([base |-> i, name |-> b.name,
                         muts |-> SetToSeq(MutationsAt(b.bytes, b.family, CappedOffsets(b.bytes, b.family))),
                         truncs |-> SetToSeq(Truncs(Len(b.bytes))),
                         cuts |-> IF b.family = "pack" THEN <<>>
                                  ELSE SetToSeq(DataCuts(b.bytes, IF b.family = "bin_be" THEN "be" ELSE "le"))]))
=============================================================================
