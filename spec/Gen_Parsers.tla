---------------------------- MODULE Gen_Parsers ----------------------------
(* Generator for C05: for every base image (conforming files of each family, given
   by the orchestrator as ndjson {name, family, bytes}) print the single-field
   boundary mutations and the truncation lengths.  One TLC step per base. *)
EXTENDS Parsers, Json, IOUtils

Bases == ndJsonDeserialize(IOEnv.BASES)

Tier == IF "VERIF_TIER" \in DOMAIN IOEnv THEN IOEnv.VERIF_TIER ELSE "quick"
FieldCap == IF Tier = "quick" THEN 24 ELSE 400
Truncs(n) ==
  IF n <= (IF Tier = "quick" THEN 200 ELSE 1500) THEN 0..(n - 1)
  ELSE (0..64) \cup { k \in 0..(n - 1) : k % (IF Tier = "quick" THEN 23 ELSE 7) = 0 } \cup ((n - 40)..(n - 1))

\* keep the mutations of the first and last FieldCap/2 field offsets when a base has very many fields
Capped(muts) ==
  LET offs == SetToSortSeq({ m.off : m \in muts }, LAMBDA a, b : a < b)
      n == Len(offs)
      keep == IF n <= FieldCap THEN { offs[k] : k \in 1..n }
              ELSE { offs[k] : k \in (1..(FieldCap \div 2)) \cup ((n - (FieldCap \div 2) + 1)..n) }
  IN { m \in muts : m.off \in keep }

VARIABLE i
Init == i = 1
Next == i <= Len(Bases) /\ i' = i + 1
Spec == Init /\ [][Next]_i

Emit == (i <= Len(Bases)) =>
  LET b == Bases[i] IN
  PrintT("G " \o ToJson([base |-> i, name |-> b.name,
                         muts |-> SetToSeq(Capped(Mutations(b.bytes, b.family))),
                         truncs |-> SetToSeq(Truncs(Len(b.bytes))),
                         cuts |-> IF b.family = "pack" THEN <<>>
                                  ELSE SetToSeq(DataCuts(b.bytes, IF b.family = "bin_be" THEN "be" ELSE "le"))]))
=============================================================================
