"""Shared machinery for the /verif checks (python3 stdlib only).

A check is a python function run(ctx) living in /verif/checks/<id>.py.  It uses
  ctx.build(profile)          build the Rust harness against /repo's working tree
  ctx.tlc(...)                run TLC on a module of /verif/spec
  ctx.harness([...])          run the harness binary
  ctx.violation(sig, detail)  report a violation of the property (filtered by known findings)
  ctx.cover(...) / ctx.sample(...)   evidence bookkeeping
Exit codes: 0 held; 1 only with a VIOLATION line + replay file; 2 tool error.
"""
import json
import os
import re
import shutil
import subprocess
import sys
import tempfile
import time

VERIF = os.path.dirname(os.path.dirname(os.path.abspath(__file__)))
SPEC = os.path.join(VERIF, "spec")
HARNESS = os.path.join(VERIF, "harness")
EVID = os.environ.get("VERIF_EVIDENCE_DIR") or os.path.join(VERIF, "evidence")
REPLAYS = os.path.join(EVID, "replays")
TLA_CP = "/opt/veriftools/tla/tla2tools.jar:/opt/veriftools/tla/CommunityModules-deps.jar"
NCPU = os.cpu_count() or 4


class ToolError(Exception):
    pass


class TlcResult:
    def __init__(self):
        self.rc = None
        self.out = ""
        self.generated = 0
        self.distinct = 0
        self.depth = 0
        self.errors = []
        self.coverage = {}  # action name -> (distinct, generated)
        self.wall = 0.0

    def tagged(self, tag):
        """Lines printed by the spec with PrintT(tag \\o " " \\o ToJson(x)) -> list of parsed x."""
        res = []
        pre = '"' + tag + " "
        for line in self.out.splitlines():
            if line.startswith(pre):
                try:
                    inner = json.loads(line)
                except Exception:
                    continue
                res.append(json.loads(inner[len(tag) + 1:]))
        return res

    def tagged_raw(self, tag):
        res = []
        pre = '"' + tag + " "
        for line in self.out.splitlines():
            if line.startswith(pre):
                res.append(json.loads(line)[len(tag) + 1:])
        return res


class Ctx:
    def __init__(self, pid, tier, seed, level="model_checking"):
        self.pid = pid
        self.tier = tier
        self.seed = seed
        self.level = level
        self.t0 = time.time()
        self.tmp = tempfile.mkdtemp(prefix="verif_%s_" % pid)
        self.states = 0
        self.transitions = 0
        self.traces = 0
        self.evaluations = 0
        self.nontrivial = 0
        self.samples = []
        self.extra = {}
        self.assumptions = []
        self.viol = []       # unlisted violations
        self.known_hits = {}  # finding id -> count
        self.tlc_runs = []
        self.rule = ""
        self.exhaustive = None
        self._viol_n = 0
        with open(os.path.join(VERIF, "known_findings.json")) as f:
            kf = json.load(f)
        self.known = [k for k in kf.get("findings", []) if k.get("property") == pid]

    # ---------------------------------------------------------------- utils
    def log(self, *a):
        print("[%s %6.1fs]" % (self.pid, time.time() - self.t0), *a, flush=True)

    def path(self, name):
        return os.path.join(self.tmp, name)

    def quick(self):
        return self.tier == "quick"

    def pick(self, quick, thorough):
        return quick if self.tier == "quick" else thorough

    # ---------------------------------------------------------------- build
    def build(self, profile="release", bin="mvh_text"):
        """Build one harness binary (and mila from /repo's working tree). Returns the binary path.
        profile: "release" (wrapping arithmetic) or "checked" (overflow-checks + debug-assertions).
        Developer aid: VERIF_MILA=<dir> builds against a scratch copy of mila instead of /repo (used by
        dev/mutant.sh so that mutants never touch /repo); registered checks never set it."""
        hdir = HARNESS
        alt = os.environ.get("VERIF_MILA")
        if alt:
            import hashlib
            hdir = os.path.join(alt, ".verif_harness")
            if not os.path.exists(hdir):
                os.makedirs(hdir)
                os.symlink(os.path.join(HARNESS, "src"), os.path.join(hdir, "src"))
                shutil.copytree(os.path.join(HARNESS, ".cargo"), os.path.join(hdir, ".cargo"))
                with open(os.path.join(HARNESS, "Cargo.toml")) as f:
                    toml = f.read().replace('path = "/repo"', 'path = "%s"' % os.path.abspath(alt))
                with open(os.path.join(hdir, "Cargo.toml"), "w") as f:
                    f.write(toml)
                shutil.copy(os.path.join(HARNESS, "Cargo.lock"), os.path.join(hdir, "Cargo.lock"))
        lock = os.path.join(hdir, "Cargo.lock")
        if not os.path.exists(lock):
            shutil.copy("/repo/Cargo.lock", lock)
        env = dict(os.environ)
        env["CARGO_NET_OFFLINE"] = "true"
        tdir = os.path.join(hdir, "target")
        if alt and os.environ.get("VERIF_TARGET_DIR"):
            # developer aid: a target directory shared by successive scratch copies (dependencies are built once)
            tdir = os.environ["VERIF_TARGET_DIR"]
            env["CARGO_TARGET_DIR"] = tdir
        cmd = ["cargo", "build", "--offline", "--quiet", "--bin", bin]
        if profile == "release":
            cmd.append("--release")
        else:
            cmd += ["--profile", profile]
        t = time.time()
        p = subprocess.run(cmd, cwd=hdir, env=env, stdout=subprocess.PIPE, stderr=subprocess.STDOUT, text=True)
        if p.returncode != 0:
            print(p.stdout[-6000:])
            raise ToolError("cargo build failed (profile %s, bin %s)" % (profile, bin))
        self.log("built %s profile=%s in %.1fs" % (bin, profile, time.time() - t))
        return os.path.join(tdir, profile, bin)

    def harness(self, binary, args, stdin_path=None, stdout_path=None, timeout=3600, env=None, ok_codes=(0,)):
        e = dict(os.environ)
        e["VERIF_SEED"] = str(self.seed)
        e["VERIF_TIER"] = self.tier
        e["RUST_BACKTRACE"] = "0"
        if env:
            e.update(env)
        fin = open(stdin_path, "rb") if stdin_path else subprocess.DEVNULL
        fout = open(stdout_path, "wb") if stdout_path else subprocess.PIPE
        try:
            p = subprocess.run([binary] + list(args), stdin=fin, stdout=fout, stderr=subprocess.PIPE, env=e, timeout=timeout)
        except subprocess.TimeoutExpired:
            raise ToolError("harness timeout: %s" % " ".join(args))
        finally:
            if stdin_path:
                fin.close()
            if stdout_path:
                fout.close()
        if p.returncode not in ok_codes:
            sys.stdout.write((p.stderr or b"").decode("utf8", "replace")[-4000:])
            raise ToolError("harness exited %d: %s" % (p.returncode, " ".join(args)))
        return (p.stdout or b"").decode("utf8", "replace") if not stdout_path else ""

    # ---------------------------------------------------------------- isolated execution
    def isolated(self, binary, args, n_cases, out_path, per_case_timeout=10.0, env=None, max_dead=None):
        """Runs `binary args --from <k>` under supervision (protocol: util::run_isolated in the harness).
        The harness appends one JSON result per case to out_path.  A case during which the process died
        (signal / abort / exit) or exceeded per_case_timeout gets a synthetic result
        {"i": i, "outcome": "abort"|"timeout", "signal": n} appended instead, and the run resumes after it.
        Returns the list of results sorted by case index.
        After three timeouts the per-case limit drops to a fifth (>= 2 s): a change that makes many cases hang would
        otherwise cost the full limit for each of them.  With max_dead=N the run stops after N dead / hung cases and
        the results cover a prefix of the cases only (the caller must cope; extra["cases_not_run"] records it)."""
        import select
        timeouts = 0
        e = dict(os.environ)
        e["VERIF_SEED"] = str(self.seed)
        e["VERIF_TIER"] = self.tier
        e["RUST_BACKTRACE"] = "0"
        if env:
            e.update(env)
        if os.path.exists(out_path):
            os.remove(out_path)
        start = 0
        restarts = 0
        while start < n_cases:
            p = subprocess.Popen([binary] + list(args) + ["--from", str(start)], stdout=subprocess.PIPE,
                                 stderr=subprocess.PIPE, env=e)
            cur, done = None, start - 1
            t_case = time.time()
            buf = b""
            killed = None
            while True:
                r, _, _ = select.select([p.stdout], [], [], 0.25)
                if r:
                    chunk = os.read(p.stdout.fileno(), 65536)
                    if not chunk:
                        break
                    buf += chunk
                    while b"\n" in buf:
                        line, buf = buf.split(b"\n", 1)
                        if line.startswith(b"S "):
                            cur = int(line[2:])
                            t_case = time.time()
                        elif line.startswith(b"D "):
                            done = int(line[2:])
                            cur = None
                elif p.poll() is not None:
                    break
                limit = per_case_timeout if timeouts < 3 else max(2.0, per_case_timeout / 5.0)
                if cur is not None and time.time() - t_case > limit:
                    p.kill()
                    killed = "timeout"
                    break
            p.wait()
            err = p.stderr.read().decode("utf8", "replace")[-400:]
            p.stdout.close()
            p.stderr.close()
            if cur is None and p.returncode == 0:
                break
            if cur is None:
                raise ToolError("harness died outside a case (rc=%s): %s" % (p.returncode, err))
            with open(out_path, "a") as f:
                f.write(json.dumps({"i": cur, "outcome": killed or "abort", "signal": -p.returncode if p.returncode < 0 else p.returncode,
                                    "stderr": err}) + "\n")
            start = cur + 1
            restarts += 1
            timeouts += 1 if killed else 0
            if max_dead is not None and restarts >= max_dead and start < n_cases:
                self.extra["cases_not_run"] = self.extra.get("cases_not_run", 0) + (n_cases - start)
                self.log("worker died / hung on %d cases: the remaining %d cases are not run" % (restarts, n_cases - start))
                break
            if restarts > 2000:
                raise ToolError("too many worker restarts")
        res = read_ndjson(out_path) if os.path.exists(out_path) else []
        res.sort(key=lambda x: x["i"])
        self.extra["worker_restarts"] = self.extra.get("worker_restarts", 0) + restarts
        return res

    # ---------------------------------------------------------------- TLC
    def tlc(self, module, cfg=None, env=None, workers=None, timeout=1800, simulate=None, depth=None,
            coverage=False, deque=False, xmx="8g", allow_violation=False, count=True, defines=None):
        """Run TLC on spec/<module>.tla with spec/<cfg or module>.cfg.  A TLC-level error (invariant of the
        *model* violated, evaluation error, timeout) is a tool/spec error -> ToolError, unless allow_violation."""
        cfg = cfg or (module + ".cfg")
        workers = workers or min(NCPU, 8)
        meta = tempfile.mkdtemp(prefix="tlc_", dir=self.tmp)
        # java.io.tmpdir inside the run's own scratch directory: TLC leaves an empty tlc-<n> directory per run otherwise
        jopts = ["-XX:+UseParallelGC", "-Xss1g", "-Xmx" + xmx, "-Djava.io.tmpdir=" + meta]
        if deque:
            jopts.append("-Dtlc2.tool.queue.IStateQueue=StateDeque")
        cmd = ["java"] + jopts + ["-cp", TLA_CP, "tlc2.TLC", "-workers", str(workers), "-metadir", meta,
                                  "-cleanup", "-noGenerateSpecTE", "-config", cfg, "-seed", str(self.seed)]
        if coverage:
            cmd += ["-coverage", "1"]
        if simulate:
            cmd += ["-simulate", "num=%d" % simulate]
            if depth:
                cmd += ["-depth", str(depth)]
        cmd.append(module + ".tla")
        e = dict(os.environ)
        if env:
            e.update({k: str(v) for k, v in env.items()})
        r = TlcResult()
        t = time.time()
        try:
            p = subprocess.run(["timeout", str(timeout)] + cmd, cwd=SPEC, env=e, stdout=subprocess.PIPE,
                               stderr=subprocess.STDOUT, text=True)
        finally:
            shutil.rmtree(meta, ignore_errors=True)
        r.wall = time.time() - t
        r.rc = p.returncode
        r.out = p.stdout
        m = re.search(r"(\d+) states generated, (\d+) distinct states found", r.out)
        if m:
            r.generated, r.distinct = int(m.group(1)), int(m.group(2))
        m = re.search(r"depth of the complete state graph search is (\d+)", r.out)
        if m:
            r.depth = int(m.group(1))
        for line in r.out.splitlines():
            if line.startswith("Error:") or "is violated" in line or "TLC threw an unexpected exception" in line:
                r.errors.append(line)
            mm = re.match(r"^<(\w+) line \d+, col \d+ to line \d+, col \d+ of module (\w+)(?: \([\d ]+\))?>: (\d+):(\d+)", line)
            if mm:
                r.coverage[mm.group(1)] = (int(mm.group(3)), int(mm.group(4)))
        self.tlc_runs.append({"module": module, "cfg": cfg, "generated": r.generated, "distinct": r.distinct,
                              "depth": r.depth, "wall_s": round(r.wall, 1), "rc": r.rc,
                              "mode": "simulate" if simulate else "bfs"})
        if count:
            self.states += r.distinct
            self.transitions += r.generated
        self.log("TLC %s/%s: rc=%d generated=%d distinct=%d depth=%d %.1fs" %
                 (module, cfg, r.rc, r.generated, r.distinct, r.depth, r.wall))
        if (r.rc != 0 or r.errors) and not allow_violation:
            tail = "\n".join(l for l in r.out.splitlines() if not l.startswith('"'))[-5000:]
            print(tail)
            raise ToolError("TLC failed on %s (%s): rc=%d" % (module, cfg, r.rc))
        return r

    def require_coverage(self, r, actions):
        """Vacuity guard: every named action must have been taken at least once (needs coverage=True)."""
        missing = [a for a in actions if r.coverage.get(a, (0, 0))[1] == 0]
        if missing:
            raise ToolError("vacuous model: actions never taken: %s" % missing)
        self.extra.setdefault("action_coverage", {}).update({a: r.coverage[a][1] for a in actions})

    # ---------------------------------------------------------------- results
    def violation(self, sig, detail):
        """sig: small dict identifying the failing case (matched against known findings);
        detail: anything JSON-serialisable needed to replay it."""
        for k in self.known:
            if all(sig.get(a) == b for a, b in k["match"].items()):
                self.known_hits[k["id"]] = self.known_hits.get(k["id"], 0) + 1
                return False
        self._viol_n += 1
        if self._viol_n <= 20:
            os.makedirs(REPLAYS, exist_ok=True)
            path = os.path.join(REPLAYS, "%s-%d.json" % (self.pid, self._viol_n))
            with open(path, "w") as f:
                json.dump({"property": self.pid, "sig": sig, "detail": detail, "seed": self.seed, "tier": self.tier}, f)
            print("VIOLATION property=%s replay=%s" % (self.pid, path), flush=True)
            print("  what: %s" % json.dumps(sig)[:600], flush=True)
        self.viol.append(sig)
        return True

    def sample(self, s, cap=6):
        if len(self.samples) < cap:
            self.samples.append(s)

    def finish(self, write_evidence=True):
        for k in self.known:
            if self.known_hits.get(k["id"]):
                print("KNOWN-FINDING: property=%s %s (id=%s, %d cases)" % (self.pid, k["what"], k["id"], self.known_hits[k["id"]]))
        cov = {
            "states": self.states,
            "transitions": self.transitions,
            "traces_validated_against_impl": self.traces,
            "samples": self.samples or ["(none)"],
            "evaluations": self.evaluations,
            "distinct_nontrivial": self.nontrivial,
            "rule": self.rule,
            "tlc_runs": self.tlc_runs,
            "known_findings_hit": self.known_hits,
        }
        if self.exhaustive is not None:
            cov["exhaustive"] = self.exhaustive
        cov.update(self.extra)
        ev = {
            "property_id": self.pid,
            "tier": self.tier,
            "seed": self.seed,
            "level": self.level,
            "coverage": cov,
            "assumptions": self.assumptions,
            "wall_s": round(time.time() - self.t0, 2),
            "violations": len(self.viol),
        }
        if write_evidence:
            os.makedirs(EVID, exist_ok=True)
            with open(os.path.join(EVID, self.pid + ".json"), "w") as f:
                json.dump(ev, f, indent=1)
        shutil.rmtree(self.tmp, ignore_errors=True)
        self.log("done: states=%d transitions=%d traces=%d evaluations=%d violations=%d wall=%.1fs" %
                 (self.states, self.transitions, self.traces, self.evaluations, len(self.viol), ev["wall_s"]))
        return 1 if self.viol else 0


def read_ndjson(path):
    out = []
    with open(path) as f:
        for line in f:
            line = line.strip()
            if line:
                out.append(json.loads(line))
    return out


def write_ndjson(path, items):
    with open(path, "w") as f:
        for it in items:
            f.write(json.dumps(it, separators=(",", ":")))
            f.write("\n")
