#!/usr/bin/env python3
"""Regenerates /verif/MANIFEST.json from the table below (single source of truth)."""
import json, os
HERE = os.path.dirname(os.path.dirname(os.path.abspath(__file__)))

ALL = ["C%02d" % i for i in range(1, 21)]

CHECKS = {
 "C19": dict(
    category="model_checking", design_ref="DESIGN.md 5/C19",
    text="The published pixel-format rules are transcribed into TLA+ (spec/Pixel.tla, spec/Etc1.tla: Morton tile order, per-format channel extraction with the statement's one-quantisation-step tolerance, ETC1/ETC1A4 block rules, RGB5A3, CI8 8x4 blocks with crop). TLC checks the index maps are bijections and the bit-field/arithmetics laws, generates payloads with the allowed output interval per byte (replayed through ctpk::read / mila::decode / Tpl::extract_textures / ColorFormat::decode under both arithmetic profiles) and checks every texel of images recorded from mila (all 65 536 values of each 16-bit format, random payloads, all sizes).",
    note="Assurance of an independent executable reference, not of state-space exploration: the rules in the spec are hand-transcribed from the public format descriptions, so an error common to spec and code would go unseen. 1-bit alpha is unconstrained by the statement's inclusive tolerance. Formats not named in the statement are not exercised.",
    technique="TLA+ reference decoder evaluated by TLC; spec->impl interval replay under two profiles; impl->spec per-texel validation by TLC"),
 "C20": dict(
    category="model_checking", design_ref="DESIGN.md 5/C20",
    text="spec/TexContainers.tla gives, per container (CTPK, BCH, CGFX, TPL), the set of conforming layouts of a texture list (section order, name/payload placement, gaps), a reference reader and the payload extents. TLC checks well-formedness, non-overlap and reference-read = value on every generated file; mila's four readers are run on every file, on every strict prefix (must be Err when the cut removes payload bytes, never panic/abort/hang) and on damaged magic numbers, in a supervised worker under both profiles; returned names, dimensions and pixels are validated by TLC.",
    note="0-6 textures, curated placements (3 per container quick, 122 thorough); panic-freedom on prefixes is observed, not proved. No container writer exists in mila, so the recorded direction re-checks reader outputs of generated files.",
    technique="TLA+ layout spec + TLC; spec->impl replay of files, all prefixes and damaged magics in isolation; impl->spec validation of reader output"),
 "C05": dict(
    category="model_checking", design_ref="DESIGN.md 5/C05",
    text="spec/Parsers.tla defines, for every entry point that parses untrusted bytes, the legal outcomes (ok/err only, largest single allocation request <= 512*len+64KiB, accepted input re-serializable without panic), the must-reject predicates computed from the raw bytes in overflow-free arithmetic, and the boundary mutations of conforming base images (every header/table field x boundary values, all truncations). Inputs generated that way plus seeded random buffers/mutations are run through all 10 entry points in a supervised worker under both arithmetic profiles; TLC decides every observed outcome.",
    note="Freedom from panic/abort/overflow/hang/over-allocation is observed on the generated inputs (tens of thousands per run), not proved; the spec contributes legality, must-reject and boundary-value generation. Tracking allocator in the harness; single requests > 1 GiB are refused (abort observed by the supervisor).",
    technique="TLA+ outcome model + TLC-generated boundary mutations; isolated execution under two build profiles; TLC validation of outcomes"),
 "C06": dict(
    category="model_checking", design_ref="DESIGN.md 5/C06",
    text="TLA+ specification of the text archive file format (spec/TextFormat.tla over BinFormat.tla): value -> archive content -> canonical image, and a reference reader. TLC checks round trip, 4-byte alignment and key-as-label on every enumerated value in all 4 format x endianness configurations; mila must produce exactly the specification image for each value and parse it back; random archives over all of Unicode / lossless Shift-JIS recorded from mila are read back by TLC's reference reader.",
    note="<= 2/3 entries in the enumeration, curated titles/keys/messages (every length modulo 4, BOM-like and astral characters); random archives up to 200 entries. Byte-exact image comparison only where the big-endian label order is determined. Codec conversions in the harness are trusted.",
    technique="TLA+ format spec + TLC exhaustive law check; spec->impl image/round-trip replay; impl->spec reference read by TLC"),
 "C03": dict(
    category="model_checking", design_ref="DESIGN.md 5/C03",
    text="TLA+ state machine of the in-memory archive (spec/BinArchive.tla): every operation is a function to the set of allowed outcomes. TLC checks conservation, inverse, rejection and well-annotatedness laws on all small archives x all boundary events; every (state, event) pair is replayed on a real BinArchive and the full observable state (incl. pending c-strings via the cfg-gated hook) compared; random histories recorded from mila are validated step by step by TLC.",
    note="Bounded model (archives <= 8/12 bytes, curated annotations, boundary-value events); beyond it random histories (archives <= ~260 bytes). Only cell-aligned single annotations per cell (the property's domain). Harness builder/projection and the hook are trusted.",
    technique="TLA+ state machine + TLC exhaustive law check; spec->impl transition replay; impl->spec trace validation"),
 "C04": dict(
    category="model_checking", design_ref="DESIGN.md 5/C04",
    text="Same specification: typed/byte/annotation accessors and the stream cursors as outcome-set functions over mathematical integers (MAXU encoding for addresses near usize::MAX). TLC checks bounds-iff, locality, read-back and stream=positional laws; all (state, event) pairs are replayed under both arithmetic profiles; random interleavings of stream and positional calls are validated by TLC.",
    note="Sizes {0,1,4,6,9}, boundary addresses/lengths, curated bit patterns (sign bits, NaN payloads); zero-length accesses and the cursor after a failed call are left open as the statement is silent. Both profiles (overflow-checks on/off).",
    technique="TLA+ state machine + TLC; spec->impl transition replay under two build profiles; impl->spec trace validation"),
 "C01": dict(
    category="model_checking", design_ref="DESIGN.md 5/C01",
    text="TLA+ specification of the bin archive file format (spec/BinFormat.tla: Canon, Layouts, WellFormedFor, total reference parser RefParse). TLC checks on the bounded model that every conforming layout of every content is well-formed and re-parses to the content; every generated layout is fed to mila's parser and compared; images serialized by mila for random larger contents are validated by TLC acting as the independent reference reader.",
    note="Bounded enumeration (<= 2-3 cells, curated strings/labels); beyond it seeded random contents (<= 64 cells) and the repository's files. Shift-JIS codec, serde_json and the harness content builder/projection are trusted.",
    technique="TLA+ format spec + TLC exhaustive law check; spec->impl layout replay; impl->spec validation of serialized images by TLC"),
 "C02": dict(
    category="model_checking", design_ref="DESIGN.md 5/C02",
    text="The canonical image is a TLA+ function of content (BinFormat!Canon). TLC checks Canon is a conforming layout and idempotent under parse on the bounded model; every enumerated content is built in several call orders on fresh instances and mila's bytes are compared with Canon (byte-exact) and with each other; random contents and the repository's golden files are compared with Canon by TLC.",
    note="Big-endian byte-exactness only where every reading of 'by name' agrees (distinct ASCII first names); otherwise determinism only. Same bounds and trusted base as C01.",
    technique="TLA+ canonical writer + TLC; spec->impl byte comparison over call orders; impl->spec Canon check by TLC"),
 "C07": dict(
    category="model_checking", design_ref="DESIGN.md 5/C07",
    text="TLA+ state machine of the text archive (spec/TextArchive.tla). TLC checks the ordering/escaping/dirty laws exhaustively on the bounded model; every (state, call) pair of that model is replayed on the real TextArchive and compared with the allowed outcomes; seeded random histories recorded from the real TextArchive are validated step by step by TLC (Trace_TextArchive).",
    note="Bounded model (3 keys, curated messages); beyond it random traces. String<->code-point conversion, serde_json and the harness pre-state builder are trusted.",
    technique="TLA+ spec + TLC exhaustive model check; spec->impl transition replay; impl->spec trace validation"),
}

NOT_YET = "check not built yet in this round (planned, see DESIGN.md section 5)"

def main():
    checks = []
    for pid in ALL:
        if pid not in CHECKS:
            continue
        c = CHECKS[pid]
        checks.append({
            "property_id": pid,
            "quick_cmd": "./check %s --tier quick" % pid,
            "thorough_cmd": "./check %s --tier thorough" % pid,
            "evidence_file": "/verif/evidence/%s.json" % pid,
            "replay_cmd_template": "./check --replay {path}",
            "engine": "tlc+mvh",
            "level_claimed": {"category": c["category"], "text": c["text"], "design_ref": c["design_ref"]},
            "level_note": c["note"],
            "technique": c["technique"],
        })
    m = {
        "version": 1,
        "setup_cmd": "./setup.sh",
        "hooks": {
            "guard": "mila_verif",
            "enable": "RUSTFLAGS --cfg mila_verif via /verif/harness/.cargo/config.toml (one add-only hook: BinArchive::verif_pending_c_strings exposes pending c-strings)",
            "baseline_off_cmd": "cd /repo && cargo test --workspace --no-fail-fast --offline",
            "source_commits": ["f5eae9b"],
            "add_only": True,
        },
        "engines": [
            {"name": "tlc", "path": "/verif/spec", "serves_properties": sorted(CHECKS), "kind_free_text": "TLA+ specifications checked with TLC 1.8.0 (exhaustive BFS, generator and trace-validation configurations)"},
            {"name": "mvh", "path": "/verif/harness", "serves_properties": sorted(CHECKS), "kind_free_text": "Rust conformance harness: replays TLC-generated cases into mila and records traces from mila for TLC"},
        ],
        "checks": checks,
        "notes": "Model-based verification with explicit TLA+ specifications; see DESIGN.md. ./check <ID> --tier quick|thorough; exit 0 held / 1 VIOLATION / 2 tool error.",
        "not_applicable": [{"property_id": p, "reason": NOT_YET} for p in ALL if p not in CHECKS],
    }
    with open(os.path.join(HERE, "MANIFEST.json"), "w") as f:
        json.dump(m, f, indent=1)
    print("MANIFEST.json: %d checks, %d not_applicable" % (len(checks), len(m["not_applicable"])))

if __name__ == "__main__":
    main()
