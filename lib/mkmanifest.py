#!/usr/bin/env python3
"""Regenerates /verif/MANIFEST.json from the table below (single source of truth)."""
import json, os
HERE = os.path.dirname(os.path.dirname(os.path.abspath(__file__)))

ALL = ["C%02d" % i for i in range(1, 21)]

CHECKS = {
 "C08": dict(
    category="model_checking", design_ref="DESIGN.md 5/C08",
    text="spec/LZ.tla: token model, encoder and the LZ10/LZ11 decoder as a TLA+ state machine (one step per header / flag byte / token) with terminal classes done / err / open. TLC checks exhaustively at scaled constants that decode(encode(ts)) = expand(ts) for every token sequence, that the closed-form overlapping copy equals the byte-wise one, and that done and err are exclusive. The real LZ10 compressor's output for all inputs over small alphabets up to a length bound plus structured large inputs is the trace: TLC runs the decoder machine at the real constants over those bytes and must reach done with out = input, legal lengths/displacements and nothing left over; the library's own round trip is checked too.",
    note="Exhaustive over {a,b} up to length 10/13 and {a,b,c} up to 6/8; structured inputs up to ~20 KB quick / 64 KB thorough (the 16 MiB bound of the statement is not reached: the match search is quadratic). Scaled model W=6.",
    technique="TLA+ decoder state machine + TLC exhaustive at scaled constants; impl->spec validation of real compressor output by the TLA+ decoder"),
 "C09": dict(
    category="model_checking", design_ref="DESIGN.md 5/C09",
    text="Same specification with the LZ11 constants (three reference forms) and the 0x13 wrapper: TLC validates every stream the real LZ13 compressor produced (exhaustive small alphabets, inputs forcing each length form, window-edge displacements) and, in a supervised worker under both arithmetic profiles, that compress returns Ok or Err for every input including the empty one.",
    note="As C08; wrapper bytes 1..3 are unconstrained (the statement does not define them). Totality is observed on the explored inputs.",
    technique="TLA+ decoder state machine + TLC; impl->spec validation of real compressor output; isolated execution under two profiles"),
 "C10": dict(
    category="model_checking", design_ref="DESIGN.md 5/C10",
    text="LZ!SizeBound and LZ!PeriodBound are the statement's formulas. TLC checks exhaustively that the greedy longest-match tokeniser model (displacement >= 2) meets both bounds at scaled constants for all inputs and all periods (and that weakened tokenisers violate them: vacuity guard); the real compressors' output sizes for periodic inputs (quick: ~60 periods incl. the window edge; thorough: all periods 1..4096 x 2 lengths x 2 pattern families x both formats) and for every C08/C09 input are evaluated against the bounds by TLC.",
    note="Effectiveness bound: 2 total lengths and 2 pattern families per period. Release profile only (sizes do not depend on overflow checks).",
    technique="TLA+ bound formulas + scaled greedy model checked by TLC; impl->spec size events validated by TLC"),
 "C11": dict(
    category="model_checking", design_ref="DESIGN.md 5/C11",
    text="TLC enumerates token sequences at the real encodings (boundary lengths of every LZ11 form, displacement 1, overlapping copies, window edge via literal-run macros), encodes them in TLA+ and derives the expected expansion with the decoder machine; malformed families (empty, short header, unknown type, every cutting truncation, reference before the start at every position) are classified err by the spec. All streams go through LZ10 / LZ13 / CompressionFormat::decompress (wrapped, bare LZ10, bare LZ11, stored forms) in a supervised worker under both profiles; random corruptions are re-classified by TLC.",
    note="Open outcomes (only no-panic demanded): trailing bytes, a final reference overshooting the declared length, the LZ11 32-bit extended length header.",
    technique="TLA+ encoder/decoder + TLC-generated streams; spec->impl replay in isolation under two profiles; impl->spec validation of random corruptions"),
 "C12": dict(
    category="model_checking", design_ref="DESIGN.md 5/C12",
    text="spec/LayeredFS.tla: layers as trees, every filesystem operation as an outcome-set function, per-game configuration; TLC checks lower-layers-immutable, write-touches-only-target, read-after-write, topmost-file and query agreement on a bounded model; every generated transition is materialised as real directories and replayed through LayeredFilesystem, comparing the result and a walk of every layer; random histories on random trees are validated by TLC. Compressed targets: the on-disk bytes are validated by the TLA+ LZ decoder. Typed helpers are checked as byte-level operation composed with the observed codec.",
    note="Plain tree semantics of the OS filesystem assumed (no symlinks, permissions, case folding, concurrent modification); error kinds compared as classes.",
    technique="TLA+ state machine + TLC; spec->impl transition replay on real directories; impl->spec trace validation"),
 "C13": dict(
    category="model_checking", design_ref="DESIGN.md 5/C13",
    text="Listing semantics in the same module (sorted bytewise, duplicate-free union over layers, closed glob family with structural matchers, sub-directories); TLC checks sortedness, no duplicates, soundness/completeness against the trees and localized = unlocalized-of-localized; listing operations are issued after every mutation in the replayed transitions and recorded histories.",
    note="Patterns from a closed family; names restricted to plain components (no hidden files / glob metacharacters).",
    technique="TLA+ listing semantics + TLC; spec->impl replay; impl->spec trace validation"),
 "C14": dict(
    category="model_checking", design_ref="DESIGN.md 5/C14",
    text="spec/Localize.tla: marker table and split rule from the statement; TLC checks for all 6 localizers x 8 languages x paths in scope that results are directory ++ marker ++ final component and errors exactly on unsupported pairs / final-less paths; ~3k cases replayed string-for-string against PathLocalizer::localize; the same-mapping clause rides on the localized transitions of the filesystem model.",
    note="Exhaustive over the game x language table; paths of depth 1-4 over a small component alphabet plus degenerate paths.",
    technique="TLA+ table/function spec + TLC exhaustive; spec->impl replay; filesystem traces for the same-mapping clause"),
 "C15": dict(
    category="model_checking", design_ref="DESIGN.md 5/C15",
    text="spec/Fe9Pack.tla: CanonPack, PackLayouts (names and bodies anywhere, any order, gaps), WellFormedPack and a total reference parser; TLC checks parse(layout) = value for every layout and the alignment/exactness laws of the canonical image; fe9_arc::serialize is compared byte-exact with CanonPack and fe9_arc::parse is fed every layout; random maps recorded from mila are validated by TLC.",
    note="0..3 files in the enumeration, random maps up to 300 files; one 65 535-file case in thorough.",
    technique="TLA+ format spec + TLC; spec->impl layout replay; impl->spec image validation"),
 "C16": dict(
    category="model_checking", design_ref="DESIGN.md 5/C16",
    text="spec/Arc3ds.tla: arc layouts as archive contents (padded/unpadded, record permutations, body placements) and error layouts; TLC checks expected extraction = value and error classification; images are fed to arc::from_bytes; random arcs and the repository's ArcTest.arc are validated by TLC.",
    note="No arc writer exists in mila: images come from the specification (via the canonical bin image) or are built by the harness from TLC-validated layout descriptions.",
    technique="TLA+ layout spec + TLC; spec->impl replay; impl->spec validation"),
 "C17": dict(
    category="model_checking", design_ref="DESIGN.md 5/C17",
    text="spec/ASet.tla: value <-> archive content (flag words, omitted groups, 257-entry clip table) with reference reader; TLC checks round trip, SetSize and idempotence on the enumerated group patterns; ASetFile::serialize is compared with the specification image, parsed back and re-serialized; random values and the repository file are validated by TLC.",
    note="Group patterns from a curated family (empty, bit 0, bit 31, both, alternating, full) over 2 groups + each single group position; random 256-bit masks beyond.",
    technique="TLA+ format spec + TLC; spec->impl image/round-trip replay; impl->spec validation"),
 "C18": dict(
    category="model_checking", design_ref="DESIGN.md 5/C18",
    text="spec/AssetBinary.tla: one 51-row field table drives flags, record form, record size, content and reference reader; TLC checks round trip, extended <=> 8 flag bytes and record size on all-absent, all-present, every single bit, every pair of bits and every bit removed from all-present; AssetBinary::serialize is compared with the specification image, parsed back and re-serialized; random flag sets and the repository file are validated by TLC.",
    note="2^51 presence patterns are not exhausted: single / pair / complement coverage plus random. Values of absent fields are don't-care.",
    technique="TLA+ table-driven format spec + TLC; spec->impl replay; impl->spec validation"),
 "C19": dict(
    category="model_checking", design_ref="DESIGN.md 5/C19",
    text="The published pixel-format rules are transcribed into TLA+ (spec/Pixel.tla, spec/Etc1.tla: Morton tile order, per-format channel extraction with the statement's one-quantisation-step tolerance, ETC1/ETC1A4 block rules, RGB5A3, CI8 8x4 blocks with crop). TLC checks the index maps are bijections and the bit-field/arithmetics laws, generates payloads with the allowed output interval per byte (replayed through ctpk::read / mila::decode / Tpl::extract_textures / ColorFormat::decode under both arithmetic profiles) and checks every texel of images recorded from mila (all 65 536 values of each 16-bit format, random payloads, all sizes).",
    note="Assurance of an independent executable reference, not of state-space exploration: the rules in the spec are hand-transcribed from the public format descriptions, so an error common to spec and code would go unseen. 1-bit alpha is unconstrained by the statement's inclusive tolerance. Formats not named in the statement are not exercised.",
    technique="TLA+ reference decoder evaluated by TLC; spec->impl interval replay under two profiles; impl->spec per-texel validation by TLC"),
 "C20": dict(
    category="model_checking", design_ref="DESIGN.md 5/C20",
    text="spec/TexContainers.tla gives, per container (CTPK, BCH, CGFX, TPL), the set of conforming layouts of a texture list (section order, name/payload placement, gaps), a reference reader and the payload extents. TLC checks well-formedness, non-overlap and reference-read = value on every generated file; mila's four readers are run on every file, on every strict prefix (must be Err when the cut removes payload bytes, never panic/abort/hang) and on damaged magic numbers, in a supervised worker under both profiles; returned names, dimensions and pixels are validated by TLC.",
    note="0-6 textures, curated placements (3 per container quick, 122 thorough); panic-freedom on prefixes is observed, not proved. No container writer exists in mila, so the recorded direction re-checks reader outputs of generated files.",
    technique="TLA+ layout spec + TLC; spec->impl replay of files, all prefixes and damaged magics in isolation; impl->spec validation of reader output"),
 "C05": dict(
    category="exploration", design_ref="DESIGN.md 5/C05",
    text="spec/Parsers.tla defines, for every entry point that parses untrusted bytes, the legal outcomes (ok/err only, largest single allocation request <= 512*len+64KiB, accepted input re-serializable without panic), the must-reject predicates computed from the raw bytes in overflow-free arithmetic, and the boundary mutations of conforming base images (every header/table field x boundary values, all truncations). Inputs generated that way plus seeded random buffers/mutations are run through all 10 entry points in a supervised worker under both arithmetic profiles; TLC decides every observed outcome.",
    note="Freedom from panic/abort/overflow/hang/over-allocation is observed on the generated inputs (tens of thousands per run), not proved; the spec contributes legality, must-reject and boundary-value generation. Tracking allocator in the harness; single requests > 1 GiB are refused (abort observed by the supervisor).",
    technique="TLA+ outcome model + TLC-generated boundary mutations; isolated execution under two build profiles; TLC validation of outcomes"),
 "C06": dict(
    category="model_checking", design_ref="DESIGN.md 5/C06",
    text="TLA+ specification of the text archive file format (spec/TextFormat.tla over BinFormat.tla): value -> archive content -> canonical image, and a reference reader. TLC checks round trip, 4-byte alignment and key-as-label on every enumerated value in all 4 format x endianness configurations; mila must produce exactly the specification image for each value and parse it back; random archives over all of Unicode / lossless Shift-JIS recorded from mila are read back by TLC's reference reader.",
    note="<= 2/3 entries in the enumeration, curated titles/keys/messages (every length modulo 4, BOM-like and astral characters); random archives up to 200 entries. Byte-exact image comparison only where the big-endian label order is determined. Codec conversions in the harness are trusted.",
    technique="TLA+ format spec + TLC exhaustive law check; spec->impl image/round-trip replay; impl->spec reference read by TLC"),
 "C03": dict(
    category="model_checking", design_ref="DESIGN.md 5/C03",
    text="TLA+ state machine of the in-memory archive (spec/BinArchive.tla): every operation is a function to the set of allowed outcomes. TLC checks conservation, inverse, rejection and well-annotatedness laws on all small archives x all boundary events; every (state, event) pair is replayed on a real BinArchive and the full observable state (incl. pending c-strings via the cfg-gated hook) compared; random histories recorded from mila are validated step by step by TLC.",
    note="Bounded model (archives <= 8/12 bytes, curated annotations, boundary-value events); beyond it random histories (archives <= ~260 bytes). Only cell-aligned single annotations per cell (the property's domain). Harness builder/projection and the hook are trusted.",
    technique="TLA+ state machine + TLC exhaustive law check; spec->impl transition replay; impl->spec trace validation"),
 "C04": dict(
    category="model_checking", design_ref="DESIGN.md 5/C04",
    text="Same specification: typed/byte/annotation accessors and the stream cursors as outcome-set functions over mathematical integers (MAXU encoding for addresses near usize::MAX). TLC checks bounds-iff, locality, read-back and stream=positional laws; all (state, event) pairs are replayed under both arithmetic profiles; random interleavings of stream and positional calls are validated by TLC.",
    note="Sizes {0,1,4,6,9}, boundary addresses/lengths, curated bit patterns (sign bits, NaN payloads); zero-length accesses and the cursor after a failed call are left open as the statement is silent. Both profiles (overflow-checks on/off).",
    technique="TLA+ state machine + TLC; spec->impl transition replay under two build profiles; impl->spec trace validation"),
 "C01": dict(
    category="model_checking", design_ref="DESIGN.md 5/C01",
    text="TLA+ specification of the bin archive file format (spec/BinFormat.tla: Canon, Layouts, WellFormedFor, total reference parser RefParse). TLC checks on the bounded model that every conforming layout of every content is well-formed and re-parses to the content; every generated layout is fed to mila's parser and compared; images serialized by mila for random larger contents are validated by TLC acting as the independent reference reader.",
    note="Bounded enumeration (<= 2-3 cells, curated strings/labels); beyond it seeded random contents (<= 64 cells) and the repository's files. Shift-JIS codec, serde_json and the harness content builder/projection are trusted.",
    technique="TLA+ format spec + TLC exhaustive law check; spec->impl layout replay; impl->spec validation of serialized images by TLC"),
 "C02": dict(
    category="model_checking", design_ref="DESIGN.md 5/C02",
    text="The canonical image is a TLA+ function of content (BinFormat!Canon). TLC checks Canon is a conforming layout and idempotent under parse on the bounded model; every enumerated content is built in several call orders on fresh instances and mila's bytes are compared with Canon (byte-exact) and with each other; random contents and the repository's golden files are compared with Canon by TLC.",
    note="Big-endian byte-exactness only where every reading of 'by name' agrees (distinct ASCII first names); otherwise determinism only. Same bounds and trusted base as C01.",
    technique="TLA+ canonical writer + TLC; spec->impl byte comparison over call orders; impl->spec Canon check by TLC"),
 "C07": dict(
    category="model_checking", design_ref="DESIGN.md 5/C07",
    text="TLA+ state machine of the text archive (spec/TextArchive.tla). TLC checks the ordering/escaping/dirty laws exhaustively on the bounded model; every (state, call) pair of that model is replayed on the real TextArchive and compared with the allowed outcomes; seeded random histories recorded from the real TextArchive are validated step by step by TLC (Trace_TextArchive).",
    note="Bounded model (3 keys, curated messages); beyond it random traces. String<->code-point conversion, serde_json and the harness pre-state builder are trusted.",
    technique="TLA+ spec + TLC exhaustive model check; spec->impl transition replay; impl->spec trace validation"),
}

NOT_YET = "check not built yet in this round (planned, see DESIGN.md section 5)"

def main():
    checks = []
    for pid in ALL:
        if pid not in CHECKS:
            continue
        c = CHECKS[pid]
        checks.append({
            "property_id": pid,
            "quick_cmd": "./check %s --tier quick" % pid,
            "thorough_cmd": "./check %s --tier thorough" % pid,
            "evidence_file": "/verif/evidence/%s.json" % pid,
            "replay_cmd_template": "./check --replay {path}",
            "engine": "tlc+mvh",
            "level_claimed": {"category": c["category"], "text": c["text"], "design_ref": c["design_ref"]},
            "level_note": c["note"],
            "technique": c["technique"],
        })
    m = {
        "version": 1,
        "setup_cmd": "./setup.sh",
        "hooks": {
            "guard": "mila_verif",
            "enable": "RUSTFLAGS --cfg mila_verif via /verif/harness/.cargo/config.toml (one add-only hook: BinArchive::verif_pending_c_strings exposes pending c-strings)",
            "baseline_off_cmd": "cd /repo && cargo test --workspace --no-fail-fast --offline",
            "source_commits": ["f5eae9b"],
            "add_only": True,
        },
        "engines": [
            {"name": "tlc", "path": "/verif/spec", "serves_properties": sorted(CHECKS), "kind_free_text": "TLA+ specifications checked with TLC 1.8.0 (exhaustive BFS, generator and trace-validation configurations)"},
            {"name": "mvh", "path": "/verif/harness", "serves_properties": sorted(CHECKS), "kind_free_text": "Rust conformance harness: replays TLC-generated cases into mila and records traces from mila for TLC"},
        ],
        "checks": checks,
        "notes": "Model-based verification with explicit TLA+ specifications; see DESIGN.md. ./check <ID> --tier quick|thorough; exit 0 held / 1 VIOLATION / 2 tool error.",
        "not_applicable": [{"property_id": p, "reason": NOT_YET} for p in ALL if p not in CHECKS],
    }
    with open(os.path.join(HERE, "MANIFEST.json"), "w") as f:
        json.dump(m, f, indent=1)
    print("MANIFEST.json: %d checks, %d not_applicable" % (len(checks), len(m["not_applicable"])))

if __name__ == "__main__":
    main()
