#!/bin/sh
# Builds the conformance harness (all binaries, both arithmetic profiles) offline from files on disk.
set -e
cd "$(dirname "$0")/harness"
export CARGO_NET_OFFLINE=true
[ -f Cargo.lock ] || cp /repo/Cargo.lock Cargo.lock
cargo build --offline --release --bins
cargo build --offline --profile checked --bins
echo "setup ok"
