#!/bin/sh
# Builds the conformance harness (every binary, both arithmetic profiles) offline from files on disk.
# Each check rebuilds what it needs from /repo's current tree anyway; this only warms the cargo cache.
cd "$(dirname "$0")/harness" || exit 1
export CARGO_NET_OFFLINE=true
[ -f Cargo.lock ] || cp /repo/Cargo.lock Cargo.lock
cargo build --offline --release --lib || exit 1
cargo build --offline --profile checked --lib || exit 1
for b in src/bin/*.rs; do
  n=$(basename "$b" .rs)
  cargo build --offline --release --bin "$n" || echo "warning: $n (release) did not build"
  cargo build --offline --profile checked --bin "$n" || echo "warning: $n (checked) did not build"
done
echo "setup ok"
