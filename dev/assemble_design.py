#!/usr/bin/env python3
"""Rebuilds section 11 of DESIGN.md from dev/design_asbuilt_part*.md (developer aid)."""
import os
d = os.path.dirname(os.path.abspath(__file__))
p = os.path.join(d, "..", "DESIGN.md")
s = open(p).read()
marker = "\n## 11. As built\n"
if marker in s:
    s = s[:s.index(marker)]
p1 = open(os.path.join(d, "design_asbuilt_part1.md")).read()
p2 = open(os.path.join(d, "design_asbuilt_part2.md")).read()
p3 = open(os.path.join(d, "design_asbuilt_part3.md")).read()
p4 = open(os.path.join(d, "design_asbuilt_part4.md")).read()
p5 = open(os.path.join(d, "design_asbuilt_part5.md")).read() if os.path.exists(os.path.join(d, "design_asbuilt_part5.md")) else ""
strengthen = open(os.path.join(d, "design_strengthen.md")).read() if os.path.exists(os.path.join(d, "design_strengthen.md")) else "(in progress)"
# part1 ends with the fixes table (my rows); part3 starts with further rows of the same table
i = p1.index("### 11.3")
head, fixes = p1[:i], p1[i:]
# insert part2 rows after the C07 row of the 11.2 table
j = head.rindex("| C07 |")
k = head.index("\n", j) + 1
head = head[:k] + p2 + head[k:]
out = "\n" + head.rstrip("\n") + "\n\n" + fixes.rstrip("\n") + "\n" + p3 + p4.replace("@@STRENGTHEN@@", strengthen) + p5
open(p, "w").write(s.rstrip("\n") + "\n" + out)
print("DESIGN.md section 11 rebuilt")
