#!/usr/bin/env python3
"""dev/regress.py [--workers N] [--only mutants|seeded|benign] — regression suite of the checks themselves (developer aid).
  dev/mutants/cNN_*.diff     property-breaking mutants written with the checks      -> ./check CNN must exit 1
  seeded/<ID>-*/patch.diff   independently produced property-breaking changes       -> ./check <ID> must exit 1
  dev/benign/*.diff          property-preserving variants (dev/benign/MAP.json)      -> the mapped checks must exit 0
Each run uses dev/mutant.sh (scratch worktree, never /repo)."""
import argparse, glob, json, os, re, subprocess, sys, threading

V = os.path.dirname(os.path.dirname(os.path.abspath(__file__)))

def jobs(only):
    out = []
    if only in (None, "mutants"):
        for f in sorted(glob.glob(os.path.join(V, "dev/mutants/c*_*.diff"))):
            out.append((f, os.path.basename(f)[:3].upper(), 1))
    if only in (None, "seeded"):
        for d in sorted(glob.glob(os.path.join(V, "seeded/*/"))):
            m = json.load(open(os.path.join(d, "meta.json")))
            out.append((os.path.join(d, "patch.diff"), m.get("caught_by", m["property"]), m.get("expected_check_rc", 1)))
    if only in (None, "benign"):
        mp = json.load(open(os.path.join(V, "dev/benign/MAP.json")))
        for f, ids in mp.items():
            for i in ids:
                out.append((os.path.join(V, "dev/benign", f), i, 0))
    return out

def main():
    ap = argparse.ArgumentParser(); ap.add_argument("--workers", type=int, default=4); ap.add_argument("--only"); ap.add_argument("--props", default=""); a = ap.parse_args()
    q = jobs(a.only)
    if a.props:
        want = set(a.props.upper().split(","))
        q = [j for j in q if j[1] in want]
    res = []; lock = threading.Lock()
    def work(wid):
        env = dict(os.environ, VERIF_TARGET_DIR="/tmp/regress_target_%d" % wid)
        while True:
            with lock:
                if not q: return
                f, pid, want = q.pop(0)
            p = subprocess.run([os.path.join(V, "dev/mutant.sh"), f, pid], stdout=subprocess.PIPE, stderr=subprocess.STDOUT, text=True, env=env)
            ok = p.returncode == want
            with lock:
                res.append((ok, f, pid, want, p.returncode))
                print("%s %-60s %s want rc=%d got rc=%d" % ("ok  " if ok else "FAIL", os.path.relpath(f, V), pid, want, p.returncode), flush=True)
    ts = [threading.Thread(target=work, args=(i,)) for i in range(a.workers)]
    [t.start() for t in ts]; [t.join() for t in ts]
    import shutil
    for i in range(a.workers): shutil.rmtree("/tmp/regress_target_%d" % i, ignore_errors=True)
    bad = [r for r in res if not r[0]]
    print("REGRESS: %d runs, %d unexpected" % (len(res), len(bad)))
    for r in bad: print("  UNEXPECTED", os.path.relpath(r[1], V), r[2], "want", r[3], "got", r[4])
    return 1 if bad else 0

if __name__ == "__main__":
    sys.exit(main())
