#!/usr/bin/env python3
"""dev/seedcheck_all.py <round> [workers] [C01,C02,..] — run dev/seedcheck.sh for all properties x {1,2} of a seeding round in parallel."""
import os, subprocess, sys, threading
V = os.path.dirname(os.path.dirname(os.path.abspath(__file__)))
rnd = sys.argv[1]; workers = int(sys.argv[2]) if len(sys.argv) > 2 else 4
only = sys.argv[3].split(",") if len(sys.argv) > 3 else ["C%02d" % i for i in range(1, 21)]
jobs = [(p, k) for p in only for k in (1, 2)]
lock = threading.Lock()
def work(w):
    env = dict(os.environ, VERIF_TARGET_DIR="/tmp/seedcheck_target_%d_%d" % (os.getpid(), w))
    while True:
        with lock:
            if not jobs: return
            pid, k = jobs.pop(0)
        p = subprocess.run([os.path.join(V, "dev/seedcheck.sh"), pid, str(k), "quick", rnd], stdout=subprocess.PIPE, stderr=subprocess.STDOUT, text=True, env=env)
        tail = [l for l in p.stdout.splitlines() if l.strip()][-2:]
        with lock:
            print("\n".join(t[:260] for t in tail), flush=True)
ts = [threading.Thread(target=work, args=(i,)) for i in range(workers)]
[t.start() for t in ts]; [t.join() for t in ts]
import shutil
for i in range(workers): shutil.rmtree("/tmp/seedcheck_target_%d_%d" % (os.getpid(), i), ignore_errors=True)
