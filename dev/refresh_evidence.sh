#!/bin/sh
# dev/refresh_evidence.sh [tier]  — run every registered check in /verif against /repo, rewrite evidence, validate it.
cd "$(dirname "$0")/.."
TIER=${1:-quick}
fail=0
for id in $(python3 -c "import json; print(' '.join(c['property_id'] for c in json.load(open('MANIFEST.json'))['checks']))"); do
  s=$(date +%s)
  ./check $id --tier $TIER > /tmp/refresh_$id.log 2>&1; rc=$?
  echo "$id rc=$rc $(( $(date +%s) - s ))s"
  [ $rc -ne 0 ] && { fail=1; tail -5 /tmp/refresh_$id.log; }
done
python3-vt - <<'PY'
import json, jsonschema
m = json.load(open('MANIFEST.json')); s = json.load(open('/root/.vp/EVIDENCE.schema.json'))
jsonschema.validate(m, json.load(open('/root/.vp/MANIFEST.schema.json')))
for c in m['checks']:
    e = json.load(open(c['evidence_file'])); jsonschema.validate(e, s)
    assert e['level'] == c['level_claimed']['category'], (c['property_id'], e['level'])
    assert e['property_id'] == c['property_id']
print("evidence valid for", len(m['checks']), "checks")
PY
exit $fail
