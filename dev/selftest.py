#!/usr/bin/env python3
"""dev/selftest.py — demonstrates that the trace validators are bound to the recorded data (developer aid).
For C07, C03, C04, C06 and C01: record a trace from the real code, check it is accepted, corrupt ONE field of ONE
event and require that TLC rejects exactly that event (and, where the next event depends on it, nothing else)."""
import copy
import json
import os
import sys
sys.path.insert(0, os.path.join(os.path.dirname(os.path.abspath(__file__)), "..", "lib"))
import vlib

os.environ.setdefault("VERIF_EVIDENCE_DIR", "/tmp/selftest_ev")


def validate(ctx, module, events, path):
    vlib.write_ndjson(path, events)
    t = ctx.tlc(module, env={"TRACE": path}, workers=1, count=False, deque=True)
    rep = t.tagged("R")[0]
    assert rep["n"] == len(events), rep
    return [b[0] if isinstance(b, list) else b for b in rep["bad"]]


def main():
    ok = True
    ctx = vlib.Ctx("SELFTEST", "quick", 7)
    # ---- C07
    b = ctx.build("release", "mvh_text")
    p = ctx.path("t.ndjson")
    ctx.harness(b, ["record", p, "4", "60"])
    ev = vlib.read_ndjson(p)
    assert validate(ctx, "Trace_TextArchive", ev, p) == []
    k = next(i for i, e in enumerate(ev) if e["op"] == "set" and len(e["post"]["entries"]) >= 2)
    bad = copy.deepcopy(ev)
    bad[k]["post"]["entries"].reverse()          # corrupt: order of entries in one logged state
    r = validate(ctx, "Trace_TextArchive", bad, p)
    print("C07 corrupted event %d -> rejected %s" % (k + 1, r)); ok &= (k + 1) in r
    k = next(i for i, e in enumerate(ev) if e["op"] == "get" and e["res"]["some"])
    bad = copy.deepcopy(ev); bad[k]["res"]["v"] = bad[k]["res"]["v"] + [33]
    r = validate(ctx, "Trace_TextArchive", bad, p)
    print("C07 corrupted get result %d -> rejected %s" % (k + 1, r)); ok &= r == [k + 1]
    # ---- C03 / C04
    b = ctx.build("release", "mvh_bin")
    for focus in ("c03", "c04"):
        ctx.harness(b, ["sm-record", p, focus, "6", "60"])
        ev = vlib.read_ndjson(p)
        assert validate(ctx, "Trace_BinArchive", ev, p) == []
        k = next(i for i, e in enumerate(ev) if e["op"] != "reset" and e["res"].get("ok") and e["post"]["data"])
        bad = copy.deepcopy(ev); bad[k]["post"]["data"][0] ^= 1
        r = validate(ctx, "Trace_BinArchive", bad, p)
        print("%s corrupted data byte in event %d (%s) -> rejected %s" % (focus.upper(), k + 1, ev[k]["op"], r)); ok &= (k + 1) in r
        k = next((i for i, e in enumerate(ev) if e["op"].startswith("s_") and e["res"].get("ok") and e["pos"] > 0), None)
        if k is not None:
            bad = copy.deepcopy(ev); bad[k]["pos"] += 1
            r = validate(ctx, "Trace_BinArchive", bad, p)
            print("%s corrupted cursor in event %d (%s) -> rejected %s" % (focus.upper(), k + 1, ev[k]["op"], r)); ok &= r == [k + 1]
    # ---- C01
    ctx.harness(b, ["format-record", p, "12", "6"])
    ev = vlib.read_ndjson(p)
    assert validate(ctx, "Trace_BinFormat", ev, p) == []
    k = next(i for i, e in enumerate(ev) if e["op"] == "image" and e["content"]["labels"])
    bad = copy.deepcopy(ev); bad[k]["bytes"][12] ^= 1      # label count in the header
    r = validate(ctx, "Trace_BinFormat", bad, p)
    print("C01 corrupted header of image %d -> rejected %s" % (k + 1, r)); ok &= set(r) == {k + 1}   # (the structural and the canonical clause may both fire)
    # ---- C06
    b = ctx.build("release", "mvh_text")
    ctx.harness(b, ["format-record", p, "10", "5"])
    ev = vlib.read_ndjson(p)
    assert validate(ctx, "Trace_TextFormat", ev, p) == []
    k = next(i for i, e in enumerate(ev) if e["op"] == "text" and e["entries"])
    bad = copy.deepcopy(ev); bad[k]["reparsed"]["entries"][0][1] = bad[k]["reparsed"]["entries"][0][1] + [65]
    r = validate(ctx, "Trace_TextFormat", bad, p)
    print("C06 corrupted re-parsed message of archive %d -> rejected %s" % (k + 1, r)); ok &= r == [k + 1]
    print("SELFTEST", "OK" if ok else "FAILED")
    import shutil; shutil.rmtree(ctx.tmp, ignore_errors=True)
    return 0 if ok else 1


if __name__ == "__main__":
    sys.exit(main())
