#!/usr/bin/env python3
"""dev/mutagen.py — mechanical mutation analysis of the checks (developer aid, not registered).

Generates single-line mutants of /repo/src (comparison / arithmetic / constant / boolean operators), keeps those that
compile and pass the 82 pinned tests, runs the checks of the properties anchored in the mutated file against each, and
reports the survivors (mutants no check reports).  Survivors are either equivalent mutants, changes outside every
listed property, or gaps in the checks: they are triaged by hand (see DESIGN.md 11.9).

usage: dev/mutagen.py [--workers N] [--max M] [--seed S] [--files a.rs,b.rs] [--out file.json]
Everything happens in scratch worktrees under /tmp that are removed at the end; /repo is never touched."""
import argparse
import json
import os
import random
import re
import shutil
import subprocess
import sys
import threading
import time

VERIF = os.path.dirname(os.path.dirname(os.path.abspath(__file__)))
FILE_PROPS = {
    "bin_archive.rs": ["C03", "C04", "C01", "C02", "C05"],
    "bin_streams.rs": ["C04", "C03", "C17", "C18", "C16", "C06"],
    "encoded_strings.rs": ["C06", "C01", "C05", "C15"],
    "endian_aware_io.rs": ["C04", "C01"],
    "text_archive.rs": ["C07", "C06", "C05"],
    "lz10.rs": ["C08", "C10", "C11", "C12"],
    "lz13.rs": ["C09", "C10", "C11", "C08", "C12"],
    "compression_format.rs": ["C11", "C12"],
    "layered_filesystem.rs": ["C12", "C13", "C14"],
    "localization.rs": ["C14", "C12"],
    "fe9_arc.rs": ["C15", "C05"],
    "arc.rs": ["C16", "C05"],
    "aset.rs": ["C17", "C05"],
    "asset_binary.rs": ["C18", "C05"],
    "texture_decoder.rs": ["C19", "C20"],
    "etc1.rs": ["C19", "C20"],
    "pixel_encodings.rs": ["C19", "C20"],
    "texture_utils.rs": ["C19", "C20"],
    "tpl.rs": ["C20", "C19"],
    "ctpk.rs": ["C20", "C19"],
    "bch.rs": ["C20"],
    "cgfx.rs": ["C20"],
}

OPS = [
    (r" <= ", " < "), (r" < ", " <= "), (r" >= ", " > "), (r" > ", " >= "), (r" == ", " != "), (r" != ", " == "),
    (r" && ", " || "), (r" \|\| ", " && "),
    (r" \+ 1\b", " + 2"), (r" \+ 1\b", ""), (r" - 1\b", " - 2"), (r" - 1\b", ""), (r" \+ 4\b", " + 3"), (r" \+ 4\b", " + 8"),
    (r" \+ ", " - "), (r" - ", " + "), (r" \* 4\b", " * 8"), (r" \* 8\b", " * 4"), (r" % 4\b", " % 8"), (r" % 8\b", " % 4"),
    (r" >> (\d+)", lambda m: " >> %d" % (int(m.group(1)) + 1)), (r" << (\d+)", lambda m: " << %d" % (int(m.group(1)) + 1)),
    (r" >> (\d+)", lambda m: " >> %d" % max(0, int(m.group(1)) - 1)),
    (r"\btrue\b", "false"), (r"\bfalse\b", "true"),
    (r"\.min\(", ".max("), (r"\.max\(", ".min("),
    (r"\.rev\(\)", ""), (r"\.is_some\(\)", ".is_none()"), (r"\.is_none\(\)", ".is_some()"),
    (r"\b0x([0-9A-Fa-f]+)\b", lambda m: "0x%X" % (int(m.group(1), 16) + 1)),
    (r"\b0x([0-9A-Fa-f]+)\b", lambda m: "0x%X" % max(0, int(m.group(1), 16) - 1)),
    (r"(?<![\w.])([2-9]|[1-9]\d+)\b(?!\.)", lambda m: str(int(m.group(1)) + 1)),
    (r"(?<![\w.])([2-9]|[1-9]\d+)\b(?!\.)", lambda m: str(int(m.group(1)) - 1)),
    (r" & 0x([0-9A-Fa-f]+)", lambda m: " & 0x%X" % (int(m.group(1), 16) >> 1)),
]


def candidate_lines(path):
    lines = open(path).read().split("\n")
    out = []
    in_test = False
    for i, l in enumerate(lines):
        if l.strip().startswith("#[cfg(test)]"):
            in_test = True
        if in_test:
            continue
        s = l.strip()
        if not s or s.startswith("//") or s.startswith("#[") or s.startswith("use ") or s.startswith("pub use"):
            continue
        if "error(" in s or "#[br(" in s or s.startswith('"'):
            continue
        out.append(i)
    return lines, out


def gen_mutants(files, rng, limit):
    muts = []
    for f in files:
        path = os.path.join("/repo/src", f)
        lines, cand = candidate_lines(path)
        for i in cand:
            l = lines[i]
            code_end = l.find("//") if "//" in l else len(l)      # never mutate a trailing comment
            for pat, rep in OPS:
                for m in re.finditer(pat, l):
                    if m.start() >= code_end:
                        continue
                    new = l[:m.start()] + (rep(m) if callable(rep) else rep) + l[m.end():]
                    if new != l:
                        muts.append({"file": f, "line": i + 1, "old": l, "new": new})
    # de-duplicate and sample
    seen = set()
    uniq = []
    for m in muts:
        k = (m["file"], m["line"], m["new"])
        if k not in seen:
            seen.add(k)
            uniq.append(m)
    rng.shuffle(uniq)
    # stratify by file so that small files are represented
    by = {}
    for m in uniq:
        by.setdefault(m["file"], []).append(m)
    out = []
    while len(out) < limit and any(by.values()):
        for f in list(by):
            if by[f] and len(out) < limit:
                out.append(by[f].pop())
    return out, len(uniq)


def sh(cmd, cwd=None, env=None, timeout=1800):
    # own process group: on a timeout the whole tree goes (a mutant can make a test binary spin forever)
    p = subprocess.Popen(cmd, cwd=cwd, env=env, stdout=subprocess.PIPE, stderr=subprocess.STDOUT, text=True, start_new_session=True)
    try:
        out, _ = p.communicate(timeout=timeout)
    except subprocess.TimeoutExpired:
        import signal
        os.killpg(p.pid, signal.SIGKILL)
        p.communicate()
        raise
    return p.returncode, out


class Worker(threading.Thread):
    def __init__(self, wid, queue, results, lock, tier):
        super().__init__()
        self.wid, self.queue, self.results, self.lock, self.tier = wid, queue, results, lock, tier
        self.wt = "/tmp/mg_wt_%d_%d" % (os.getpid(), wid)

    def run(self):
        sh(["git", "-C", "/repo", "worktree", "add", "--detach", "-q", self.wt, "HEAD"])
        try:
            while True:
                with self.lock:
                    if not self.queue:
                        return
                    m = self.queue.pop()
                r = self.one(m)
                with self.lock:
                    self.results.append(r)
                    n = len(self.results)
                print("[%d] %s:%d  %s -> %s   => %s %s" % (n, m["file"], m["line"], m["old"].strip()[:50], m["new"].strip()[:50],
                                                           r["status"], r.get("killed_by", "")), flush=True)
        finally:
            sh(["git", "-C", "/repo", "worktree", "remove", "--force", self.wt])
            shutil.rmtree(self.wt, ignore_errors=True)

    def one(self, m):
        path = os.path.join(self.wt, "src", m["file"])
        orig = open(path).read()
        lines = orig.split("\n")
        assert lines[m["line"] - 1] == m["old"]
        lines[m["line"] - 1] = m["new"]
        open(path, "w").write("\n".join(lines))
        r = dict(m)
        try:
            rc, out = sh(["cargo", "test", "--offline", "--lib", "-q"], cwd=self.wt, timeout=900)
            if rc != 0:
                r["status"] = "build-failed" if "error[" in out or "error:" in out and "test result" not in out else "killed-by-tests"
                return r
            ev = "/tmp/mg_ev_%d_%d" % (os.getpid(), self.wid)
            env = dict(os.environ, VERIF_MILA=self.wt, VERIF_EVIDENCE_DIR=ev)
            for pid in FILE_PROPS[m["file"]]:
                t = time.time()
                rc, out = sh([os.path.join(VERIF, "check"), pid, "--tier", self.tier], cwd=VERIF, env=env, timeout=3000)
                if rc == 1:
                    r["status"] = "killed"
                    r["killed_by"] = pid
                    first = [l for l in out.splitlines() if l.startswith("  what:")]
                    r["what"] = first[0][:300] if first else ""
                    return r
                if rc == 2:
                    r.setdefault("tool_errors", []).append({"check": pid, "tail": out[-600:]})
            r["status"] = "SURVIVED"
            return r
        except subprocess.TimeoutExpired:
            r["status"] = "timeout"
            return r
        finally:
            open(path, "w").write(orig)
            shutil.rmtree("/tmp/mg_ev_%d_%d" % (os.getpid(), self.wid), ignore_errors=True)


def main():
    ap = argparse.ArgumentParser()
    ap.add_argument("--workers", type=int, default=4)
    ap.add_argument("--max", type=int, default=100)
    ap.add_argument("--seed", type=int, default=1)
    ap.add_argument("--files", default="")
    ap.add_argument("--tier", default="quick")
    ap.add_argument("--out", default="/tmp/mutagen_results.json")
    a = ap.parse_args()
    files = a.files.split(",") if a.files else sorted(FILE_PROPS)
    rng = random.Random(a.seed)
    muts, total = gen_mutants(files, rng, a.max)
    print("%d candidate mutants, running %d with %d workers" % (total, len(muts), a.workers), flush=True)
    results, lock = [], threading.Lock()
    ws = [Worker(i, muts, results, lock, a.tier) for i in range(a.workers)]
    for w in ws:
        w.start()
    for w in ws:
        w.join()
    tally = {}
    for r in results:
        tally[r["status"]] = tally.get(r["status"], 0) + 1
    print("TALLY", tally)
    json.dump({"tally": tally, "results": results}, open(a.out, "w"), indent=1)
    for r in results:
        if r["status"] == "SURVIVED":
            print("SURVIVED %s:%d  %s  ->  %s" % (r["file"], r["line"], r["old"].strip(), r["new"].strip()))


if __name__ == "__main__":
    sys.exit(main())
