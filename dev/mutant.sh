#!/bin/sh
# dev/mutant.sh <patch.diff> <ID> [tier]   (developer aid, not registered in MANIFEST)
# Applies a patch to a scratch worktree of /repo (never to /repo itself), optionally checks that the pinned
# tests still pass (MUT_TEST=1), runs ./check <ID> against that worktree and removes everything again.
# Exit code = exit code of the check (1 expected for a mutant that breaks the property).
set -u
PATCH=$(realpath "$1"); ID=$2; TIER=${3:-quick}
WT=$(mktemp -d /tmp/mut_XXXXXX)
rmdir "$WT"
git -C /repo worktree add --detach -q "$WT" HEAD || exit 2
cleanup() { git -C /repo worktree remove --force "$WT" 2>/dev/null; rm -rf "$WT"; }
trap cleanup EXIT
( cd "$WT" && git apply "$PATCH" ) || { echo "patch does not apply"; exit 2; }
if [ "${MUT_TEST:-0}" = "1" ]; then
  ( cd "$WT" && cargo test --offline 2>&1 | grep "test result" | head -1 )
fi
EVD=$(mktemp -d /tmp/mut_ev_XXXXXX)
cd "$(dirname "$0")/.." && VERIF_MILA="$WT" VERIF_EVIDENCE_DIR="$EVD" ./check "$ID" --tier "$TIER" > "$EVD/log" 2>&1
rc=$?
echo "mutant $(basename "$PATCH") on $ID: rc=$rc violations=$(grep -c '^VIOLATION' "$EVD/log")"
grep -A1 '^VIOLATION' "$EVD/log" | head -4
[ $rc -eq 2 ] && tail -5 "$EVD/log"
rm -rf "$EVD"
exit $rc
