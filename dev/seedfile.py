#!/usr/bin/env python3
"""dev/seedfile.py <round> <ordinal-word> <n-earlier> — after dev/seedcheck_all.py: copy the sub-agent's NOTES.md next to each
filed change of the round and complete meta.json (breaks, round, produced_by, needs_to_manifest, history)."""
import json, os, shutil, sys
rnd, word, nprev = sys.argv[1], sys.argv[2], sys.argv[3]
for i in range(1, 21):
    pid = "C%02d" % i
    for k in (1, 2):
        d = "/verif/seeded/%s-r%s-%d" % (pid, rnd, k)
        if not os.path.isdir(d): continue
        notes = "/tmp/seed%s_%s/_seed/NOTES.md" % (rnd, pid)
        if os.path.exists(notes): shutil.copy(notes, d + "/NOTES.md")
        m = json.load(open(d + "/meta.json"))
        m.update({"breaks": pid, "round": int(rnd),
                  "produced_by": "fresh sub-agent (%s round) given only the property text, one-line summaries of the %s earlier changes to avoid, and a scratch worktree" % (word, nprev),
                  "needs_to_manifest": "see NOTES.md, written by the sub-agent that produced the change"})
        m.setdefault("history", []).append({"when": "first run (quick)" if not m.get("history") else "re-run (quick)", "check_rc": m["check_rc"], "violations": m["check_violations"]})
        json.dump(m, open(d + "/meta.json", "w"), indent=1)
