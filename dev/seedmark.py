#!/usr/bin/env python3
"""dev/seedmark.py <TAG> <rc> <violations> <first-violation-text> — record a re-run of ./check against a filed seed after a strengthening."""
import json, sys
tag, rc, nv, first = sys.argv[1], int(sys.argv[2]), int(sys.argv[3]), sys.argv[4]
p = "/verif/seeded/%s/meta.json" % tag
m = json.load(open(p))
m["check_rc"], m["check_violations"], m["first_violation"] = rc, nv, first[:400]
m.setdefault("history", []).append({"when": "after strengthening (quick, dev/mutant.sh)", "check_rc": rc, "violations": nv})
json.dump(m, open(p, "w"), indent=1)
