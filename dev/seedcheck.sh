#!/bin/sh
# dev/seedcheck.sh <ID> <k> [tier]   verify seeded change k of /tmp/seed_<ID>/_seed and file it under /verif/seeded/<ID>-<k>/
# Steps (all in a scratch worktree, never in /repo):
#   1. patch applies; the 82 pinned tests pass with it
#   2. the demonstration test fails with the patch and passes without it
#   3. ./check <ID> against the patched tree -> rc (1 expected)
set -u
ID=$1; K=$2; TIER=${3:-quick}; ROUND=${4:-1}
if [ "$ROUND" = "1" ]; then PFX=seed; TAG=$ID-$K; else PFX=seed$ROUND; TAG=$ID-r$ROUND-$K; fi
SRC=/tmp/${PFX}_$ID/_seed
PATCH=$SRC/patch$K.diff
DEMO=$SRC/${PFX}_${ID}_$K.rs
if [ ! -f "$PATCH" ]; then      # already filed: re-verify from /verif/seeded
  PATCH=/verif/seeded/$TAG/patch.diff
  mkdir -p /tmp/sc_demo_$$ && cp /verif/seeded/$TAG/demo.rs /tmp/sc_demo_$$/${PFX}_${ID}_$K.rs
  DEMO=/tmp/sc_demo_$$/${PFX}_${ID}_$K.rs
fi
[ -f "$PATCH" ] && [ -f "$DEMO" ] || { echo "missing $PATCH or $DEMO"; exit 2; }
WT=$(mktemp -d /tmp/sc_XXXXXX); rmdir "$WT"
git -C /repo worktree add --detach -q "$WT" HEAD || exit 2
cleanup() { git -C /repo worktree remove --force "$WT" 2>/dev/null; rm -rf "$WT"; }
trap cleanup EXIT
mkdir -p "$WT/tests" && cp "$DEMO" "$WT/tests/"
[ -n "${VERIF_TARGET_DIR:-}" ] && export CARGO_TARGET_DIR="$VERIF_TARGET_DIR/wt"
NAME=${PFX}_${ID}_$K
( cd "$WT" && cargo test --offline --test $NAME 2>&1 | grep "test result" | head -1 ) > /tmp/sc_clean_$$.txt
CLEAN=$(grep -c "test result: ok" /tmp/sc_clean_$$.txt)
( cd "$WT" && git apply "$PATCH" ) || { echo "patch does not apply"; exit 2; }
( cd "$WT" && cargo test --offline --lib 2>&1 | grep "test result" | head -1 ) > /tmp/sc_suite_$$.txt
SUITE=$(grep -c "82 passed; 0 failed" /tmp/sc_suite_$$.txt)
( cd "$WT" && cargo test --offline --test $NAME 2>&1 | grep "test result" | head -1 ) > /tmp/sc_demo_$$.txt
DEMOFAIL=$(grep -c "FAILED" /tmp/sc_demo_$$.txt)
rm -rf "$WT/tests/$NAME.rs"
unset CARGO_TARGET_DIR
EVD=$(mktemp -d /tmp/sc_ev_XXXXXX)
cd "$(dirname "$0")/.." && VERIF_MILA="$WT" VERIF_EVIDENCE_DIR="$EVD" ./check "$ID" --tier "$TIER" > "$EVD/log" 2>&1
RC=$?
NV=$(grep -c '^VIOLATION' "$EVD/log")
FIRST=$(grep -A1 '^VIOLATION' "$EVD/log" | sed -n 2p | cut -c1-400)
echo "$TAG: suite_ok=$SUITE demo_passes_clean=$CLEAN demo_fails_patched=$DEMOFAIL check_rc=$RC violations=$NV"
echo "   $FIRST"
[ $RC -eq 2 ] && tail -5 "$EVD/log"
OUT=/verif/seeded/$TAG
mkdir -p "$OUT"; [ "$PATCH" = "$OUT/patch.diff" ] || { cp "$PATCH" "$OUT/patch.diff"; cp "$DEMO" "$OUT/demo.rs"; }
python3 - "$ID" "$K" "$SUITE" "$CLEAN" "$DEMOFAIL" "$RC" "$NV" "$TIER" "$FIRST" "$TAG" <<'PY'
import json,sys,os
ID,K,SUITE,CLEAN,DEMOFAIL,RC,NV,TIER,FIRST,TAG=sys.argv[1:11]
out="/verif/seeded/%s/meta.json"%TAG
old=json.load(open(out)) if os.path.exists(out) else {}
old.update({"property":ID,"seed":int(K),"suite_passes_with_patch":SUITE=="1","demo_passes_without_patch":CLEAN=="1","demo_fails_with_patch":DEMOFAIL=="1",
 "check_tier":TIER,"check_rc":int(RC),"check_violations":int(NV),"first_violation":FIRST.strip(),
 "ran":["cargo test --offline --lib (patched worktree)","cargo test --offline --test <demo> (clean and patched)","VERIF_MILA=<patched worktree> ./check %s --tier %s"%(ID,TIER)]})
json.dump(old,open(out,"w"),indent=1)
PY
rm -rf "$EVD" /tmp/sc_clean_$$.txt /tmp/sc_suite_$$.txt /tmp/sc_demo_$$.txt /tmp/sc_demo_$$
exit 0
