"""Shared driver for C01 / C02 (bin archive file format): MC_BinFormat laws, generator -> mvh_bin format-replay,
mvh_bin format-record + repository files -> Trace_BinFormat."""
import glob
import os
import vlib

CLAUSES = {1: "image not well-formed", 2: "reference parser rejects the image", 3: "reference parse of the image differs from the content",
           4: "mila's parse differs from the content / reference parser", 5: "c-string read-back differs",
           6: "image is not the canonical image", 7: "parse + re-serialize does not reproduce the canonical image",
           8: "mila failed to serialize or re-parse its own archive", 9: "harness generated content outside the domain"}
C01_CLAUSES = {1, 2, 3, 4, 5, 8}
C02_CLAUSES = {6, 7}
GOLDEN = ["ArchiveTest_Mixed1.bin", "ArchiveTest_Mixed2.bin", "ArchiveTest_OnlyText.bin", "AssetBinary_Test.bin",
          "FE14Aset_Test.bin", "TextArchive_Test.bin"]


def run(ctx, prop):
    binary = ctx.build("release", "mvh_bin")
    env = {"VERIF_TIER": ctx.tier}
    # 1. laws on the reference semantics
    r = ctx.tlc("MC_BinFormat", "MC_BinFormat.cfg", env=env, coverage=True, workers=6)
    ctx.require_coverage(r, ["ChooseSize", "Annotate", "Label"])
    # 2. spec -> impl
    g = ctx.tlc("MC_BinFormat", "Gen_BinFormat.cfg", env=env, count=False, workers=6)
    cases = g.tagged("G")
    if not cases:
        raise vlib.ToolError("generator produced no cases")
    cpath, opath = ctx.path("cases.ndjson"), ctx.path("out.ndjson")
    vlib.write_ndjson(cpath, cases)
    ctx.harness(binary, ["format-replay", cpath, opath])
    out = vlib.read_ndjson(opath)
    opath_c = ctx.path("out_checked.ndjson")
    ctx.harness(ctx.build("checked", "mvh_bin"), ["format-replay", cpath, opath_c], env={"VERIF_SEED": str(ctx.seed + 7)})
    out += [o for o in vlib.read_ndjson(opath_c) if o["kind"] == "mismatch"]
    summ = [o for o in out if o["kind"] == "summary"][0]
    unbuildable = [o for o in out if o["kind"] == "unbuildable"]
    for o in out:
        if o["kind"] == "mismatch" and o["prop"] == prop:
            sig = {"dir": "spec->impl", "what": o["what"]}
            for k in ("mixed", "has_cstr", "tie", "endian"):
                if k in o:
                    sig[k] = o[k]
            sig["why"] = o.get("why", "")[:200]
            ctx.violation(sig, o)
    nlay = sum(len(c["layouts"]) for c in cases)
    if prop == "C01":
        ctx.traces += summ["c01_checks"]
        ctx.evaluations += summ["c01_checks"]
        ctx.nontrivial += sum(1 for c in cases if c["content"]["text"] or c["content"]["ptrs"] or c["content"]["cstr"] or c["content"]["labels"])
        ctx.extra["layouts_fed_to_parser"] = nlay
    else:
        ctx.traces += summ["c02_checks"]
        ctx.evaluations += summ["c02_checks"]
        ctx.nontrivial += sum(1 for c in cases if not c["content"]["cstr"] and (c["content"]["text"] or c["content"]["labels"] or c["content"]["ptrs"]))
    mid = cases[len(cases) // 2]
    ctx.sample({"generated_case": {"content": mid["content"], "canon": mid["canon"], "n_layouts": len(mid["layouts"])}})
    # 3. impl -> spec: random larger contents + the repository's files
    n, maxcells = ctx.pick((300, 24), (3000, 64))
    tpath = ctx.path("trace.ndjson")
    ctx.harness(binary, ["format-record", tpath, str(n), str(maxcells)])
    events = vlib.read_ndjson(tpath)
    for name in GOLDEN + ["TextArchive_Legacy_Test.bin"]:
        f = os.path.join("/repo/resources/test", name)
        if os.path.exists(f):
            fp = ctx.path("file.ndjson")
            ctx.harness(binary, ["dump", f, "be" if "Legacy" in name else "le", fp])
            events += vlib.read_ndjson(fp)
    vlib.write_ndjson(tpath, events)
    t = ctx.tlc("Trace_BinFormat", env={"TRACE": tpath}, workers=1, count=False, deque=True, timeout=3000)
    rep = t.tagged("R")
    if len(rep) != 1 or rep[0]["n"] != len(events):
        raise vlib.ToolError("trace not consumed: %s" % rep)
    want = C01_CLAUSES if prop == "C01" else C02_CLAUSES
    for i, k in rep[0]["bad"]:
        ev = events[i - 1]
        if k == 9:
            raise vlib.ToolError("harness generated an archive outside the property's domain: %s" % ev.get("content"))
        c = ev.get("content", {})
        # mila cannot serialize a c-string-free archive or re-parse its own canonical image: C02 too
        # ("produces exactly the canonical image", "parsing then re-serializing any canonical file reproduces it")
        if k in want or (k == 8 and prop == "C02" and not c.get("cstr")):
            sig = {"dir": "impl->spec", "clause": CLAUSES[k], "mixed": bool(c.get("cstr")) and bool(c.get("text")),
                   "has_cstr": bool(c.get("cstr")), "endian": c.get("endian"), "file": ev.get("file", "")}
            if k == 8:
                sig["why"] = ev.get("why", "")[:200]
            ctx.violation(sig, {"index": i, "event": ev})
    # 4. images serialized after arbitrary histories (allocate / deallocate / truncate / writes / deletes): the state machine
    #    traces of C03 carry "serialize" events; TLC checks each image against the logged state (Trace_BinArchive!SerializeOK)
    hpath = ctx.path("hist.ndjson")
    ctx.harness(binary, ["sm-record", hpath, "c03", str(ctx.pick(40, 300)), str(ctx.pick(80, 150))])
    hist = vlib.read_ndjson(hpath)
    th = ctx.tlc("Trace_BinArchive", env={"TRACE": hpath}, workers=1, count=False, deque=True, timeout=3000)
    hrep = th.tagged("R")
    if len(hrep) != 1 or hrep[0]["n"] != len(hist):
        raise vlib.ToolError("history trace not consumed")
    nser = sum(1 for e in hist if e["op"] == "serialize")
    if nser < 20:
        raise vlib.ToolError("vacuous: only %d serialize events in the recorded histories" % nser)
    # structure failures belong to C01 and C02; "structurally fine but not the canonical image" to C02 only
    for i in sorted(set(hrep[0]["bad"]) | (set(hrep[0]["noncanon"]) if prop == "C02" else set())):
        ev = hist[i - 1]
        if ev["op"] == "serialize":
            ctx.violation({"dir": "impl->spec", "what": "serialize after a history", "res_ok": ev["res"].get("ok"),
                           "has_cstr": bool(ev["post"].get("cstr")), "endian": ev["post"].get("endian")},
                          {"index": i, "state": ev["post"], "image": ev["res"].get("v"), "history_tail": hist[max(0, i - 12):i - 1]})
    ctx.traces += nser
    ctx.evaluations += nser
    ctx.extra["images_after_histories"] = nser
    nfiles = sum(1 for e in events if e.get("op") == "file")
    if rep[0]["canonical_files"] < len(GOLDEN) and not ctx.viol:
        raise vlib.ToolError("only %d of the repository's golden files are canonical according to the spec (expected >= %d): "
                             "the spec's Canon does not describe the real format" % (rep[0]["canonical_files"], len(GOLDEN)))
    ctx.traces += len(events)
    ctx.evaluations += len(events)
    ctx.nontrivial += sum(1 for e in events if e.get("content", {}).get("text") or e.get("content", {}).get("labels"))
    ctx.sample({"recorded_event": {k: events[3][k] for k in ("op", "content") if k in events[3]}})
    ctx.extra.update({"recorded_contents": len(events) - nfiles, "repository_files_checked": nfiles,
                      "golden_files_canonical_per_spec": rep[0]["canonical_files"], "generated_contents": len(cases)})
    ctx.exhaustive = True
    ctx.assumptions += ["bounded enumeration: data sizes %s, <= %d cells, curated annotations/labels; larger contents random" %
                        ("{0,4,5,8}" if ctx.quick() else "{0,2,4,5,8,12}", 2 if ctx.quick() else 3),
                        "Shift-JIS codec (encoding_rs) and the harness content builder/projection are trusted"]
    if unbuildable and not ctx.viol:
        raise vlib.ToolError("%d generated contents could not be built through the API: %s" % (len(unbuildable), unbuildable[0]))


def replay(ctx, rp):
    print("replay detail:", str(rp["detail"])[:2000])
    print("re-run ./check %s --seed %d to reproduce" % (rp["property"], rp["seed"]))
