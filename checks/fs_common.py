"""Shared pipeline of the layered-filesystem checks (C12, C13 and the filesystem clause of C14).

  spec/LayeredFS.tla        the design: layers as trees, every operation as a set of allowed outcomes
  spec/MC_LayeredFS.tla     bounded model: laws (MC_LayeredFS.cfg), states + call alphabet (Gen_LayeredFS.cfg)
  spec/Trace_LayeredFS.tla  decides recorded transitions of the real LayeredFilesystem
  harness mvh_fs            materialises states as real directories, applies calls, records

Both directions end in Trace_LayeredFS: TLC is the only judge.  A property-specific module chooses which calls
are issued (profile) and which rejected events it reports (owns)."""
import concurrent.futures
import json
import os

import vlib

QUICK_CLASSES = {("FE14", "EnglishNA"), ("FE10", "Spanish"), ("FE13", "Japanese"), ("FE9", "Dutch")}   # MC_LayeredFS!ClassesQuick
BIG = []     # write events with payloads around / beyond the LZ window (TLC's "B" line, filled by generate(big=True))
TWINS = {}   # (game, lang) -> {requested raw path: twin record printed by TLC}  (filled by generate)
MUTATING = ("write", "create_dir", "write_archive", "write_text_archive")
LIST_OPS = ("list", "subdirectories")
TYPED_READS = ("read_archive", "read_text_archive", "read_fe9_arc", "read_arc", "read_tpl_textures",
               "read_bch_textures", "read_ctpk_textures", "read_cgfx_textures")


def harness_env(ctx):
    roots = ctx.path("fsroots")
    os.makedirs(roots, exist_ok=True)
    mila = os.environ.get("VERIF_MILA") or "/repo"
    # every directory tree the harness creates lives below the per-invocation temp dir (removed by ctx.finish)
    return {"TMPDIR": roots, "MVH_RESOURCES": os.path.join(mila, "resources", "test")}


def model_check(ctx, depth, laws, tier=None):
    """laws: "c12" | "c13" | "c14" - which group of laws the invariant evaluates (spec/MC_LayeredFS.tla: LawSel)"""
    r = ctx.tlc("MC_LayeredFS", "MC_LayeredFS.cfg", env={"VERIF_TIER": tier or ctx.tier, "FS_DEPTH": depth, "FS_LAWS": laws},
                coverage=True, workers=6, timeout=2400)
    ctx.require_coverage(r, ["DoWrite", "DoCreateDir"])
    return r


def generate(ctx, depth, tier=None, big=False):
    """-> (events of the call alphabet, list of states) printed by TLC"""
    env = {"VERIF_TIER": tier or ctx.tier, "FS_DEPTH": depth, "FS_GEN": "1"}
    if big:
        env["FS_BIG"] = "1"
    g = ctx.tlc("MC_LayeredFS", "Gen_LayeredFS.cfg", env=env, count=False, workers=1, timeout=2400)
    BIG[:] = g.tagged("B")[0] if big else []
    ev = g.tagged("E")
    states = g.tagged("S")
    if len(ev) != 1 or not states:
        raise vlib.ToolError("generator printed %d alphabets and %d states" % (len(ev), len(states)))
    # "W" lines: the spec's explicit-path twin of every requested path, per game x language pair
    TWINS.clear()
    for w in g.tagged("W"):
        TWINS[(w["game"], w["lang"])] = {bytes(t["raw"]): t for t in w["twins"]}
    return ev[0], states


def _q(op, comps, t, loc, glob=None):
    raw = b"/".join(bytes(c) for c in comps) + (b"/" if t and comps else b"")
    return {"op": op, "p": {"c": comps, "t": bool(t and comps)}, "raw": list(raw), "loc": loc, "data": [],
            "glob": {"some": glob is not None, "s": glob or ""}}


def observations(e, sandwich):
    """the calls that look at the target of a mutation and at the two directories above it;
    issued before and after the mutation on the same LayeredFilesystem object, and after it on a clone taken before"""
    comps = e["p"]["c"]
    obs = []
    locs = [True, False] if e["loc"] else [False]
    # C13: the parent and the grandparent directory; C12: the parent directory
    for n in range(len(comps) - 1, max(len(comps) - (3 if sandwich == "c13" else 2), -1), -1):
        d = comps[:n]
        for l2 in locs:
            if sandwich == "c13":
                for g in (None, "*"):
                    obs.append(_q("list", d, False, l2, g))
                obs.append(_q("subdirectories", d, False, l2))
            else:
                for op in ("exists", "directory_exists", "resolve"):
                    obs.append(_q(op, d, False, l2))
    if sandwich != "c13":
        for op in ("read", "file_exists", "exists", "resolve"):
            obs.append(_q(op, comps, e["p"]["t"], e["loc"]))
    return obs


def build_cases(states, events, keep, twins=False, chunk=12, readback=True, sandwich=None, mutations=None,
                sandwich_state=None, sound=False):
    """One case per state with all non-mutating calls on one materialisation, and cases of <= chunk mutating
    calls each of which starts from a fresh materialisation of the state (fresh LayeredFilesystem object).
    sandwich: every mutation is preceded and followed by the observations() of its target on the SAME object (and
    followed by them on a clone taken before it).  Case k spells its layer roots in style k mod 9 (0 = plain)."""
    cases = []
    evs = [e for e in events if keep(e) or (mutations and e["op"] in MUTATING and mutations(e))]
    expanded = []
    for e in evs:
        if e["op"] in ("write_archive", "write_text_archive"):
            # configuration of the archive x its provenance: built through the API (dirty), parsed from bytes as the
            # typed readers hand it out (clean), new with only a title (text archives)
            combos = (("le", "built"),) if sandwich == "c13" else \
                (("le", "built"), ("be", "built"), ("le", "loaded"), ("be", "titled"), ("le", "reread")) \
                if e["op"] == "write_text_archive" else (("le", "built"), ("be", "built"), ("le", "loaded"), ("le", "reread"))
            for fix, prov in combos:
                x = dict(e)
                x["fix"], x["prov"] = fix, prov
                expanded.append(x)
        else:
            expanded.append(dict(e))
    if sound:
        for e in expanded:
            if e["op"] in LIST_OPS and not e["glob"]["some"]:
                e["sound"] = True      # the harness puts the listed paths to exists() right after (ListSound)
    q = [e for e in expanded if e["op"] not in MUTATING]
    m = [e for e in expanded if e["op"] in MUTATING]
    for e in m:
        follow = []
        if readback and e["op"] != "create_dir":
            # read-after-write: the same path with the same localisation choice is read back (and looked up) on the
            # same directories right after each write
            follow = [_q(op, e["p"]["c"], e["p"]["t"], e["loc"]) for op in ("read", "file_exists", "resolve")]
            if e["op"] in ("write_archive", "write_text_archive"):     # ... and through the matching typed reader
                follow.append(_q(e["op"].replace("write_", "read_"), e["p"]["c"], e["p"]["t"], e["loc"]))
        if sandwich and (sandwich == "c13" or e["op"] == "create_dir" or e.get("data") == [1, 2, 3]
                         or (e.get("fix"), e.get("prov")) == ("le", "built")):
            obs = observations(e, sandwich)
            e["before"] = obs
            e["clone_then"] = obs
            follow = follow + obs
        if follow:
            e["then"] = follow
    for s in states:
        base = {"game": s["game"], "lang": s["lang"], "layers": s["layers"], "twins": twins}
        qs, ms = q, m
        if twins:
            # the twin path comes from the specification (TLC's "W" line for this game x language), not from mila
            table = TWINS.get((s["game"], s["lang"]))
            if table is None:
                raise vlib.ToolError("generator printed no twin table for %s/%s" % (s["game"], s["lang"]))

            def with_twin(e):
                t = table[bytes(e["raw"])]
                return dict(e, twin={"some": t["some"], "p": t["p"], "raw": t["traw"]})
            qs, ms = [with_twin(e) for e in q], [with_twin(e) for e in m]
        if qs:
            cases.append(dict(base, events=qs, fresh=False))
        if sandwich and sandwich_state and not sandwich_state(s):
            # the observe-mutate-observe sandwiches run on a subset of the states (time budget)
            ms = [] if sandwich == "c13" else [{k: v for k, v in e.items() if k not in ("before", "clone_then")} for e in ms]
            for e in ms:
                if "then" in e:
                    e["then"] = e["then"][:3]
        for k in range(0, len(ms), chunk):
            cases.append(dict(base, events=ms[k:k + chunk], fresh=True))
    # the statement does not restrict how the caller spells a layer root: plain, trailing '/', "<root>/x/../lN",
    # doubled '/', a symlink to the layer directory, relative to the working directory, layer directories with
    # non-ASCII names (harness: ROOT_STYLES)
    for k, c in enumerate(cases):
        c["roots"] = k % 9
    return cases


def _collect(ctx, results, what, out_path):
    """flatten per-case results into one event list; aborts/timeouts of the code under test become pseudo events.
    The harness writes the events of case i as one line of <out_path>.events (see mvh_fs.rs: emit)."""
    side = {}
    if os.path.exists(out_path + ".events"):
        for line in vlib.read_ndjson(out_path + ".events"):
            side[line["i"]] = line["events"]
    events = []
    unbuildable = []
    for r in results:
        if "n" in r:
            if r["i"] not in side or len(side[r["i"]]) != r["n"]:
                raise vlib.ToolError("events of case %d missing in the side file" % r["i"])
            r = {"i": r["i"], "events": side[r["i"]]}
        if "events" not in r:
            events.append({"op": "abort", "outcome": r.get("outcome"), "signal": r.get("signal"), "case": r["i"], "what": what,
                           "stderr": r.get("stderr", "")[-300:]})
            continue
        for e in r["events"]:
            if e["op"] == "unbuildable":
                unbuildable.append(e)
            else:
                events.append(e)
    return events, unbuildable


def replay(ctx, binary, cases, tag):
    cpath, opath = ctx.path("cases_%s.ndjson" % tag), ctx.path("replay_%s.ndjson" % tag)
    vlib.write_ndjson(cpath, cases)
    if os.path.exists(opath + ".events"):
        os.remove(opath + ".events")
    res = ctx.isolated(binary, ["replay", cpath, opath], len(cases), opath, per_case_timeout=60.0, env=harness_env(ctx))
    if len(res) != len(cases):
        raise vlib.ToolError("replay produced %d results for %d cases" % (len(res), len(cases)))
    ctx.log("replayed %d cases on real directories" % len(cases))
    return _collect(ctx, res, "replay", opath)


def record(ctx, binary, runs, length, profile, tag):
    opath = ctx.path("record_%s.ndjson" % tag)
    env = harness_env(ctx)
    env["MVH_PROFILE"] = profile
    if os.path.exists(opath + ".events"):
        os.remove(opath + ".events")
    res = ctx.isolated(binary, ["record", opath, str(runs), str(length)], runs, opath, per_case_timeout=120.0, env=env)
    if len(res) != runs:
        raise vlib.ToolError("record produced %d results for %d runs" % (len(res), runs))
    ctx.log("recorded %d random histories" % runs)
    ev, unb = _collect(ctx, res, "record", opath)
    return ev


def validate(ctx, events, tag, max_chunk=6000, parallel=6):
    """TLC (Trace_LayeredFS) over the recorded events, split at run boundaries and validated by up to `parallel`
    single-worker TLC processes.  -> sorted list of rejected global indices (0-based)"""
    real = [(k, e) for k, e in enumerate(events) if e["op"] != "abort"]
    chunks, cur = [], []
    for k, e in real:
        if e["op"] in ("reset", "new") and len(cur) >= max_chunk:
            chunks.append(cur)
            cur = []
        cur.append((k, e))
    if cur:
        chunks.append(cur)

    def one(ci):
        ch = chunks[ci]
        path = ctx.path("trace_%s_%d.ndjson" % (tag, ci))
        vlib.write_ndjson(path, [e for _, e in ch])
        t = ctx.tlc("Trace_LayeredFS", env={"TRACE": path}, workers=1, count=False, deque=True, xmx="3g", timeout=3000)
        rep = t.tagged("R")
        if len(rep) != 1 or rep[0]["n"] != len(ch):
            raise vlib.ToolError("trace chunk %d not consumed: %s" % (ci, rep))
        os.remove(path)
        return [ch[b - 1][0] for b in rep[0]["bad"]]

    bad = []
    with concurrent.futures.ThreadPoolExecutor(max_workers=parallel) as ex:
        for r in ex.map(one, range(len(chunks))):
            bad += r
    return sorted(bad)


def pre_state_of(events, k):
    """the logged state before event k (for the replay file)"""
    for j in range(k - 1, -1, -1):
        e = events[j]
        if e["op"] in ("reset",) or (e["op"] not in ("new", "abort") and not e.get("same", True)):
            return {"game": next(x["game"] for x in reversed(events[:k]) if x["op"] == "reset"),
                    "lang": next(x["lang"] for x in reversed(events[:k]) if x["op"] == "reset"),
                    "layers": e["post"]}
    return None


CALL_FIELDS = ("op", "p", "raw", "loc", "data", "glob", "fix", "prov")


def history_of(events, k):
    """the run up to event k: (reset event, calls issued on that filesystem object before event k)"""
    for r in range(k - 1, -1, -1):
        if events[r]["op"] == "reset":
            return events[r], [{f: e[f] for f in CALL_FIELDS if f in e} for e in events[r + 1:k] if e["op"] not in ("new", "abort")]
    return None, []


def _short(e):
    raw = bytes(e.get("raw", [])).decode("utf8", "replace")
    d = {"op": e["op"], "path": raw, "loc": e.get("loc")}
    if e.get("glob", {}).get("some"):
        d["glob"] = e["glob"]["s"]
    if e["op"] == "write":
        d["len"] = len(e.get("data", []))
    r = e.get("res", {})
    if "panic" in r:
        d["res"] = "panic " + r["panic"]
    elif r.get("ok"):
        v = r.get("v")
        if e["op"] in LIST_OPS:
            d["res"] = [bytes(x).decode("utf8", "replace") for x in v][:12]
        elif e["op"] == "resolve":
            d["res"] = {"layer": v["layer"], "rel": bytes(v["rel"]).decode("utf8", "replace")}
        elif e["op"] in ("exists", "file_exists", "directory_exists"):
            d["res"] = v
        elif e["op"] == "read":
            d["res"] = "ok %d bytes" % len(v)
        else:
            d["res"] = "ok"
    else:
        d["res"] = "err " + str(r.get("e"))
    return d


def report(ctx, events, bad, owns, direction):
    """turns rejected events into violations of the running property (owns(e) decides) - the others are only noted"""
    foreign = 0
    for k in bad:
        e = events[k]
        if not owns(e, k):
            foreign += 1
            continue
        pre = pre_state_of(events, k)
        sig = dict(_short(e), dir=direction)
        if pre:
            sig["game"], sig["lang"] = pre["game"], pre["lang"]
        elif "game" in e:
            sig["game"], sig["lang"] = e["game"], e["lang"]
        rs, hist = history_of(events, k)
        ctx.violation(sig, {"pre": pre, "event": e, "index": k,
                            "run": {"start": rs["post"], "roots": rs.get("roots"), "roots_k": rs.get("roots_k", 0),
                                    "calls_before": hist[-400:]} if rs and len(hist) <= 400 else None})
    for k, e in enumerate(events):
        if e["op"] == "abort":
            ctx.violation({"dir": direction, "op": "abort", "outcome": e["outcome"], "signal": e["signal"], "what": e["what"]},
                          {"event": e, "note": "the process died or hung inside this case; re-run with the same seed"})
    if foreign:
        ctx.log("note: %d rejected events belong to a sibling property (C12/C13) and are reported by its check" % foreign)
        ctx.extra["rejected_events_of_sibling_properties"] = ctx.extra.get("rejected_events_of_sibling_properties", 0) + foreign
    return foreign


def replay_one(ctx, rp, binary):
    """re-run one recorded violation: materialise the state its run started from (same spelling of the layer roots),
    issue the calls that preceded it on one filesystem object, then the call; TLC judges again.  (Calls that were made
    on a clone of the object are re-issued on the object itself.)"""
    d = rp["detail"]
    if "event" not in d or not (d.get("run") or d.get("pre")):
        print("no replayable state recorded:", json.dumps(rp["sig"]))
        return
    e = d["event"]
    ev = {k: e[k] for k in CALL_FIELDS if k in e}
    if d.get("run"):
        case = {"game": d["pre"]["game"], "lang": d["pre"]["lang"], "layers": d["run"]["start"],
                "events": d["run"]["calls_before"] + [ev], "fresh": False, "twins": False, "roots": d["run"]["roots_k"]}
    else:
        case = {"game": d["pre"]["game"], "lang": d["pre"]["lang"], "layers": d["pre"]["layers"], "events": [ev], "fresh": True,
                "twins": False}
    events, unb = replay(ctx, binary, [case], "one")
    if unb:
        raise vlib.ToolError("cannot re-establish the recorded state: %s" % unb[0].get("why"))
    bad = validate(ctx, events, "one")
    for k in bad:
        print("rejected again:", json.dumps(_short(events[k])))
    if bad:
        ctx.violation(rp["sig"], d)
    else:
        print("accepted now:", json.dumps(_short(events[-1])))


def nontrivial_event(e):
    """a call that mutates, is localized, or finds something (a successful non-empty answer)"""
    if e["op"] in ("reset", "new", "abort"):
        return False
    r = e.get("res", {})
    if e["op"] in MUTATING or e.get("loc"):
        return True
    if not r.get("ok"):
        return False
    v = r.get("v")
    return bool(v) if isinstance(v, (list, bool)) else True


def count_nontrivial(events):
    """number of DISTINCT non-trivial calls: distinct by (game, language, call, arguments, result) - identical calls
    with identical answers in different states are counted once"""
    seen = set()
    game = lang = None
    for e in events:
        if e["op"] == "reset":
            game, lang = e["game"], e["lang"]
        if nontrivial_event(e):
            seen.add(json.dumps([game, lang, e["op"], e.get("raw"), e.get("loc"), e.get("glob"), e.get("data"), e.get("fix"), e.get("prov"),
                                 e.get("res")], sort_keys=True))
    return len(seen)


def pick_sandwich_states(states, gi):
    """first generator run: the states of the model checker's four quick classes; second run (states one mutation
    deep): every third state"""
    if gi == 0:
        return lambda s: (s["game"], s["lang"]) in QUICK_CLASSES
    chosen = {json.dumps(s, sort_keys=True) for s in states[::3]}
    return lambda s: json.dumps(s, sort_keys=True) in chosen


def run_fs(ctx, laws, keep, owns, profile=None, twins=False, post=None, lz=False, unsupported_games=False, sandwich=None,
           mutations=None, big_payloads=False, profile_build="release", also_checked=False, second_gen=True, sound=False):
    """model check -> generate -> replay -> validate -> (record -> validate).  Returns (replayed events, recorded events)."""
    binary = ctx.build(profile_build, "mvh_fs")
    # 1. the laws on the bounded model
    if ctx.quick():
        model_check(ctx, "1", laws)
        gens = [("0", None)]
    else:
        model_check(ctx, "1", laws)                  # all 40 game x language pairs, one mutation deep
        model_check(ctx, "2", laws, tier="quick")    # 4 representative pairs, two mutations deep
        gens = [("0", None), ("1", "quick")] if second_gen else [("0", None)]
    # 2. spec -> impl
    all_events, n_states, unb_all = [], 0, []
    for gi, (depth, tier) in enumerate(gens):
        alphabet, states = generate(ctx, depth, tier, big=big_payloads and gi == 0)
        if gi > 0:
            # second generator run: only the states one mutation away from the initial configurations (the initial
            # ones were covered by the first run), every other one to stay inside the time budget
            deeper = sorted((s for s in states if s["depth"] > 0), key=lambda s: json.dumps(s, sort_keys=True))
            states = deeper[::2]
        n_states += len(states)
        cases = build_cases(states, alphabet, keep, twins=twins, readback=not twins, sandwich=sandwich, mutations=mutations,
                            sandwich_state=pick_sandwich_states(states, gi), sound=sound)
        if big_payloads and gi == 0:
            # payloads across the 4096-byte window, written into the empty single-layer configuration of one pair per
            # game and read back on the same object
            empties = {}
            for st in states:
                if st["layers"] == [[]] and st["depth"] == 0:
                    empties.setdefault(st["game"], st)
            for st in empties.values():
                for e in BIG:
                    e = dict(e)
                    e["then"] = [_q("read", e["p"]["c"], e["p"]["t"], e["loc"])]
                    cases.append({"game": st["game"], "lang": st["lang"], "layers": st["layers"], "events": [e], "fresh": True,
                                  "twins": False, "roots": 0})
        if unsupported_games and gi == 0:
            # LayeredFilesystem::new on the games the statement does not list: an "unsupported" error (op "new")
            for g in ("FE11", "FE12"):
                for lang in sorted({s["lang"] for s in states}):
                    cases.append({"game": g, "lang": lang, "layers": [[]], "events": [], "fresh": False, "twins": False})
        builds = [("release" if profile_build == "release" else profile_build, binary)]
        if also_checked and gi == 0:
            # the same calls against the build with overflow checks and debug assertions
            builds.append(("checked", ctx.build("checked", "mvh_fs")))
        for bname, b in builds:
            tag = "gen%d%s" % (gi, "" if b is binary else "c")
            direction = "spec->impl" if b is binary else "spec->impl (%s build)" % bname
            events, unb = replay(ctx, b, cases, tag)
            unb_all += unb
            bad = validate(ctx, events, tag)
            if post:
                post(events, bad, direction)
            else:
                report(ctx, events, bad, owns, direction)
            if lz:
                validate_streams_with_lz_spec(ctx, events, tag)
            all_events += events
    n_calls = sum(1 for e in all_events if e["op"] not in ("reset", "new", "abort"))
    ctx.traces += n_calls
    ctx.evaluations += len(all_events)
    ctx.nontrivial += count_nontrivial(all_events)
    ctx.extra["generated_states"] = n_states
    ctx.extra["replayed_calls"] = n_calls
    # 3. impl -> spec
    rec = []
    if profile:
        runs, length = ctx.pick((48, 100), (450, 100))
        rec = record(ctx, binary, runs, length, profile, "rec")
        bad = validate(ctx, rec, "rec")
        report(ctx, rec, bad, owns, "impl->spec")
        if lz:
            validate_streams_with_lz_spec(ctx, rec, "rec")
        n_rec = sum(1 for e in rec if e["op"] not in ("reset", "new", "abort"))
        ctx.traces += n_rec
        ctx.evaluations += len(rec)
        ctx.nontrivial += count_nontrivial(rec)
        ctx.extra["recorded_runs"] = runs
        ctx.extra["recorded_calls"] = n_rec
    ctx.exhaustive = True
    if unb_all and not ctx.viol:
        raise vlib.ToolError("%d generated states could not be established on disk: %s" % (len(unb_all), unb_all[0].get("why")))
    return all_events, rec


COMMON_ASSUMPTIONS = [
    "the OS filesystem behaves as a plain tree (no symlinks, permissions, case folding, concurrent modification); layer roots "
    "are fresh directories with plain alphanumeric names",
    "expansion of stored bytes is an observed environment function (mila's own LZ10/LZ13 decompressors, whose correctness is "
    "C11's subject); C12 additionally lets the decoder state machine of spec/LZ.tla judge the streams written to disk "
    "when that module is available (see lz_spec_stream_validation)",
    "the harness' materialiser, directory walker and result projections are trusted; error kinds are compared as classes "
    "{notfound, loc, io, codec}",
]


def stored_streams(events):
    """records {game, p, data, stored} for every successful byte-level write that changed the top layer:
    the file node of the top layer that is new or different afterwards"""
    out = []
    game = None
    cur = None
    for k, e in enumerate(events):
        if e["op"] == "reset":
            game, cur = e["game"], e["post"]
            continue
        if e["op"] in ("new", "abort"):
            continue
        if not e.get("same", True):
            if e["op"] == "write" and e["res"].get("ok") and cur is not None:
                before = {json.dumps(n["p"]): n for n in cur[-1]}
                changed = [n for n in e["post"][-1] if n["k"] == "file" and before.get(json.dumps(n["p"])) != n]
                if len(changed) == 1:
                    out.append({"game": game, "p": e["p"], "data": e["data"], "stored": changed[0]["b"], "index": k})
            cur = e["post"]
    return out


def validate_streams_with_lz_spec(ctx, events, tag):
    """Optional: lets the decoder state machine of spec/LZ.tla (a sibling's module) judge the streams left on disk.
    If that module is missing or does not load, this is skipped and noted as a residual (never a failure of this check)."""
    recs = stored_streams(events)
    if not recs or not os.path.exists(os.path.join(vlib.SPEC, "LZ.tla")):
        ctx.extra.setdefault("lz_spec_stream_validation", "skipped (spec/LZ.tla not available)" if recs else "no streams")
        return
    path = ctx.path("streams_%s.ndjson" % tag)
    vlib.write_ndjson(path, [{k: r[k] for k in ("game", "p", "data", "stored")} for r in recs])
    try:
        t = ctx.tlc("Trace_LayeredFSLZ", env={"TRACE": path}, workers=1, count=False, deque=True, xmx="3g", timeout=1200)
        rep = t.tagged("R")
        if len(rep) != 1 or rep[0]["n"] != len(recs):
            raise vlib.ToolError("not consumed")
    except vlib.ToolError as ex:
        ctx.log("note: spec/LZ.tla could not be used to validate on-disk streams (%s) - residual" % ex)
        ctx.extra["lz_spec_stream_validation"] = "unavailable: %s" % ex
        return
    for b in rep[0]["bad"]:
        r = recs[b - 1]
        e = events[r["index"]]
        ctx.violation(dict(_short(e), dir="on-disk stream rejected by the LZ.tla decoder", game=r["game"]),
                      {"pre": pre_state_of(events, r["index"]), "event": e, "stored": r["stored"]})
    prev = ctx.extra.get("lz_spec_streams_checked", 0)
    ctx.extra["lz_spec_streams_checked"] = prev + rep[0]["checked"]
    ctx.extra["lz_spec_stream_validation"] = "on-disk streams of compressed-suffix writes accepted by LZ.tla's decoder"
