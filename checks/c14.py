"""C14 - path localisation inserts the game's language marker and nothing else; every filesystem operation applies
the same mapping.
spec/Localize.tla (marker table, split rule, set of allowed results), MC_Localize (laws on all triples),
Gen_Localize -> the real PathLocalizer::localize string-for-string; filesystem clause: MC_LayeredFS (TwinLaws),
Gen_LayeredFS localized calls + their explicit-path twins on real directories -> Trace_LayeredFS."""
import fs_common as fsc
import vlib

LEVEL = "model_checking"


def run(ctx):
    ctx.rule = ("all 6 localizers x 8 languages x relative paths of plain components (depth 1-4, with/without trailing '/', "
                "names with spaces, dots, marker look-alikes, non-ASCII, a lone space) + the paths without a final component \"\", \"/\", "
                "\"//\", \".\", \"./\", \"/.\", \"..\", \"../\", \"/..\", \"m/..\", \"m/../\": laws checked by TLC on every triple, every triple replayed against "
                "PathLocalizer::localize in BOTH harness builds (release; checked = overflow checks + debug assertions) and "
                "compared string-for-string with the allowed set (a panic is an outcome). "
                "Filesystem clause (both builds): every localized call of the model alphabet - incl. every operation on the "
                "final-less paths - on every generated state, and the same call "
                "with localized=false on the path the specification maps it to (twin, printed by TLC), both decided by TLC; a "
                "localized call the spec rejects while accepting its twin (or that has no twin) is a violation. "
                "Non-trivial = a triple whose result must contain a marker or must be an error; a localized filesystem call.")
    binary = ctx.build("release", "mvh_fs")
    checked = ctx.build("checked", "mvh_fs")       # overflow checks + debug assertions: "never panics" is about both
    env = {"VERIF_TIER": ctx.tier}
    # 1. laws of the reference definition on every triple
    r = ctx.tlc("MC_Localize", "MC_Localize.cfg", env=env, workers=1)
    n = r.tagged("N")
    if len(n) != 1:
        raise vlib.ToolError("MC_Localize did not report its scope")
    ctx.evaluations += n[0]["triples"]
    ctx.extra["localize_triples"] = n[0]["triples"]
    ctx.extra["localize_paths"] = n[0]["paths"]
    # 2. spec -> impl, string for string
    g = ctx.tlc("MC_Localize", "Gen_Localize.cfg", env=env, workers=1, count=False)
    cases = g.tagged("G")
    if len(cases) != n[0]["triples"]:
        raise vlib.ToolError("generator printed %d cases for %d triples" % (len(cases), n[0]["triples"]))
    cpath = ctx.path("loc_cases.ndjson")
    vlib.write_ndjson(cpath, cases)
    for bname, b in (("release", binary), ("checked", checked)):
        opath = ctx.path("loc_out_%s.ndjson" % bname)
        ctx.harness(b, ["localize", cpath, opath])
        out = vlib.read_ndjson(opath)
        summ = [o for o in out if o["kind"] == "summary"][0]
        if summ["cases"] != len(cases):
            raise vlib.ToolError("localize replay incomplete")
        for o in out:
            if o["kind"] == "mismatch":
                c = o["case"]
                got = o["got"]
                ctx.violation({"dir": "spec->impl", "build": bname, "op": "localize", "loc": c["loc"], "lang": c["lang"],
                               "path": o["path"],
                               "got": ("panic " + got["panic"]) if "panic" in got else (o["got_str"] if got["ok"] else "Err"),
                               "allowed": [bytes(a["s"]).decode("utf8", "replace") if a["ok"] else "Err" for a in c["allowed"]]},
                              {"case": c, "got": got, "build": bname})
        ctx.traces += len(cases)
    ctx.nontrivial += sum(1 for c in cases if c["kind"] in ("dir", "prefix", "unsupported") or not c["plain"])
    mid = next((c for c in cases if c["kind"] == "dir" and c["depth"] == 2 and not c["t"] and c["loc"] == "FE15"), cases[len(cases) // 2])
    ctx.sample({"localize": {"loc": mid["loc"], "lang": mid["lang"], "path": bytes(mid["raw"]).decode("utf8", "replace"),
                             "allowed": [bytes(a["s"]).decode("utf8", "replace") if a["ok"] else "Err" for a in mid["allowed"]]}})
    # 3. the filesystem clause
    stats = {"localized": 0, "twins": 0}

    def post(events, bad, direction):
        badset = set(bad)
        for k, e in enumerate(events):
            if e["op"] in ("reset", "new", "abort") or e.get("is_twin") or not e.get("loc"):
                continue
            stats["localized"] += 1
            j = k + 1
            while j < len(events) and events[j]["op"] == "reset":
                j += 1
            twin = j if j < len(events) and events[j].get("is_twin") else None
            if twin is not None:
                stats["twins"] += 1
            if k in badset and (twin is None or twin not in badset):
                pre = fsc.pre_state_of(events, k)
                sig = dict(fsc._short(e), dir=direction, game=pre["game"] if pre else None, lang=pre["lang"] if pre else None)
                if twin is not None:
                    sig["twin"] = fsc._short(events[twin])
                ctx.violation(sig, {"pre": pre, "event": e, "index": k, "twin": events[twin] if twin is not None else None})
        foreign = sum(1 for k in bad if not (events[k].get("loc") and not events[k].get("is_twin")))
        if foreign:
            ctx.log("note: %d rejected explicit-path calls are reported by C12/C13" % foreign)
        for e in events:
            if e["op"] == "abort":
                ctx.violation({"dir": direction, "op": "abort", "outcome": e["outcome"], "signal": e["signal"]}, {"event": e})

    ev, _ = fsc.run_fs(ctx, "c14", lambda e: e["loc"] and e["op"] not in fsc.TYPED_READS and not e["op"].startswith("write_"),
                       None, profile=None, twins=True, post=post, also_checked=True,
                       second_gen=False)     # deeper states are C12/C13's; here: all 40 pairs x both builds
    ctx.extra["localized_fs_calls"] = stats["localized"]
    ctx.extra["explicit_path_twins"] = stats["twins"]
    for e in ev:
        if e.get("loc") and e["op"] == "write" and e["res"].get("ok"):
            ctx.sample({"localized_call": fsc._short(e)})
            break
    ctx.assumptions += ["paths outside the statement's scope (absolute, '.'/'..' inside, doubled '/') are not generated",
                        "where the statement is silent (trailing '/' of results that denote a directory, survival of an "
                        "input's trailing '/') every variant is allowed",
                        "the explicit-path twin of a localized filesystem call is computed by the specification (Localize with "
                        "the localizer Cfg(game) prescribes and the filesystem's language, canonical spelling; TLC's W lines)"] + fsc.COMMON_ASSUMPTIONS


def replay(ctx, rp):
    binary = ctx.build("release", "mvh_fs")
    d = rp["detail"]
    if "case" in d:
        binary = ctx.build(d.get("build", "release"), "mvh_fs")
        cpath, opath = ctx.path("c.ndjson"), ctx.path("o.ndjson")
        vlib.write_ndjson(cpath, [d["case"]])
        ctx.harness(binary, ["localize", cpath, opath])
        for o in vlib.read_ndjson(opath):
            print(o)
            if o["kind"] == "mismatch":
                ctx.violation(rp["sig"], d)
    else:
        fsc.replay_one(ctx, rp, binary)
