"""C02 — bin archive serialization is canonical, deterministic and byte-stable (spec/BinFormat.tla Canon)."""
import binfmt_common

LEVEL = "model_checking"


def run(ctx):
    ctx.rule = ("Every enumerated content without c-strings is built several times through the API in different call orders on fresh "
                "instances; all images must be identical, equal to the TLA+ canonical image (byte-exact for little-endian, and for "
                "big-endian when first label names are distinct ASCII), and parse+re-serialize must reproduce it. Random contents and the "
                "repository's golden files are compared with Canon by TLC. Non-trivial = content with at least one annotation.")
    binfmt_common.run(ctx, "C02")


replay = binfmt_common.replay
