"""C19 — pixel decoding matches the hardware formats.
spec/Pixel.tla + Etc1.tla (format rules), MC_Pixel / MC_Etc1 (laws, exhaustive), Gen_Pixel / Gen_Etc1 -> replay,
record -> Trace_Pixel; both arithmetic profiles, whose outputs must be identical."""
import vlib
import tex_common as tc

LEVEL = "model_checking"

FMT = {0: "RGBA8", 2: "RGBA5551", 3: "RGB565", 4: "RGBA4", 5: "LA8", 7: "L8", 8: "A8", 12: "ETC1", 13: "ETC1A4",
       100: "CI8", 101: "RGB5A3"}


def _replay(ctx, bins, cases, profiles):
    """spec -> impl: every generated case (input + lowest/highest allowed bytes) against mila."""
    cpath = ctx.path("cases.ndjson")
    vlib.write_ndjson(cpath, cases)
    summ = None
    for prof in profiles:
        opath = ctx.path("replay_%s.ndjson" % prof)
        ctx.harness(bins[prof], ["replay", cpath, opath])
        for o in vlib.read_ndjson(opath):
            if o["kind"] == "summary":
                summ = o
                continue
            c = cases[o["case"]]
            ctx.violation({"dir": "spec->impl", "profile": prof, "via": o["via"], "fmt": FMT.get(o["fmt"], o["fmt"]),
                           "w": o["w"], "h": o["h"], "x": o["x"], "y": o["y"], "channel": o["channel"], "got": o["got"],
                           "lo": o["lo"], "hi": o["hi"], "err": o["err"]},
                          {"case": c, "profile": prof, "mismatch": o})
    return summ


def run(ctx):
    ctx.rule = ("MC: tile order / block order / palette block order are bijections for every size, tolerance sets, the "
                "field map and modifier codes of the ETC1 word, exhaustively. spec->impl: TLC-generated payloads with "
                "the lowest/highest allowed output bytes (plain formats 8x8..32x8, RGB5A3 values, palette images, ETC1: "
                "both modes x flips x 64 table pairs x 4 selector rotations, per channel all 256 individual pairs and "
                "all 240 in-range (base, delta); thorough: black/white bases x all tables) replayed through ctpk::read, mila::decode, ColorFormat::decode and "
                "Tpl::extract_textures. impl->spec: position / byte-lane / all-65536-values / seeded random payloads for "
                "every format and size decoded by mila and every texel checked by TLC. Both arithmetic profiles, outputs "
                "compared. Non-trivial = decoding whose payload has at least two distinct byte values.")
    bins = tc.both_profiles(ctx)
    # 1. laws of the reference semantics (a failure is a spec defect -> tool error)
    tc.laws(ctx, "MC_Pixel", 280)
    tc.laws(ctx, "MC_Etc1", 8)
    # 2. spec -> impl
    g1 = tc.generate(ctx, "MC_Pixel", "Gen_Pixel.cfg", workers=2)
    g2 = tc.generate(ctx, "MC_Etc1", "Gen_Etc1.cfg")
    templates = g1.tagged("T")
    cases = g1.tagged("G") + g2.tagged("G")
    if len(templates) < 100 or len(cases) < 60:
        raise vlib.ToolError("generator produced %d templates, %d cases" % (len(templates), len(cases)))
    summ = _replay(ctx, bins, cases, ["release", "checked"])
    ctx.traces += 2 * summ["calls"]
    ctx.evaluations += 2 * summ["bytes"]
    ctx.nontrivial += len(cases)
    ctx.sample({"replayed_case": tc.slim(cases[3])})
    ctx.extra["replayed_calls_per_profile"] = summ["calls"]
    ctx.extra["replayed_output_bytes_per_profile"] = summ["bytes"]
    # 3. impl -> spec
    tpath = ctx.path("templates.ndjson")
    vlib.write_ndjson(tpath, templates)
    traces = {}
    for prof in ("release", "checked"):
        traces[prof] = ctx.path("trace_%s.ndjson" % prof)
        ctx.harness(bins[prof], ["record", tpath, traces[prof]])
    events = vlib.read_ndjson(traces["release"])
    with open(traces["release"], "rb") as a, open(traces["checked"], "rb") as b:
        same = a.read() == b.read()
    if not same:
        ev_c = vlib.read_ndjson(traces["checked"])
        for k in range(max(len(events), len(ev_c))):
            ea = events[k] if k < len(events) else None
            eb = ev_c[k] if k < len(ev_c) else None
            if ea != eb:
                e = eb or ea
                at = tc.first_diff(ea["pixels"], eb["pixels"]) if ea and eb else None
                ctx.violation({"dir": "profiles-differ", "kind": e["kind"], "api": e["api"], "gen": e["gen"],
                               "fmt": FMT.get(e["fmt"], e["fmt"]), "w": e["w"], "h": e["h"], "first_diff": at,
                               "release": (ea or {}).get("err", "missing"), "checked": (eb or {}).get("err", "missing")},
                              {"index": k + 1, "release": ea, "checked": eb})
    t = ctx.tlc("Trace_Pixel", env={"TRACE": traces["release"]}, workers=tc.TLC_WORKERS, count=False)
    rep = {r["i"]: r for r in t.tagged("E")}
    if sorted(rep) != list(range(1, len(events) + 1)):
        raise vlib.ToolError("trace not consumed: %d verdicts for %d events" % (len(rep), len(events)))
    open_blocks = 0
    for i in sorted(rep):
        r, ev = rep[i], events[i - 1]
        open_blocks += r["open"]
        if not r["ok"]:
            ctx.violation({"dir": "impl->spec", "kind": ev["kind"], "api": ev["api"], "gen": ev["gen"],
                           "fmt": FMT.get(ev["fmt"], ev["fmt"]), "w": ev["w"], "h": ev["h"], "err": ev["err"],
                           "bad_texels_first_xy_rgba": r["why"]},
                          {"index": i, "event": ev})
    texels = sum(len(e["pixels"]) // 4 for e in events)
    ctx.traces += len(events)
    ctx.evaluations += texels
    ctx.nontrivial += sum(1 for e in events if len(set(e["payload"])) > 1)
    ctx.sample({"recorded_event": tc.slim(events[1])})
    kinds = {}
    for e in events:
        key = "%s/%s/%s" % (FMT.get(e["fmt"], e["fmt"]), e["api"], e["gen"])
        kinds[key] = kinds.get(key, 0) + 1
    ctx.extra["recorded_events"] = len(events)
    ctx.extra["recorded_texels_checked_by_tlc"] = texels
    ctx.extra["recorded_events_by_format_api_generator"] = kinds
    ctx.extra["profiles_identical"] = same
    ctx.extra["etc_blocks_outside_the_rules_in_random_payloads"] = open_blocks
    by_dir = {}
    for sg in ctx.viol:
        by_dir[sg.get("dir")] = by_dir.get(sg.get("dir"), 0) + 1
    ctx.extra["violations_by_direction"] = by_dir
    if open_blocks:
        raise vlib.ToolError("recorder produced %d ETC blocks outside the ETC1 rules" % open_blocks)
    ctx.exhaustive = True
    ctx.assumptions += [
        "the format rules in Pixel.tla / Etc1.tla are hand-transcribed from the public descriptions: an error common to "
        "specification and code would go unseen",
        "tolerance is the statement's inclusive quantisation step: a 1-bit alpha (RGBA5551) is unconstrained; 8-bit channels may be off by one",
        "RGB8, HILO8, LA4, L4, A4 are not in the statement and are not exercised",
        "the private 3DS decoder is reached through single-texture canonical CTPK images (TexContainers!CtpkCanon); CI8 through a single-image TPL",
        "recorded payloads: position payloads for all 25 power-of-two pairs 8..128, %s; palette image sides: %s" % (
            ("random / byte-lane payloads for 9 of the pairs" if ctx.quick() else "5 random payloads for each pair"),
            ("13 of the 22 listed sides" if ctx.quick() else "1..16, 17, 31, 32, 33, 63, 64")),
        "all 65536 values of each 16-bit format as four 128x128 textures (not one 256x256)",
    ]


def replay(ctx, rp):
    d = rp["detail"]
    if "case" in d:
        bins = {d["profile"]: ctx.build(d["profile"], "mvh_tex")}
        _replay(ctx, bins, [d["case"]], [d["profile"]])
    else:
        ev = d.get("event") or d.get("checked") or d.get("release")
        path = ctx.path("one.ndjson")
        vlib.write_ndjson(path, [ev])
        t = ctx.tlc("Trace_Pixel", env={"TRACE": path}, workers=1, count=False)
        for r in t.tagged("E"):
            print(r)
            if not r["ok"]:
                ctx.violation(rp["sig"], d)
        print("recorded event re-validated by TLC (re-run ./check C19 with the same seed to record it again)")
