"""C05 — archive-family parsers are total on arbitrary bytes (spec/Parsers.tla: legal outcomes, must-reject predicates,
boundary mutations; observation in an isolated worker under both arithmetic profiles)."""
import json
import os
import vlib

LEVEL = "exploration"
CLAUSES = {1: "panicked / aborted / did not terminate", 2: "requested a buffer larger than 512*len+64KiB",
           3: "accepted input cannot be re-serialized without panicking", 4: "declares more than the buffer holds, yet accepted"}
SAMPLES = [("ArchiveTest_Mixed2.bin", "bin_le"), ("ArchiveTest_OnlyText.bin", "bin_le"), ("AssetBinary_Test.bin", "bin_le"),
           ("TextArchive_Test.bin", "bin_le"), ("TextArchive_Legacy_Test.bin", "bin_be"), ("ArcTest.arc", "arc"),
           ("FE9Arc.bin", "pack"), ("FE14Aset_Test.bin", "bin_le")]
EXPECT_OK = {"pack-3": "pack", "pack-4100": "pack", "pack-empty": "pack", "arc-padded": "arc", "arc-unpadded": "arc", "aset-small": "aset", "asset-small": "asset",
             "text-uni-le": "text_uni_le", "text-uni-be": "text_uni_be", "text-sjis-le": "text_sjis_le", "text-sjis-be": "text_sjis_be",
             "bin-mixed-le": "bin_le", "bin-mixed-be": "bin_be", "ArcTest.arc": "arc", "FE9Arc.bin": "pack", "FE14Aset_Test.bin": "aset",
             "AssetBinary_Test.bin": "asset", "TextArchive_Test.bin": "text_uni_le", "TextArchive_Legacy_Test.bin": "text_sjis_be"}


for _k, _v in (("text-uni-le", "text_uni_le"), ("text-uni-be", "text_uni_be"), ("text-sjis-le", "text_sjis_le"), ("text-sjis-be", "text_sjis_be")):
    for _n in (0, 1, 3, 4, 7):
        EXPECT_OK["%s-only-title%d" % (_k, _n)] = _v


def run(ctx):
    ctx.rule = ("Base images (conforming files of every family written by mila's serializers + the repository's samples) x single-field "
                "boundary mutations enumerated by TLC for every header/table field (0, 1, exact+-1, len, 2^16, 2^30.., 2^31, 2^32-1 ...) x all "
                "truncation lengths, plus seeded random buffers and random mutations; every input is run through all 10 entry points in a "
                "supervised worker under the wrapping and the overflow-checked build; TLC decides each outcome (ok/err only, allocation bound, "
                "must-reject, re-serialization). Distinct non-trivial = distinct inputs that are not an unmodified base.")
    rel = ctx.build("release", "mvh_parsers")
    chk = ctx.build("checked", "mvh_parsers")
    # base images
    bpath = ctx.path("bases.ndjson")
    ctx.harness(rel, ["bases", bpath])
    bases = vlib.read_ndjson(bpath)
    for name, fam in SAMPLES:
        if ctx.quick() and name == "FE14Aset_Test.bin":
            continue
        with open(os.path.join("/repo/resources/test", name), "rb") as f:
            bases.append({"name": name, "family": fam, "bytes": list(f.read())})
    vlib.write_ndjson(bpath, bases)
    # boundary mutations and truncations from the specification
    g = ctx.tlc("Gen_Parsers", env={"BASES": bpath, "VERIF_TIER": ctx.tier}, workers=6, timeout=1500)
    recipes = g.tagged("G")
    if len(recipes) != len(bases):
        raise vlib.ToolError("generator covered %d of %d bases" % (len(recipes), len(bases)))
    inputs = []
    for rcp in recipes:
        b = bases[rcp["base"] - 1]
        inputs.append({"id": "base:%s" % b["name"], "bytes": b["bytes"]})
        for k, m in enumerate(rcp["muts"]):
            x = list(b["bytes"])
            x[m["off"]:m["off"] + len(m["bytes"])] = m["bytes"]
            inputs.append({"id": "mut:%s@%d=%s" % (b["name"], m["off"], "".join("%02x" % v for v in m["bytes"])), "bytes": x})
        for t in rcp["truncs"]:
            inputs.append({"id": "trunc:%s@%d" % (b["name"], t), "bytes": b["bytes"][:t]})
        for c in rcp["cuts"]:
            inputs.append({"id": "datacut:%s-%d" % (b["name"], len(b["bytes"]) - len(c)), "bytes": c})
    nmut = len(inputs)
    rpath = ctx.path("random.ndjson")
    ctx.harness(rel, ["random", bpath, rpath, str(ctx.pick(3000, 60000))])
    inputs += vlib.read_ndjson(rpath)
    ipath = ctx.path("inputs.ndjson")
    vlib.write_ndjson(ipath, inputs)
    ctx.log("%d inputs (%d from TLC recipes, %d random)" % (len(inputs), nmut, len(inputs) - nmut))
    distinct = len({bytes(i["bytes"]) for i in inputs})
    for prof, binary in (("release", rel), ("checked", chk)):
        opath = ctx.path("out_%s.ndjson" % prof)
        res = ctx.isolated(binary, ["run", ipath, opath], len(inputs), opath, per_case_timeout=ctx.pick(10, 60), max_dead=40)
        if len(res) != len(inputs) and not ctx.extra.get("cases_not_run"):
            raise vlib.ToolError("worker returned %d results for %d inputs" % (len(res), len(inputs)))
        # (after 40 dead / hung cases the run stops: the results then cover a prefix of the inputs, all of them violations already)
        events = []
        for inp, r in zip(inputs, res):
            if "out" in r:
                # a large input that every entry point refused: only its length matters to the specification's clauses
                if len(inp["bytes"]) > 4096 and all(o.get("outcome") == "err" for o in r["out"].values()):
                    events.append({"id": inp["id"], "bytes": [], "len": len(inp["bytes"]), "out": r["out"]})
                else:
                    events.append({"id": inp["id"], "bytes": inp["bytes"], "out": r["out"]})
            else:  # the worker process died or hung on this input: every entry point is charged with it
                o = {"outcome": r["outcome"], "max_alloc": 0, "reser": "none", "ms": 0}
                events.append({"id": inp["id"], "bytes": inp["bytes"], "out": {"process": o, "bin_le": o}, "died": r})
        # sanity: the bases are accepted by the entry point they were written for
        for ev in events:
            if ev["id"].startswith("base:"):
                want = EXPECT_OK.get(ev["id"][5:])
                if want and ev["out"].get(want, {}).get("outcome") != "ok" and not ctx.viol:
                    ctx.log("note: base %s not accepted by %s: %s" % (ev["id"], want, ev["out"].get(want)))
        tpath = ctx.path("trace_%s.ndjson" % prof)
        vlib.write_ndjson(tpath, events)
        t = ctx.tlc("Trace_Parsers", env={"TRACE": tpath}, workers=1, deque=True, timeout=3000, count=(prof == "release"))
        rep = t.tagged("R")
        if len(rep) != 1 or rep[0]["n"] != len(events):
            raise vlib.ToolError("trace not consumed")
        if rep[0]["must_reject"] < 50:
            raise vlib.ToolError("vacuous: only %d must-reject (input, entry) pairs" % rep[0]["must_reject"])
        seen = set()
        for i, entry, k in rep[0]["bad"]:
            ev = events[i - 1]
            o = ev["out"][entry]
            what = o["outcome"].split(" [")[0] if k == 1 else (o["reser"].split(" [")[0] if k == 3 else "")
            sig = {"entry": entry, "clause": CLAUSES[k], "what": what, "profile": prof}
            key = json.dumps(sig, sort_keys=True)
            # one replay file per distinct (entry, clause, location, profile); all are counted
            if key in seen:
                ctx.viol.append(sig) if not any(all(sig.get(a) == b for a, b in kf["match"].items()) for kf in ctx.known) else None
                continue
            seen.add(key)
            ctx.violation(sig, {"id": ev["id"], "bytes": inputs[i - 1]["bytes"], "entry": entry, "observed": o, "profile": prof})
        ctx.extra["must_reject_pairs_%s" % prof] = rep[0]["must_reject"]
        ctx.traces += len(events)
    ctx.evaluations += len(inputs) * 10 * 2
    ctx.nontrivial += distinct - len(bases)
    ctx.sample({"input": inputs[len(bases) + 5]["id"], "len": len(inputs[len(bases) + 5]["bytes"])})
    ctx.sample({"input": inputs[-1]["id"], "bytes": inputs[-1]["bytes"][:64]})
    ctx.extra.update({"inputs": len(inputs), "distinct_inputs": distinct, "bases": [b["name"] for b in bases],
                      "entry_points": 10, "profiles": ["release", "checked"]})
    ctx.assumptions += ["panic/abort/overflow/hang/over-allocation freedom is OBSERVED on the generated inputs, not proved; the TLA+ spec "
                        "supplies legality of outcomes, must-reject predicates and the boundary-value inputs",
                        "allocation bound 512*len+64KiB on the largest single request (tracking allocator in the harness; requests > 1 GiB are refused)"]


def replay(ctx, rp):
    d = rp["detail"]
    binary = ctx.build(d.get("profile", "release"), "mvh_parsers")
    ipath, opath = ctx.path("i.ndjson"), ctx.path("o.ndjson")
    vlib.write_ndjson(ipath, [{"id": d["id"], "bytes": d["bytes"]}])
    res = ctx.isolated(binary, ["run", ipath, opath], 1, opath)
    print(json.dumps(res)[:3000])
    o = res[0].get("out", {}).get(d["entry"], res[0])
    if o.get("outcome") not in ("ok", "err") or o != d["observed"] and o.get("outcome") == d["observed"].get("outcome"):
        ctx.violation(rp["sig"], d)
