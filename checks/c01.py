"""C01 — bin archive content survives serialize -> parse, for any conforming layout (spec/BinFormat.tla)."""
import binfmt_common

LEVEL = "model_checking"


def run(ctx):
    ctx.rule = ("TLC enumerates archive contents (sizes x per-cell annotation x label configurations x endian) and, per content, "
                "every conforming layout (pointer-table permutations, label-table interleavings, text-section variants); "
                "each is parsed by mila and by the TLA+ reference parser. Random larger contents recorded from mila are validated "
                "by TLC (well-formedness, reference parse, mila's parse). Non-trivial = content with at least one annotation.")
    binfmt_common.run(ctx, "C01")


replay = binfmt_common.replay
