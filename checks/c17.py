"""C17 — animation-set file round trip.  spec/ASet.tla (ASetContent, RefParseASet, SetSize);
MC_ASet (laws over the bounded scope) -> Gen_ASet (value, expected archive content, expected file image
BinFormat!Canon(content) for contents with few strings) -> `mvh_cont aset-replay`;
`mvh_cont aset-record` (random values, FE14Aset_Test.bin) -> Trace_ASet."""
import cont_common as cc

LEVEL = "model_checking"


def _sets(v):
    return [{"label": s["label"]["some"], "present": sum(1 for x in s["slots"] if x["some"])} for s in v["sets"]][:8]


def _case(c):
    v = c["value"]
    return {"sets": _sets(v), "meta": v["meta"]["some"], "clips_present": sum(1 for x in v["clips"] if x["some"])}


def _event(e):
    v = e["value"]
    return {"n_sets": len(v["sets"]), "sets": _sets(v), "clips_present": sum(1 for x in v["clips"] if x["some"])}


def run(ctx):
    ctx.rule = ("MC: group patterns {empty, bit 0, bit 31, bits 0+31, alternating, full}: all assignments to two groups "
                "(0,1 and 2,7) with the others empty, each single group 0..7, uniform sets; labelled/unlabelled; 0..3 sets; "
                "meta absent/''/ASCII/2-byte; clip table none/sparse/alternating/dense; names '' / ASCII / 2-byte, shared or "
                "distinct; thorough adds seeded pseudo-random values over all 6^8 assignments. spec->impl: ASetFile built from "
                "the value, serialize(); archive content of the image = ASetContent(value), image = BinFormat!Canon for "
                "contents with <= 48 strings, re-read fields = value, second serialization = first. impl->spec: seeded "
                "random values (<= 40 sets, random presence per group, names incl. '' and 2-byte) and FE14Aset_Test.bin, "
                "validated by TLC; plus rule-built large values (330 sets x 200 slots = 66 000 string cells; 65 600 labelled "
                "empty sets = 65 601 labels) whose header totals TLC derives from the rule and whose round trip must succeed; "
                "everything under the release and the checked build. Non-trivial = at least one set with a present slot.")
    binary = ctx.build("release", "mvh_cont")
    runs, max_sets = ctx.pick((45, 40), (1000, 40))
    cc.round_trip_check(ctx, "C17", binary, "MC_ASet", "Gen_ASet.cfg", "Trace_ASet", "aset",
                        ["PickBucket", "PickValue"], ["PickSeed", "StepSeed"], [runs, max_sets, "big"],
                        _case, _event,
                        lambda c: any(x["some"] for s in c["value"]["sets"] for x in s["slots"]),
                        lambda e: any(x["some"] for s in e["value"]["sets"] for x in s["slots"]))
    ctx.assumptions += ["rule-built large values travel as (rule, image header, round-trip flags): TLC decides the header totals from "
                        "the rule (BigRuleLaw ties the rule to ASetContent on small instances); field equality of the re-read value "
                        "is computed by the harness on the Rust structs",
                        "bounded model (see rule): 2^256 presence patterns per set are sampled, not exhausted",
                        "the container image is specified by spec/BinFormat.tla (C01/C02); byte-exact comparison with "
                        "BinFormat!Canon is made for contents with <= 48 strings, larger ones are compared as archive "
                        "content (data, strings, labels) read back through BinArchive::from_bytes",
                        "a set label equal to 'AnimClipNameTable' and clip tables / sets of other lengths than 257 are "
                        "outside the statement's domain",
                        "every compared parse is preceded, on the same thread, by failing parses of truncated copies of the same image (a parse result must depend on the image alone)",
                        "names are taken from the lossless Shift-JIS domain; the codec (encoding_rs) is trusted; names include 63/64/65 and 127/128/129-byte ones with a double-byte character across offsets 64 and 128"]


def replay(ctx, rp):
    cc.round_trip_replay(ctx, rp, ctx.build("release", "mvh_cont"), "aset")
