"""C16 — 3DS arc extraction returns exactly the packed files; the statement's error layouts are errors.
spec/Arc3ds.tla (ArcContent over layouts, Extract, Allowed); MC_Arc3ds (laws, exhaustive over the bounded
scope) -> Gen_Arc3ds (content + BinFormat!Canon image + expected extraction) -> `mvh_cont arc-replay`;
`mvh_cont arc-record` (random arcs built by the harness, ArcTest.arc) -> Trace_Arc3ds."""
import vlib
import cont_common as cc

LEVEL = "model_checking"
# record counts around the powers of two where a narrower count type would wrap; these images are built by the
# harness from a rule and, above 1000 records, validated by TLC through a summary (count + sampled entries)
COUNT_BOUNDS = ["255", "256", "257", "65535", "65536", "65537"]


def run(ctx):
    ctx.rule = ("MC: every value of 0..3 files (body lengths 0,1,4,5,33; ASCII and 2-byte Shift-JIS names), padded and "
                "un-padded, every record permutation, 4 placements of bodies/Count/Info (bodies first, count first, table between bodies, table first; + unaligning lead gaps), with and "
                "without the extra labels real files carry; every planted error (no Count, no Info, record without name, "
                "range past the end / starting past the end) on every record, and out-of-range offset / size WORDS across the u32 "
                "range (far past the end, around 2^31, 2^32-0x61, the top 0x60 values that wrap into the zero header, sums "
                "that are small only modulo 2^32) in the padded and un-padded variant; thorough adds seeded pseudo-random layouts "
                "with 4..7 files. spec->impl: arc::from_bytes on BinFormat!Canon(content) (and on the image mila's own "
                "writer builds from the content when it differs, and for <= 2 files on a non-canonical image: reversed tables, "
                "duplicated text section) compared with the reference extraction as a map, or "
                "required to be Err, under the release (wrapping) AND the checked (panicking) build. impl->spec: seeded random arcs up to 60 files built by the harness plus ArcTest.arc, plus rule-built arcs with "
                "255/256/257 records (validated in full) and 65 535/65 536/65 537 records (count and sampled entries); "
                "TLC decides conformance of the logged content and the allowed result. Non-trivial = at least one file "
                "or a planted error.")
    binary = ctx.build("release", "mvh_cont")
    actions = ["PickValue", "PickLayout", "PickError", "PickWordError", "PickOverlap"] + ([] if ctx.quick() else ["PickSeed", "StepSeed"])
    if ctx.quick():
        # TLC's -coverage instrumentation costs ~60 s on this model; in the quick tier the vacuity guard is taken
        # from the generator run of the same next-state relation instead (every action leaves cases of its kinds)
        ctx.tlc("MC_Arc3ds", "MC_Arc3ds.cfg", env=cc.env_of(ctx), workers=cc.WORKERS)
    else:
        cc.model_check(ctx, "MC_Arc3ds", actions)
    cases = cc.generate(ctx, "MC_Arc3ds", "Gen_Arc3ds.cfg")
    by_action = {"PickLayout": {"none"}, "PickError": {"nocount", "noinfo", "noname", "end", "start"},
                 "PickWordError": {"words", "wrapsum", "nameptr"}, "PickOverlap": {"overcount", "overfields"}}
    seen = {c["kind"] for c in cases}
    missing = [a for a, ks in by_action.items() if not ks <= seen]
    if missing:
        raise vlib.ToolError("vacuous model: actions left no generated case of every kind: %s" % missing)
    summ, mism, unb = cc.replay(ctx, binary, "arc-replay", cases, "arc")
    # both arithmetic regimes in both tiers: out-of-range 32-bit fields wrap in release and panic in checked
    checked = ctx.build("checked", "mvh_cont")
    summ_c, mism_c, unb_c = cc.replay(ctx, checked, "arc-replay", cases, "arc_checked")
    ctx.traces += summ_c["images"]
    for profile, ms in (("release", mism), ("checked", mism_c)):
        for o in ms:
            c = cases[o["i"]]
            ctx.violation({"dir": "spec->impl", "profile": profile, "what": o["what"], "layout": c["kind"], "padded": c["padded"],
                           "planted": {k: x for k, x in c["err"].items() if k != "kind"},
                           "files": len(c["v"]), "lens": [len(f[1]) for f in c["v"]], "got": cc.shrink(o["got"], 400)},
                          {"case": c, "got": cc.shrink(o["got"], 20000), "profile": profile})
    ctx.extra["built_images_not_judged_container_mismatch"] = summ.get("container_mismatch", 0)
    ctx.traces += summ["images"]
    ctx.evaluations += summ["images"]
    ctx.nontrivial += sum(1 for c in cases if c["v"] or c["kind"] != "none")
    kinds = {}
    for c in cases:
        kinds[c["kind"]] = kinds.get(c["kind"], 0) + 1
    ctx.extra["generated_layouts_by_kind"] = kinds
    mid = cases[len(cases) // 2]
    ctx.sample({"replayed_layout": {"kind": mid["kind"], "padded": mid["padded"], "files": len(mid["v"]),
                                    "data_bytes": len(mid["content"]["data"]), "image_bytes": len(mid["image"]),
                                    "labels": [[a, ["".join(map(chr, n)) for n in names]] for a, names in mid["content"]["labels"]]}})
    # impl -> spec
    runs, max_files = ctx.pick((400, 60), (10000, 60))
    tpath = ctx.path("arc_trace.ndjson")
    events = []
    for profile, b in (("release", binary), ("checked", checked)):
        ppath = ctx.path("arc_trace_%s.ndjson" % profile)
        ctx.harness(b, ["arc-record", ppath, str(runs // 2), str(max_files)] + COUNT_BOUNDS)
        for e in vlib.read_ndjson(ppath):
            e["profile"] = profile
            events.append(e)
    vlib.write_ndjson(tpath, events)
    unbuilt = [e for e in events if e["kind"] == "unbuildable"]
    events = [e for e in events if e["kind"] != "unbuildable"]
    vlib.write_ndjson(tpath, events)
    ctx.extra["recorded_unbuildable"] = len(unbuilt)
    if unbuilt and not ctx.viol:   # with violations already found this is a consequence, not a tool problem
        raise vlib.ToolError("harness could not build an arc image: %s" % [e["result"] for e in unbuilt][:1])
    rep = cc.validate(ctx, "Trace_Arc3ds", tpath, len(events))
    for b in rep["bad"]:
        ev = events[b["i"] - 1]
        res = dict(ev["result"])
        if "sample" in res:
            res["sample"] = [x for x in res["sample"] if not x["found"]][:5]
            res["records"] = ev["desc"]["n"]
        ctx.violation({"dir": "impl->spec", "profile": ev["profile"], "failed": b["why"], "src": ev["src"], "layout": ev["kind"],
                       "result": {k: res[k] for k in res if k != "files"}, "files_returned": len(res.get("files", []))},
                      cc.event_detail(ev, b["i"]))
    if rep["odd"] and not ctx.viol:
        raise vlib.ToolError("harness-built arcs are not of the kind they claim (events %s)" % rep["odd"][:10])
    ctx.traces += len(events)
    ctx.evaluations += 2 * len(events)
    ctx.nontrivial += sum(1 for e in events if e["kind"] != "ok" or e["result"].get("files"))
    rk = {}
    for e in events:
        rk[e["kind"]] = rk.get(e["kind"], 0) + 1
    ctx.extra["recorded_events_by_kind"] = rk
    ctx.extra["recorded_sources"] = sorted(set(e["src"] for e in events))
    ctx.extra["max_files_recorded"] = max(len(e["result"].get("files", [])) for e in events)
    ctx.sample({"recorded_event": {"kind": events[1]["kind"], "result_ok": events[1]["result"].get("ok"),
                                   "files": len(events[1]["result"].get("files", []))}})
    ctx.exhaustive = True
    ctx.assumptions += ["bounded model: 0..3 files exhaustively (see rule); larger arcs only by seeded sampling",
                        "arcs with ~2^16 records are built by the harness's layout builder (the one whose small outputs TLC "
                        "validates in full) from the naming rule BigName/BigBody; TLC checks the number of entries returned and "
                        "a sample (first, last, every 4099th, indices around 2^8 and 2^16): the middle of such an image is only sampled",
                        "every compared parse is preceded, on the same thread, by failing parses of truncated copies of the same "
                        "image (a parse result must depend on the image alone)",
                        "file images are BinFormat!Canon(content) as specified in spec/BinFormat.tla (C01/C02); random arcs "
                        "are turned into bytes by mila's own BinArchive writer (proj::build + serialize), which C01/C02 check",
                        "any Err is accepted for an error layout (the statement does not name the error kinds)",
                        "malformed containers and count fields beyond the data region are C05, not exercised here; record offsets and "
                        "sizes are exercised over the whole u32 range in both build profiles",
                        "names are taken from the lossless Shift-JIS domain; the codec (encoding_rs) is trusted; record names include 63..129-byte ones, "
                        "single-byte and double-byte names of 255/256/257, 300 and 1000 bytes (conforming layouts), and half-width katakana names "
                        "whose Shift-JIS bytes are also well-formed UTF-8 (conforming and error layouts)"]
    cc.finish_unbuildable(ctx, unb)


def replay(ctx, rp):
    binary = ctx.build("release", "mvh_cont")
    d = rp["detail"]
    if "case" in d:
        summ, mism, unb = cc.replay(ctx, binary, "arc-replay", [d["case"]], "arc")
        for o in mism:
            print(o["what"], "got:", str(o["got"])[:600])
        if mism:
            ctx.violation(rp["sig"], d)
    else:
        print("recorded event %s (re-run ./check C16 --tier %s --seed %s to reproduce)" % (d.get("index"), rp.get("tier"), rp.get("seed")))
