"""C03 — allocate / deallocate / truncate relocate every annotation consistently (spec/BinArchive.tla)."""
import binsm_common

LEVEL = "model_checking"


def run(ctx):
    ctx.rule = ("TLC builds every small archive (sizes x per-cell string/pointer/c-string x label configurations), applies every "
                "allocate / allocate-at-end / writer-allocate / deallocate / truncate / annotation write with boundary addresses, sizes and both "
                "inclusive-shift values, and checks conservation/inverse/rejection laws; each (state, event) is replayed on a real BinArchive and "
                "the full observable state compared; random histories recorded from mila are validated step by step. "
                "Non-trivial = event on a non-empty archive that carries at least one annotation.")
    binsm_common.run(ctx, "c03", ["release", "checked"])


replay = binsm_common.replay
