"""C08 — LZ10 compression emits a valid stream that expands to the input.
spec/LZ.tla (token model, decoder state machine, CompressOK); MC_LZ (model laws, exhaustive at scaled
constants); impl->spec: real LZ10CompressionFormat::compress output run through the TLA+ decoder machine
at the real constants by Trace_LZ.  Also hosts the helpers shared by c09/c10/c11 (import c08)."""
import json
import vlib

LEVEL = "model_checking"
BIN = "mvh_lz"
VIAS = ("direct", "enum")
DEC_ACTIONS = ["AddTok", "Start", "Header", "LoadFlags", "Literal", "BackRef", "Finish", "FailShort", "FailType",
               "FailTrunc", "FailRange", "FailBefore", "OpenTrail", "OpenOver", "OpenExt"]


# ------------------------------------------------------------------ shared helpers
def model_laws(ctx):
    """Exhaustive check of the decoder/encoder laws on the scaled model, with action coverage as vacuity guard."""
    r = ctx.tlc("MC_LZ", "MC_LZ.cfg", env={"VERIF_TIER": ctx.tier}, workers=6, coverage=True,
                timeout=ctx.pick(300, 1200))
    ctx.require_coverage(r, DEC_ACTIONS)
    return r


def synth(rec, stderr_key="stderr"):
    """result record for a case during which the worker died / hung (written by the supervisor)"""
    err = rec.get(stderr_key, "") or ""
    return {"kind": rec["outcome"], "out": [], "alloc": "memory allocation of" in err, "msg": err[-200:]}


def trace_check(ctx, events, name="trace"):
    """Validate events with Trace_LZ; returns (bad indices 0-based, report)."""
    if not events:
        raise vlib.ToolError("no events recorded")
    tpath = ctx.path(name + ".ndjson")
    vlib.write_ndjson(tpath, events)
    t = ctx.tlc("Trace_LZ", "Trace_LZ.cfg", env={"TRACE": tpath}, workers=1, count=False, deque=True,
                timeout=ctx.pick(600, 3000))
    rep = t.tagged("R")
    if len(rep) != 1 or rep[0]["n"] != len(events):
        raise vlib.ToolError("trace not consumed: %s" % str(rep)[:300])
    ctx.states += t.distinct          # decoder-machine steps taken over the real bytes
    ctx.transitions += t.generated
    return [i - 1 for i in rep[0]["bad"]], rep[0]


def record_comp(ctx, fmt, profiles):
    """inputs (harness, seeded) -> compress + own decompress in an isolated worker under each profile.
    Returns deduplicated 'comp' events, each carrying the profiles that produced it."""
    bins = {p: ctx.build(p, BIN) for p in profiles}
    cpath = ctx.path("inputs_%s.ndjson" % fmt)
    ctx.harness(bins[profiles[0]], ["inputs", fmt, cpath])
    cases = vlib.read_ndjson(cpath)
    seen, events = {}, []
    worst_alloc = 0
    # both public entry points: LZ10/LZ13CompressionFormat directly and CompressionFormat::LZ10/LZ13 (same spec conditions)
    for p, via in [(p, via) for p in profiles for via in VIAS]:
        opath = ctx.path("comp_%s_%s_%s.ndjson" % (fmt, p, via))
        res = ctx.isolated(bins[p], ["comp", cpath, opath], len(cases), opath, per_case_timeout=ctx.pick(30.0, 180.0),
                           env={"VERIF_LZ_VIA": via})
        if len(res) != len(cases):
            raise vlib.ToolError("isolated run returned %d results for %d cases" % (len(res), len(cases)))
        for r in res:
            c = cases[r["i"]]
            big = "pat" in c       # input given by its generator (pattern repeated to n bytes)
            if "outcome" in r:
                if big:
                    ev = {"kind": "bigcomp", "fmt": fmt, "tag": c["tag"], "pat": c["pat"], "n": c["n"], "res": synth(r),
                          "rt": {"kind": "none", "same": False, "len": 0, "msg": ""}}
                else:
                    ev = {"kind": "comp", "fmt": fmt, "tag": c["tag"], "input": c["input"], "res": synth(r),
                          "rt": {"kind": "none", "out": [], "alloc": False, "msg": ""}}
            else:
                ev = {k: r[k] for k in (("kind", "fmt", "tag", "pat", "n", "res", "rt") if big else
                                        ("kind", "fmt", "tag", "input", "res", "rt"))}
                worst_alloc = max(worst_alloc, r.get("max_alloc", 0))
            key = json.dumps([c.get("input"), c.get("pat"), c.get("n"), ev["res"]["kind"], ev["res"]["out"], ev["rt"]["kind"],
                              ev["rt"].get("out"), ev["rt"].get("same")])
            if key in seen:
                seen[key]["profiles"].append(p)
                seen[key]["via"].append(via)
            else:
                ev["profiles"] = [p]
                ev["via"] = [via]
                seen[key] = ev
                events.append(ev)
    ctx.extra["inputs"] = len(cases)
    ctx.extra["entry_points"] = list(VIAS)
    ctx.extra["profiles"] = list(profiles)
    ctx.extra["max_single_allocation"] = worst_alloc
    return cases, events


def in_len(x):
    return x["n"] if "pat" in x else len(x["input"])


def check_comp(ctx, fmt, profiles):
    cases, events = record_comp(ctx, fmt, profiles)
    bad, rep = trace_check(ctx, events, "comp_" + fmt)
    for i in bad:
        ev = events[i]
        ctx.violation({"dir": "impl->spec", "op": fmt + ".compress", "tag": ev["tag"], "input_len": in_len(ev),
                       "res": ev["res"]["kind"], "msg": ev["res"]["msg"][:120], "rt": ev["rt"]["kind"],
                       "profiles": ev["profiles"], "via": ev["via"]},
                      {"event": ev})
    ctx.traces += len(events)
    ctx.evaluations += len(cases) * len(profiles) * len(VIAS)
    ctx.nontrivial += rep["nref"]
    ctx.extra["events_with_back_reference"] = rep["nref"]
    ctx.extra["terminal_classes"] = rep["tally"]
    ctx.extra["largest_input"] = max(in_len(c) for c in cases)
    ctx.extra["largest_listed_input"] = max(len(c["input"]) for c in cases if "input" in c)
    ctx.extra["generator_described_inputs"] = sorted(set(c["n"] for c in cases if "pat" in c))
    ctx.nontrivial += sum(1 for e in events if e["kind"] == "bigcomp")
    big = [e for e in events if e["tag"].startswith("per4096")]
    if big:
        e = big[0]
        ctx.sample({"tag": e["tag"], "input_len": len(e["input"]), "stream_len": len(e["res"]["out"]),
                    "stream_head": e["res"]["out"][:16]})
    e = events[min(700, len(events) - 1)]
    ctx.sample({"tag": e["tag"], "input": e["input"], "stream": e["res"]["out"]})
    for e in events:
        if e["kind"] == "bigcomp" and e["n"] == 0xFFFFFF:
            ctx.sample({"tag": e["tag"], "n": e["n"], "period": len(e["pat"]), "res": e["res"]["kind"],
                        "stream_len": len(e["res"]["out"]), "stream_head": e["res"]["out"][:12], "rt": e["rt"]})
            break
    return events


def replay_comp(ctx, rp):
    ev = rp["detail"]["event"]
    prof = ev.get("profiles", ["release"])[0]
    b = ctx.build(prof, BIN)
    cpath, opath = ctx.path("c.ndjson"), ctx.path("o.ndjson")
    big = ev["kind"] == "bigcomp"
    case = {"fmt": ev["fmt"], "tag": ev["tag"]}
    case.update({"pat": ev["pat"], "n": ev["n"]} if big else {"input": ev["input"]})
    vlib.write_ndjson(cpath, [case])
    res = ctx.isolated(b, ["comp", cpath, opath], 1, opath, per_case_timeout=180.0,
                       env={"VERIF_LZ_VIA": ev.get("via", ["direct"])[0]})
    r = res[0]
    if "outcome" in r:
        e2 = dict(ev, res=synth(r), rt={"kind": "none", "out": [], "same": False, "alloc": False, "msg": ""})
    else:
        e2 = {k: r[k] for k in (("kind", "fmt", "tag", "pat", "n", "res", "rt") if big else
                                ("kind", "fmt", "tag", "input", "res", "rt"))}
    print("result now: res=%s %s rt=%s stream=%s" % (e2["res"]["kind"], e2["res"]["msg"], e2["rt"]["kind"], e2["res"]["out"][:64]))
    bad, _ = trace_check(ctx, [e2], "replay")
    if bad:
        ctx.violation(rp["sig"], {"event": e2})


# ------------------------------------------------------------------ C08
def run(ctx):
    ctx.rule = ("MC: every token sequence over {a,b} with output <= %d at scaled constants, every stream variant, decoder "
                "machine action by action. impl->spec: all inputs over {a,b} up to length %d and {a,b,c} up to %d plus "
                "seeded structured inputs (runs, periods around 18/256/4096, self-similar with window-edge copies, "
                "incompressible, text) compressed by the real LZ10 compressor through both public entry points (LZ10CompressionFormat and "
                "CompressionFormat::LZ10); the stream is decoded by the TLA+ decoder "
                "machine at the real constants; plus size-boundary inputs given by generator (run / period 3, 17, 4096 repeated to "
                "0xFFFF..0x10001, 65810, 65811, 70000, 0x20000, 140000 and 16 MiB-2, 16 MiB-1 bytes) judged by the validating "
                "decoder (same layouts and checks, out replaced by the known expected output). Non-trivial = event whose stream made the decoder take >= 1 BackRef step "
                "(counted by TLC)." % (ctx.pick(7, 9), ctx.pick(11, 14), ctx.pick(7, 9)))
    profiles = ctx.pick(["release"], ["release", "checked"])
    bins = [ctx.build(p, BIN) for p in profiles]   # cargo first, TLC afterwards
    model_laws(ctx)
    check_comp(ctx, "lz10", profiles)
    ctx.exhaustive = True
    ctx.assumptions += ["inputs listed byte by byte up to %d bytes; beyond that (up to 16 MiB - 1) only generator-described periodic inputs, "
                        "whose own-decompression result is compared with the input by the harness" % ctx.extra["largest_listed_input"],
                        "scaled model: W=6, lengths 3..5 (LZ10s); byte layouts are the real ones",
                        "the independent decoder of the statement is the TLA+ decoder machine evaluated by TLC"]


def replay(ctx, rp):
    replay_comp(ctx, rp)
