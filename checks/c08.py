"""C08 — LZ10 compression emits a valid stream that expands to the input.
spec/LZ.tla (token model, decoder state machine, CompressOK); MC_LZ (model laws, exhaustive at scaled
constants); impl->spec: real LZ10CompressionFormat::compress output run through the TLA+ decoder machine
at the real constants by Trace_LZ.  Also hosts the helpers shared by c09/c10/c11 (import c08)."""
import json
import os
import vlib

LEVEL = "model_checking"
BIN = "mvh_lz"
VIAS = ("direct", "enum")
DEC_ACTIONS = ["AddTok", "Start", "Header", "LoadFlags", "Literal", "BackRef", "Finish", "FailShort", "FailType",
               "FailTrunc", "FailRange", "FailBefore", "OpenTrail", "OpenOver", "OpenExt"]


# ------------------------------------------------------------------ shared helpers
def model_laws(ctx):
    """Exhaustive check of the decoder/encoder laws on the scaled model, with action coverage as vacuity guard."""
    r = ctx.tlc("MC_LZ", "MC_LZ.cfg", env={"VERIF_TIER": ctx.tier}, workers=6, coverage=True,
                timeout=ctx.pick(300, 1200))
    ctx.require_coverage(r, DEC_ACTIONS)
    return r


def synth(rec, stderr_key="stderr"):
    """result record for a case during which the worker died / hung (written by the supervisor)"""
    err = rec.get(stderr_key, "") or ""
    return {"kind": rec["outcome"], "out": [], "alloc": "memory allocation of" in err, "msg": err[-200:]}


def trace_check(ctx, events, name="trace", chunk_bytes=48 << 20):
    """Validate events with Trace_LZ; returns (bad indices 0-based, report).  The trace is cut into pieces of at most
    chunk_bytes of JSON (events are independent of each other), one TLC run per piece, so that megabyte streams do not
    have to sit in one JVM heap all at once."""
    if not events:
        raise vlib.ToolError("no events recorded")
    lines = [json.dumps(e, separators=(",", ":")) for e in events]
    chunks, cur, size = [], [], 0
    for k, ln in enumerate(lines):
        if cur and size + len(ln) > chunk_bytes:
            chunks.append(cur)
            cur, size = [], 0
        cur.append(k)
        size += len(ln)
    chunks.append(cur)
    bad, total = [], {"n": 0, "bad": [], "nref": 0, "tally": {}}
    for ci, idx in enumerate(chunks):
        tpath = ctx.path("%s_%d.ndjson" % (name, ci))
        with open(tpath, "w") as f:
            for k in idx:
                f.write(lines[k])
                f.write("\n")
        t = ctx.tlc("Trace_LZ", "Trace_LZ.cfg", env={"TRACE": tpath}, workers=1, count=False, deque=True,
                    timeout=ctx.pick(600, 3000))
        os.remove(tpath)
        rep = t.tagged("R")
        if len(rep) != 1 or rep[0]["n"] != len(idx):
            raise vlib.ToolError("trace not consumed: %s" % str(rep)[:300])
        ctx.states += t.distinct          # decoder-machine steps taken over the real bytes
        ctx.transitions += t.generated
        bad += [idx[i - 1] for i in rep[0]["bad"]]
        total["n"] += rep[0]["n"]
        total["nref"] += rep[0]["nref"]
        for k, v in rep[0]["tally"].items():
            total["tally"][k] = total["tally"].get(k, 0) + v
    total["bad"] = [i + 1 for i in bad]
    return bad, total


def record_comp(ctx, fmt, profiles):
    """inputs (harness, seeded) -> compress + own decompress in an isolated worker under each profile.
    Returns deduplicated 'comp' events, each carrying the profiles that produced it."""
    bins = {p: ctx.build(p, BIN) for p in profiles}
    cpath = ctx.path("inputs_%s.ndjson" % fmt)
    # the valid streams printed by the specification's generator (small family: bare LZ10 / LZ11, 0x13-wrapped) are
    # plain inputs too: data that already looks like a stream must be compressed like any other
    g = ctx.tlc("Gen_LZ", "Gen_LZ.cfg", env={"VERIF_TIER": ctx.tier, "GEN_FAM": "small"}, workers=6, count=False,
                timeout=ctx.pick(300, 1200))
    streams, seen_s = [], set()
    for c in g.tagged("G"):
        k = tuple(c["stream"])
        if c["var"] in ("exact", "wrapped") and k not in seen_s:
            seen_s.add(k)
            streams.append({"stream": c["stream"]})
    g.out = ""
    if not streams:
        raise vlib.ToolError("no generator streams to use as inputs")
    spath = ctx.path("genstreams.ndjson")
    vlib.write_ndjson(spath, streams)
    ctx.extra["generator_streams_as_input"] = len(streams)
    ctx.harness(bins[profiles[0]], ["inputs", fmt, cpath, spath])
    cases = vlib.read_ndjson(cpath)
    seen, events = {}, []
    worst_alloc = [0]

    def one_pass(cases, cpath, tagname):
        """isolated compress of every case through both public entry points (LZ10/LZ13CompressionFormat directly and
        CompressionFormat::LZ10/LZ13, same spec conditions) under every profile; returns the new events"""
        new = []
        for p, via in [(p, via) for p in profiles for via in VIAS]:
            opath = ctx.path("comp_%s_%s_%s_%s.ndjson" % (fmt, tagname, p, via))
            res = ctx.isolated(bins[p], ["comp", cpath, opath], len(cases), opath, per_case_timeout=ctx.pick(30.0, 180.0),
                               env={"VERIF_LZ_VIA": via})
            if len(res) != len(cases):
                raise vlib.ToolError("isolated run returned %d results for %d cases" % (len(res), len(cases)))
            for r in res:
                c = cases[r["i"]]
                big = "pat" in c       # input given by its generator (pattern repeated to n bytes)
                if "outcome" in r:
                    if big:
                        ev = {"kind": "bigcomp", "fmt": fmt, "tag": c["tag"], "head": c["head"], "pat": c["pat"], "tail": c["tail"],
                              "n": c["n"], "res": synth(r),
                              "rt": {"kind": "none", "same": False, "len": 0, "msg": ""}}
                    else:
                        ev = {"kind": "comp", "fmt": fmt, "tag": c["tag"], "input": c["input"], "res": synth(r),
                              "rt": {"kind": "none", "out": [], "alloc": False, "msg": ""}}
                else:
                    ev = {k: r[k] for k in (("kind", "fmt", "tag", "head", "pat", "tail", "n", "res", "rt") if big else
                                            ("kind", "fmt", "tag", "input", "res", "rt"))}
                    worst_alloc[0] = max(worst_alloc[0], r.get("max_alloc", 0))
                key = json.dumps([c.get("input"), c.get("head"), c.get("pat"), c.get("tail"), c.get("n"), ev["res"]["kind"], ev["res"]["out"], ev["rt"]["kind"],
                                  ev["rt"].get("out"), ev["rt"].get("same")])
                if key in seen:
                    if (p, via) not in zip(seen[key]["profiles"], seen[key]["via"]):   # the same input may be listed twice
                        seen[key]["profiles"].append(p)
                        seen[key]["via"].append(via)
                else:
                    ev["profiles"] = [p]
                    ev["via"] = [via]
                    seen[key] = ev
                    events.append(ev)
                    new.append(ev)
        return new

    level = one_pass(cases, cpath, "base")
    # compress(compress(x)) chains: the streams just produced (a spread over all input families, streams up to 2 KB)
    # are inputs of a second pass, and the results of that pass inputs of a third
    n_chain = 0
    for depth in (1, 2):
        pool = [e for e in level if e["kind"] == "comp" and e["res"]["kind"] == "ok" and 0 < len(e["res"]["out"]) <= 2048
                and e["tag"] not in ("all2", "all3", "headerlike", "genstream")]
        small = [e for e in level if e["kind"] == "comp" and e["res"]["kind"] == "ok" and e["tag"] in ("all2", "all3", "genstream")]
        pool += small[:: max(1, len(small) // 150)]
        chain = [{"fmt": fmt, "tag": "chain%d" % depth, "input": e["res"]["out"]} for e in pool]
        if not chain:
            break
        ccpath = ctx.path("inputs_%s_chain%d.ndjson" % (fmt, depth))
        vlib.write_ndjson(ccpath, chain)
        level = one_pass(chain, ccpath, "chain%d" % depth)
        cases = cases + chain
        n_chain += len(chain)
    ctx.extra["chain_inputs"] = n_chain
    worst_alloc = worst_alloc[0]
    ctx.extra["inputs"] = len(cases)
    ctx.extra["entry_points"] = list(VIAS)
    ctx.extra["profiles"] = list(profiles)
    ctx.extra["max_single_allocation"] = worst_alloc
    return cases, events


def in_len(x):
    return x["n"] if "pat" in x else len(x["input"])


def check_comp(ctx, fmt, profiles):
    cases, events = record_comp(ctx, fmt, profiles)
    bad, rep = trace_check(ctx, events, "comp_" + fmt)
    for i in bad:
        ev = events[i]
        ctx.violation({"dir": "impl->spec", "op": fmt + ".compress", "tag": ev["tag"], "input_len": in_len(ev),
                       "res": ev["res"]["kind"], "msg": ev["res"]["msg"][:120], "rt": ev["rt"]["kind"],
                       "profiles": ev["profiles"], "via": ev["via"]},
                      {"event": ev})
    ctx.traces += len(events)
    ctx.evaluations += len(cases) * len(profiles) * len(VIAS)
    if not ctx.extra.get("chain_inputs"):
        raise vlib.ToolError("no compress(compress(x)) chain inputs were produced")
    ctx.nontrivial += rep["nref"]
    ctx.extra["events_with_back_reference"] = rep["nref"]
    ctx.extra["terminal_classes"] = rep["tally"]
    ctx.extra["largest_input"] = max(in_len(c) for c in cases)
    ctx.extra["largest_listed_input"] = max(len(c["input"]) for c in cases if "input" in c)
    ctx.extra["generator_described_inputs"] = sorted(set(c["n"] for c in cases if "pat" in c))
    ctx.nontrivial += sum(1 for e in events if e["kind"] == "bigcomp")
    big = [e for e in events if e["tag"].startswith("per4096")]
    if big:
        e = big[0]
        ctx.sample({"tag": e["tag"], "input_len": len(e["input"]), "stream_len": len(e["res"]["out"]),
                    "stream_head": e["res"]["out"][:16]})
    e = events[min(700, len(events) - 1)]
    ctx.sample({"tag": e["tag"], "input": e["input"], "stream": e["res"]["out"]})
    for e in events:
        if e["kind"] == "bigcomp" and e["n"] == 0xFFFFFF:
            ctx.sample({"tag": e["tag"], "n": e["n"], "period": len(e["pat"]), "res": e["res"]["kind"],
                        "stream_len": len(e["res"]["out"]), "stream_head": e["res"]["out"][:12], "rt": e["rt"]})
            break
    return events


def replay_comp(ctx, rp):
    ev = rp["detail"]["event"]
    prof = ev.get("profiles", ["release"])[0]
    b = ctx.build(prof, BIN)
    cpath, opath = ctx.path("c.ndjson"), ctx.path("o.ndjson")
    big = ev["kind"] == "bigcomp"
    case = {"fmt": ev["fmt"], "tag": ev["tag"]}
    case.update({"head": ev["head"], "pat": ev["pat"], "tail": ev["tail"], "n": ev["n"]} if big else {"input": ev["input"]})
    vlib.write_ndjson(cpath, [case])
    res = ctx.isolated(b, ["comp", cpath, opath], 1, opath, per_case_timeout=180.0,
                       env={"VERIF_LZ_VIA": ev.get("via", ["direct"])[0]})
    r = res[0]
    if "outcome" in r:
        e2 = dict(ev, res=synth(r), rt={"kind": "none", "out": [], "same": False, "alloc": False, "msg": ""})
    else:
        e2 = {k: r[k] for k in (("kind", "fmt", "tag", "head", "pat", "tail", "n", "res", "rt") if big else
                                ("kind", "fmt", "tag", "input", "res", "rt"))}
    print("result now: res=%s %s rt=%s stream=%s" % (e2["res"]["kind"], e2["res"]["msg"], e2["rt"]["kind"], e2["res"]["out"][:64]))
    bad, _ = trace_check(ctx, [e2], "replay")
    if bad:
        ctx.violation(rp["sig"], {"event": e2})


# ------------------------------------------------------------------ C08
def run(ctx):
    ctx.rule = ("MC: every token sequence over {a,b} with output <= %d at scaled constants, every stream variant, decoder "
                "machine action by action. impl->spec: all inputs over {a,b} up to length %d and {a,b,c} up to %d plus "
                "seeded structured inputs (runs, periods around 18/256/4096, self-similar with window-edge copies, "
                "incompressible, text) compressed by the real LZ10 compressor through both public entry points (LZ10CompressionFormat and "
                "CompressionFormat::LZ10); the stream is decoded by the TLA+ decoder "
                "machine at the real constants; plus size-boundary inputs given by generator (run / period 3, 17, 4096 repeated to "
                "0xFFFF..0x10001, 65810, 65811, 70000, 0x20000, 140000 and 16 MiB-2, 16 MiB-1 bytes; compressible body + "
                "incompressible tail of 16/300 bytes and the mirrored shape at 70000 and at the 24-bit boundary) judged by the validating "
                "decoder; plus inputs that look like streams: every valid stream of the spec generator's small family, every "
                "header-like start (type 0x10/0x11/0x13/0x00, length 0..5) x every tail over {0,a} up to 5/7 bytes, and "
                "compress(x) / compress(compress(x)) chains; all judged by the same "
                "decoder (same layouts and checks, out replaced by the known expected output). Non-trivial = event whose stream made the decoder take >= 1 BackRef step "
                "(counted by TLC)." % (ctx.pick(7, 9), ctx.pick(11, 14), ctx.pick(7, 9)))
    profiles = ctx.pick(["release"], ["release", "checked"])
    bins = [ctx.build(p, BIN) for p in profiles]   # cargo first, TLC afterwards
    model_laws(ctx)
    check_comp(ctx, "lz10", profiles)
    ctx.exhaustive = True
    ctx.assumptions += ["inputs listed byte by byte up to %d bytes; beyond that (up to 16 MiB - 1) only generator-described periodic inputs, "
                        "whose own-decompression result is compared with the input by the harness" % ctx.extra["largest_listed_input"],
                        "scaled model: W=6, lengths 3..5 (LZ10s); byte layouts are the real ones",
                        "the independent decoder of the statement is the TLA+ decoder machine evaluated by TLC"]


def replay(ctx, rp):
    replay_comp(ctx, rp)
