"""C04 — cell access is bounds-safe, endian-correct and local; streams = positional calls at the cursor (spec/BinArchive.tla)."""
import binsm_common

LEVEL = "model_checking"


def run(ctx):
    ctx.rule = ("TLC enumerates archives of sizes {0,1,4,6,9} in both endiannesses and every typed / byte / annotation access, positional "
                "and through stream cursors, at boundary addresses and lengths (around 0, size and usize::MAX) with sign-bit and NaN "
                "bit patterns; laws: bounds iff, locality, read-back, annotation accessors leave data alone, stream = positional at cursor. "
                "Every (state, event) is replayed under the wrapping and the overflow-checked profile; random interleavings of stream and "
                "positional calls are recorded and validated. Non-trivial = access on a non-empty archive.")
    binsm_common.run(ctx, "c04", ["release", "checked"])


replay = binsm_common.replay
