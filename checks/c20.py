"""C20 — texture containers yield the packed textures and fail cleanly when truncated.
spec/TexContainers.tla (CTPK / BCH / CGFX / TPL layouts, reference readers, payload extents),
MC_TexContainers (laws, exhaustive over the bounded model), Gen_TexContainers -> readers on every file, every strict
prefix and damaged magic numbers (isolated, both profiles), reader outputs -> Trace_TexContainers."""
import vlib
import tex_common as tc

LEVEL = "model_checking"


def _readers(ctx, binary, prof, cases, cpath):
    """Runs the four readers under supervision; returns (results by case index, trace path)."""
    opath = ctx.path("readers_%s.ndjson" % prof)
    tpath = ctx.path("readers_trace_%s.ndjson" % prof)
    import os
    for p in (opath, tpath):
        if os.path.exists(p):
            os.remove(p)
    res = ctx.isolated(binary, ["readers", cpath, opath, tpath], len(cases), opath,
                       per_case_timeout=60.0)
    if len(res) != len(cases):
        raise vlib.ToolError("readers: %d results for %d cases" % (len(res), len(cases)))
    return res, tpath


def _judge(ctx, prof, cases, res):
    n_reads = 0
    for r in res:
        c = cases[r["i"]]
        base = {"dir": "spec->impl", "profile": prof, "container": c["c"], "textures": len(c["v"]), "placement": c["p"]}
        if r.get("outcome") in ("abort", "timeout"):
            ctx.violation(dict(base, what="process " + r["outcome"], signal=r.get("signal")),
                          {"case": c, "profile": prof, "result": r})
            continue
        n_reads += 1 + r["ok_prefixes"] + r["err_prefixes"] + r["magic_cases"]
        # largest single allocation request of the case: evidence only (a request above 1 GiB is refused by the
        # harness allocator and shows up as a process abort)
        ctx.extra["max_single_allocation"] = max(ctx.extra.get("max_single_allocation", 0), r["max_alloc"])
        for pb in r["problems"][:6]:
            sig = dict(base, what=pb["what"], got=str(pb["got"])[:200])
            if "reader" in pb:
                sig["reader"] = pb["reader"]
            if "k" in pb:
                sig["k"] = pb["k"]
                sig["min_ok"] = c["min_ok"]
                sig["len"] = r["len"]
            ctx.violation(sig, {"case": c, "profile": prof, "problem": pb})
    return n_reads


def _validate(ctx, tpath, cases, prof):
    events = vlib.read_ndjson(tpath)
    t = ctx.tlc("Trace_TexContainers", env={"TRACE": tpath}, workers=tc.TLC_WORKERS, count=False)
    rep = {r["i"]: r for r in t.tagged("E")}
    if sorted(rep) != list(range(1, len(events) + 1)):
        raise vlib.ToolError("trace not consumed: %d verdicts for %d events" % (len(rep), len(events)))
    by_id = {str(c["id"]): c for c in cases}
    for i in sorted(rep):
        if not rep[i]["ok"]:
            ev = events[i - 1]
            c = by_id[str(ev["id"])]
            ctx.violation({"dir": "impl->spec", "profile": prof, "container": ev["c"], "textures": len(ev["v"]),
                           "placement": c["p"], "via": ev.get("via"), "why": rep[i]["why"],
                           "returned": [{"name": o["name"], "w": o["w"], "h": o["h"]} for o in ev["out"]][:6]},
                          {"case": c, "profile": prof, "event": ev})
    return events


def run(ctx):
    ctx.rule = ("MC: for every (container, texture list, placement) of the bounded model the reference reader returns the "
                "packed list, payload extents are disjoint and inside the file, every payload-cutting prefix and damaged "
                "magic is rejected by the reference reader. spec->impl: each generated file is read by its mila reader in "
                "full (count, order, names, dimensions), on EVERY strict prefix (shorter than the end of the last payload "
                "=> Err; never panic/abort/hang/oversized allocation), with 8 damaged magic numbers and by the readers of "
                "the other containers (BCH, CGFX, TPL => Err), under both arithmetic profiles, isolated. impl->spec: the returned pixel data / names / dimensions "
                "are validated by TLC against Pixel!DecodeOK of each texture's own payload. Non-trivial = file with at "
                "least one texture.")
    bins = tc.both_profiles(ctx)
    env = {"VERIF_TIER": ctx.tier}
    # texture lists (3DS containers, TPL) x placements (CTPK + BCH + CGFX, TPL)
    # (the lists with a 64 KiB payload - quick 1 + 1, thorough 3 + 1 - get the first and every 8th placement)
    l3, lt = ctx.pick((14, 11), (26, 18))
    p3, pt = ctx.pick((9, 3), (104, 18))
    n_cases = ctx.pick((l3 - 1) * p3 + 3 + (lt - 1) * pt + 1, (l3 - 3) * p3 + 3 * 14 + (lt - 1) * pt + 3)
    # 1. laws on the model
    r = ctx.tlc("MC_TexContainers", "MC_TexContainers.cfg", env=env, workers=tc.TLC_WORKERS)
    if r.distinct < n_cases + 1:
        raise vlib.ToolError("MC_TexContainers: %d states, expected at least %d cases" % (r.distinct, n_cases))
    # 2. spec -> impl
    g = tc.generate(ctx, "MC_TexContainers", "Gen_TexContainers.cfg")
    cases = g.tagged("G")
    if len(cases) != n_cases:
        raise vlib.ToolError("generator produced %d cases, expected %d" % (len(cases), n_cases))
    cases.sort(key=lambda c: (c["id"][0], c["id"][1], c["id"][2]))
    # vacuity guards on the generated model (a failure is a defect of the model, not of mila)
    for cont in ("ctpk", "bch", "cgfx", "tpl"):
        mine = [c for c in cases if c["c"] == cont]
        if not any(c["shrink_eof"] for c in mine):
            raise vlib.ToolError("%s: no file in which a smaller payload than its predecessor's ends the file" % cont)
        if max(c["max_texels"] for c in mine) < 65536:
            raise vlib.ToolError("%s: no texture with width x height >= 65536" % cont)
    if not any(c["pad_bad"] > 0 for c in cases if c["c"] == "tpl"):
        raise vlib.ToolError("tpl: no palette image whose padding texels hold an invalid palette index")
    classes = {(bool(a[0]), bool(a[1])) for c in cases if c["c"] == "tpl" for a in c["align"]}
    if len(classes) != 4:
        raise vlib.ToolError("tpl: block-alignment classes (width aligned, height aligned) covered: %s" % sorted(classes))
    if not any(c["p"]["tail"] > 0 for c in cases) or not any(c["p"]["junk"] > 0 for c in cases):
        raise vlib.ToolError("no placement with trailing bytes / junk in reserved fields")
    ctx.extra["tpl_files_with_invalid_indices_in_padding_texels"] = sum(1 for c in cases if c["pad_bad"] > 0)
    ctx.extra["files_with_trailing_bytes"] = sum(1 for c in cases if c["p"]["tail"] > 0)
    ctx.extra["files_with_shrinking_payload_at_end_of_file"] = sum(1 for c in cases if c["shrink_eof"])
    ctx.extra["files_with_a_texture_of_65536_texels_or_more"] = sum(1 for c in cases if c["max_texels"] >= 65536)
    cpath = ctx.path("cases.ndjson")
    vlib.write_ndjson(cpath, cases)
    reads = 0
    traces = {}
    for prof in ("release", "checked"):
        res, traces[prof] = _readers(ctx, bins[prof], prof, cases, cpath)
        reads += _judge(ctx, prof, cases, res)
        ctx.extra["prefix_outcomes_%s" % prof] = {
            "ok": sum(x.get("ok_prefixes", 0) for x in res), "err": sum(x.get("err_prefixes", 0) for x in res)}
    ctx.traces += reads
    ctx.evaluations += reads
    ctx.nontrivial += 2 * sum(1 for c in cases if c["v"])
    ctx.sample({"generated_case": tc.slim(cases[len(cases) // 2], keep=40)})
    # 3. impl -> spec
    events = _validate(ctx, traces["release"], cases, "release")
    with open(traces["release"], "rb") as a, open(traces["checked"], "rb") as b:
        same = a.read() == b.read()
    if not same:
        events += _validate(ctx, traces["checked"], cases, "checked")
    ctx.traces += len(events)
    ctx.evaluations += sum(len(o["pixels"]) // 4 for e in events for o in e["out"])
    if events:
        ctx.sample({"recorded_reading": tc.slim({"id": events[-1]["id"], "out": [tc.slim(o) for o in events[-1]["out"]]})})
    ctx.extra["files"] = len(cases)
    ctx.extra["file_sizes"] = {"min": min(len(c["file"]) for c in cases), "max": max(len(c["file"]) for c in cases)}
    ctx.extra["reads_total_both_profiles"] = reads
    ctx.extra["reader_outputs_validated_by_tlc"] = len(events)
    ctx.extra["profiles_identical"] = same
    ctx.exhaustive = True
    ctx.assumptions += [
        "bounded model: %d texture lists for the 3DS containers / %d for TPL (0..6 textures, all nine 3DS formats / CI8 palette "
        "images; mixed lists and same-shape lists that differ in content only; names of 0..257%s stored bytes with a "
        "multi-byte character straddling offsets 32/64/128/256) x %d placements (CTPK+BCH+CGFX) / %d (TPL)"
        % (l3, lt, "" if ctx.quick() else " and 700", p3, pt),
        "layouts follow the documented formats where documented and otherwise the de-facto layout the readers walk; CGFX "
        "self-relative offsets point forwards; BCH compatibility byte 7 or 0x22; BCH / CGFX names are UTF-8, CTPK names Shift-JIS",
        "a TPL texture's payload is its image data: cutting only the palette leaves the outcome open",
        "don't-care bytes are filled adversarially: padding texels of palette images outside the crop (0xFF, first invalid index, "
        "any byte), gaps and trailing bytes (filler byte), reserved fields (junk byte); the expected reading does not depend on them",
        "freedom from panic / abort / hang / runaway allocation is observed on the generated files and all their prefixes, not proved",
        "the statement demands no magic check of CTPK: none is exercised",
        "L4 / A4 (not named by the pixel statement): carried by the containers with the readers' de-facto payload size (L4 4 bits, "
        "A4 one byte per texel), pixel content unconstrained",
        "a sample of the files (first placement of every list, <= 8 KiB) is also written into a LayeredFilesystem (FE14, plain and "
        ".lz name) and read back with read_{ctpk,bch,cgfx,tpl}_textures; the name-keyed map is validated by TLC (MapReadOK)",
    ]


def replay(ctx, rp):
    d = rp["detail"]
    prof = d.get("profile", "release")
    binary = ctx.build(prof, "mvh_tex")
    cases = [d["case"]]
    cpath = ctx.path("one.ndjson")
    vlib.write_ndjson(cpath, cases)
    res, tpath = _readers(ctx, binary, prof, cases, cpath)
    print(res)
    _judge(ctx, prof, cases, res)
    _validate(ctx, tpath, cases, prof)
