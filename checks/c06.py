"""C06 — text archive round trip preserves title, key order and every message (spec/TextFormat.tla over BinFormat.tla)."""
import vlib

LEVEL = "model_checking"
CLAUSES = {1: "reference bin-archive parser rejects mila's image", 2: "reference text walk of mila's image differs from the value",
           3: "mila's re-parse differs from the value", 4: "image differs from the specification image", 8: "mila failed to serialize or re-parse",
           9: "harness produced duplicate keys"}


def run(ctx):
    ctx.rule = ("TLC enumerates text archive values entry by entry (titles of length 0/1/3/4, keys incl. a two-byte one, messages of every "
                "encoded length modulo 4, BOM-like and astral first characters) in all 4 format x endianness configurations and derives the file "
                "image; mila builds the same value through its API, must produce exactly that image and parse it back. Random archives "
                "(all of Unicode / lossless Shift-JIS) recorded from mila are validated by TLC's reference reader. Non-trivial = value with >= 1 entry.")
    binary = ctx.build("release", "mvh_text")
    env = {"VERIF_TIER": ctx.tier}
    r = ctx.tlc("MC_TextFormat", "MC_TextFormat.cfg", env=env, coverage=True, workers=6)
    ctx.require_coverage(r, ["Configure", "AddEntry"])
    g = ctx.tlc("MC_TextFormat", "Gen_TextFormat.cfg", env=env, count=False, workers=6)
    cases = g.tagged("G")
    if not cases:
        raise vlib.ToolError("generator produced no cases")
    cpath, opath = ctx.path("cases.ndjson"), ctx.path("out.ndjson")
    vlib.write_ndjson(cpath, cases)
    ctx.harness(binary, ["format-replay", cpath, opath])
    out = vlib.read_ndjson(opath)
    # the overflow-checked build must behave the same (a panic that only it shows is a violation)
    opath_c = ctx.path("out_checked.ndjson")
    ctx.harness(ctx.build("checked", "mvh_text"), ["format-replay", cpath, opath_c])
    out += [dict(o, profile="checked") for o in vlib.read_ndjson(opath_c) if o["kind"] == "mismatch"]
    unb = [o for o in out if o["kind"] == "unbuildable"]
    ninfo = sum(1 for o in out if o["kind"] == "info")
    for o in out:
        if o["kind"] == "mismatch":
            fu = o.get("first_units", [])
            bom = "bom-like-first-unit" if any(u in (65279, 65534, 48111) for u in fu) else ""
            ctx.violation({"dir": "spec->impl", "what": o["what"], "fmt": o["fmt"], "bom": bom, "why": o["why"][:160]}, o)
    ctx.traces += len(cases)
    ctx.evaluations += len(cases)
    ctx.nontrivial += sum(1 for c in cases if c["entries"])
    ctx.sample({"generated_case": cases[len(cases) // 2]})
    n, maxe = ctx.pick((200, 30), (1500, 200))
    tpath = ctx.path("trace.ndjson")
    ctx.harness(binary, ["format-record", tpath, str(n), str(maxe)])
    # the images mila produced for the generated values are validated structurally by TLC as well
    events = vlib.read_ndjson(opath + ".events") + vlib.read_ndjson(tpath)
    vlib.write_ndjson(tpath, events)
    t = ctx.tlc("Trace_TextFormat", env={"TRACE": tpath}, workers=1, count=False, deque=True, timeout=3000)
    rep = t.tagged("R")
    if len(rep) != 1 or rep[0]["n"] != len(events):
        raise vlib.ToolError("trace not consumed: %s" % rep)
    for i, k in rep[0]["bad"]:
        ev = events[i - 1]
        if k == 9:
            raise vlib.ToolError("harness produced duplicate keys")
        if k == 4:      # byte image differs from the specification image: not demanded by the statement
            ninfo += 1
            continue
        fu = [kv[1][0] for kv in ev.get("entries", []) if kv[1]]
        bom = "bom-like-first-unit" if ev.get("fmt") == "unicode" and any(u in (65279, 65534, 48111) for u in fu) else ""
        ctx.violation({"dir": "impl->spec", "clause": CLAUSES[k], "fmt": ev.get("fmt"), "bom": bom, "why": ev.get("why", "")[:160]},
                      {"index": i, "event": ev})
    ctx.traces += len(events)
    ctx.evaluations += len(events)
    ctx.nontrivial += sum(1 for e in events if e.get("entries"))
    ctx.sample({"recorded_event": {k: events[1][k] for k in ("fmt", "endian", "title", "entries") if k in events[1]}})
    ctx.extra.update({"generated_values": len(cases), "recorded_archives": len(events), "informational_mismatches": ninfo})
    if ninfo:
        print("NOTE (beyond the property statement): %d serialized images differ from the specification's canonical image "
              "(layout is otherwise conforming and reads back correctly)" % ninfo)
    ctx.exhaustive = True
    ctx.assumptions += ["bounded enumeration: <= %d entries, curated titles/keys/messages; random archives beyond" % (2 if ctx.quick() else 3),
                        "messages avoid the two-character sequence backslash,n (set_message would turn it into a newline: that is C07)",
                        "encoding_rs Shift-JIS / str::encode_utf16 conversions in the harness are trusted"]
    if unb and not ctx.viol:
        raise vlib.ToolError("harness could not build %d cases: %s" % (len(unb), unb[0]["why"]))


def replay(ctx, rp):
    d = rp["detail"]
    if "case" in d:
        binary = ctx.build("release", "mvh_text")
        cpath, opath = ctx.path("c.ndjson"), ctx.path("o.ndjson")
        vlib.write_ndjson(cpath, [d["case"]])
        ctx.harness(binary, ["format-replay", cpath, opath])
        for o in vlib.read_ndjson(opath):
            print(o)
            if o["kind"] == "mismatch":
                ctx.violation(rp["sig"], d)
    else:
        print("recorded event:", str(d)[:3000])
