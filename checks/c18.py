"""C18 — asset-binary round trip over all 51 optional fields.  spec/AssetBinary.tla (one field table drives
Flags, Extended, RecordSize, AssetContent, RefParseAsset); MC_AssetBinary (laws) -> Gen_AssetBinary (value,
expected re-read value, expected archive content and file image) -> `mvh_cont asset-replay`;
`mvh_cont asset-record` (random values, AssetBinary_Test.bin) -> Trace_AssetBinary."""
import cont_common as cc

LEVEL = "model_checking"


def _present(s):
    return sorted(k for k, x in s["f"].items() if x["some"])


def _case(c):
    v = c["value"]
    return {"specs": len(v["specs"]), "present": [_present(s) if len(_present(s)) <= 4 else len(_present(s)) for s in v["specs"]][:3],
            "flags": v["flags"]}


def _event(e):
    v = e["value"]
    return {"specs": len(v["specs"]), "present_counts": [len(_present(s)) for s in v["specs"]][:8]}


def run(ctx):
    ctx.rule = ("MC: all-absent, all-present, every single field (both with zero and with junk in the absent typed fields), "
                "every PAIR of the 51 fields (1275), every field removed from all-present, short-only / extended-only "
                "halves, names absent/''/ASCII/2-byte, three header flag words, lists of 0..3 specs; thorough adds seeded "
                "pseudo-random presence sets (sparse/half/dense). spec->impl: AssetBinary built from the value, serialize(); "
                "archive content of the image = AssetContent(value), image = BinFormat!Canon(content), re-read fields = "
                "value (absent fields don't-care), second serialization = first. impl->spec: seeded random values (random "
                "presence, random bits incl. NaN payloads, junk in absent fields) and AssetBinary_Test.bin validated by "
                "TLC; plus a rule-built large value (1 930 specs x 34 strings = 65 620 string cells) whose header totals TLC "
                "derives from the rule and the field table; everything under the release and the checked build. Non-trivial = at least one spec with a present optional field.")
    binary = ctx.build("release", "mvh_cont")
    runs, max_specs = ctx.pick((300, 6), (3000, 8))
    cc.round_trip_check(ctx, "C18", binary, "MC_AssetBinary", "Gen_AssetBinary.cfg", "Trace_AssetBinary", "asset",
                        ["PickBucket", "PickValue"], ["PickSeed", "StepSeed"], [runs, max_specs, "big"],
                        _case, _event,
                        lambda c: any(_present(s) for s in c["value"]["specs"]),
                        lambda e: any(_present(s) for s in e["value"]["specs"]))
    ctx.assumptions += ["the rule-built large value travels as (rule, image header, round-trip flags): TLC decides the header totals "
                        "from the rule and the field table (BigRuleLaw ties the rule to AssetContent on small instances)",
                        "2^51 presence combinations are not exhausted: singles, pairs, all-but-one, halves exhaustively, the "
                        "rest by seeded sampling",
                        "the value of an ABSENT typed field is don't-care (it has no representation in the file)",
                        "the container image is specified by spec/BinFormat.tla (C01/C02); byte-exact comparison with "
                        "BinFormat!Canon is made for contents with <= 48 strings, larger ones are compared as archive content",
                        "the harness maps field NAMES of the specification's table to struct fields; bit, order and width "
                        "come from the table only",
                        "every compared parse is preceded, on the same thread, by failing parses of truncated copies of the same image (a parse result must depend on the image alone)",
                        "names are taken from the lossless Shift-JIS domain; the codec (encoding_rs) is trusted; names include 63/64/65 and 127/128/129-byte ones with a double-byte character across offsets 64 and 128"]


def replay(ctx, rp):
    cc.round_trip_replay(ctx, rp, ctx.build("release", "mvh_cont"), "asset")
