"""C15 — GameCube/Wii pack archive: build -> parse is identity, layout is aligned, the parser accepts any
conforming layout.  spec/Fe9Pack.tla (CanonPack, LayoutImage, WellFormedPack, RefParsePack);
MC_Fe9Pack (laws, exhaustive over the bounded scope) -> Gen_Fe9Pack -> `mvh_cont pack-replay`;
`mvh_cont pack-record` -> Trace_Fe9Pack.

What is demanded of the image mila's builder emits is exactly what the statement lists, decided by TLC on mila's
bytes (Trace_Fe9Pack): count exact, every recorded name terminated inside the file and equal to the key, file
offsets/sizes exact and inside the file, every body address % 32 = 0, reference parse = value in order, and
mila's own parse of it = value.  Where names sit, how they are padded and whether the file ends on a 32-byte
boundary are open; a byte difference from the specification's CanonPack(v) is reported as a NOTE only."""
import vlib
import cont_common as cc

LEVEL = "model_checking"
NOTE_LIMIT = 3


def _report(ctx, cases, mism, profile="release"):
    for o in mism:
        c = cases[o["i"]]
        one = {"v": c["v"], "canon": c["canon"], "layouts": [o["image"]] if o["what"] == "parse-layout" else []}
        ctx.violation({"dir": "spec->impl", "profile": profile, "what": o["what"], "files": len(c["v"]),
                       "lens": [len(f[1]) for f in c["v"]][:12], "got": cc.shrink(o["got"], 300)},
                      {"case": one, "got": cc.shrink(o["got"])})


def _informational(ctx, cases, out_path):
    """Byte differences between serialize() and CanonPack(v): information, never a violation."""
    for o in vlib.read_ndjson(out_path):
        if o["kind"] != "info":
            continue
        n = ctx.extra["informational_mismatches"] = ctx.extra.get("informational_mismatches", 0) + 1
        if n <= NOTE_LIMIT:
            c = cases[o["i"]]
            print("NOTE (beyond the property statement): serialize() image (%d bytes) differs from the specification's "
                  "CanonPack (%d bytes) for %d file(s) with body lengths %s; the image itself is judged by the statement's "
                  "conditions only" % (o["got_len"], o["canon_len"], len(c["v"]), [len(f[1]) for f in c["v"]][:8]), flush=True)


def _replay(ctx, binary, cases, stem, profile):
    """replay generated cases; returns the events (mila's serialized images) for the trace validator"""
    summ, mism, unb = cc.replay(ctx, binary, "pack-replay", cases, stem)
    _report(ctx, cases, mism, profile)
    opath = ctx.path(stem + "_out.ndjson")
    if profile == "release":
        _informational(ctx, cases, opath)
    events = vlib.read_ndjson(opath + ".events")
    if len(events) != len(cases) - len(unb):
        raise vlib.ToolError("replay logged %d images for %d cases" % (len(events), len(cases)))
    for e in events:
        e["profile"] = profile
    return summ, unb, events


def _validate(ctx, events):
    tpath = ctx.path("pack_trace.ndjson")
    vlib.write_ndjson(tpath, events)
    rep = cc.validate(ctx, "Trace_Fe9Pack", tpath, len(events))
    for b in rep["bad"]:
        i, ev = b["i"], events[b["i"] - 1]
        small = len(ev["bytes"]) <= 20000
        detail = {"index": i, "event": ev if small else {"files": len(ev["value"]), "ser": ev["ser"]}}
        if ev["src"] == "replay":
            detail["case"] = {"v": ev["value"], "canon": [], "layouts": []}
        ctx.violation({"dir": "impl->spec", "src": ev["src"], "profile": ev.get("profile", "release"), "failed": b["why"],
                       "files": len(ev["value"]) or len(ev.get("lens", [])), "body_lengths": ev.get("lens"), "ser": ev["ser"][:200], "lens": [len(f[1]) for f in ev["value"]][:12]}, detail)


def run(ctx):
    ctx.rule = ("MC: every ordered value of 0..3 files (names '', ASCII, 2-byte Shift-JIS incl. trail byte 0x5C; body "
                "lengths 0,1,31,32,33,64) and every placement in scope (all orders of names/bodies for <=2 files, curated "
                "for 3, gaps/fill/tail variants; thorough: all 720 orders and seeded pseudo-random 4..8 files); "
                "spec->impl: parse of the canonical image and of every re-arranged image compared with the value (order "
                "included), parse(serialize(v)) compared with v; impl->spec: serialize(v) of every generated value and of "
                "seeded random maps up to 300 files (lengths around multiples of 32, Shift-JIS names) and of maps with 255/256/257, "
                "4095/4096/4097, 20 000, 65 534 and 65 535 mostly empty files (the upper edge of the quantifier; quick validates "
                "every entry's structure and a sample of names/bodies, thorough everything), every empty/non-empty pattern over 1..5 files, "
                "and rule-built packs whose bodies cross 2^24 / 2^25 bytes (TLC decides sizes, alignment, containment, "
                "non-overlap and sampled body bytes from the lengths), under the release and the checked build, validated by TLC with "
                "the statement's conditions (well-formed, exact, 32-aligned bodies, reference parse = value). "
                "Non-trivial = image holding at least one file.")
    binary = ctx.build("release", "mvh_cont")
    actions = ["PickValue", "PickLayout"] + ([] if ctx.quick() else ["PickAllOrders", "PickSeed", "StepSeed"])
    cc.model_check(ctx, "MC_Fe9Pack", actions)
    # spec -> impl (reader) and collection of the builder's images
    cases = cc.generate(ctx, "MC_Fe9Pack", "Gen_Fe9Pack.cfg")
    summ, unb, events = _replay(ctx, binary, cases, "pack", "release")
    # the overflow-checked build in both tiers: release wraps where checked panics
    checked = ctx.build("checked", "mvh_cont")
    summ_c, unb_c, events_c = _replay(ctx, checked, cases, "pack_checked", "checked")
    events += events_c
    ctx.traces += summ_c["images"]
    ctx.extra["checked_profile_replayed"] = summ_c["cases"]
    n_replay_events = len(events)
    ctx.traces += summ["images"]
    ctx.evaluations += summ["images"] + summ["cases"]
    ctx.nontrivial += sum(1 + len(c["layouts"]) for c in cases if c["v"])
    mid = cases[len(cases) // 2]
    ctx.sample({"replayed_value": mid["v"], "canon_len": len(mid["canon"]), "layouts": len(mid["layouts"])})
    ctx.extra["generated_values"] = len(cases)
    ctx.extra["images_parsed"] = summ["images"]
    ctx.extra.setdefault("informational_mismatches", 0)
    # impl -> spec: the builder's images of the generated values and of random maps, judged by TLC
    runs, max_files = ctx.pick((60, 300), (3000, 300))
    recorded = []
    for profile, b, seed_shift in (("release", binary, 0), ("checked", checked, 7919)):
        rpath = ctx.path("pack_record_%s.ndjson" % profile)
        # upper edge of the quantifier (65 534 / 65 535 files): sampled validation in quick, full in thorough
        flags = ["bounds", "bytes"] + ([] if profile == "checked" else ["edge" if ctx.quick() else "edge-full"])
        flags += [] if ctx.quick() or profile == "checked" else ["big"]
        ctx.harness(b, ["pack-record", rpath, str(runs // 2), str(max_files)] + flags, env={"VERIF_SEED": str(ctx.seed + seed_shift)})
        for e in vlib.read_ndjson(rpath):
            e["profile"] = profile
            recorded.append(e)
    events += recorded
    _validate(ctx, events)
    for e in recorded:
        if e["mode"] == "beyond":
            ctx.extra["beyond_the_quantifier_%d_files" % e["files"]] = e["outcome"]
            print("NOTE (beyond the property statement): %d files (more than the statement's 65535): %s" % (e["files"], e["outcome"]), flush=True)
    ctx.traces += len(events)
    ctx.evaluations += len(events)
    ctx.nontrivial += sum(1 for e in recorded if e["value"])
    ctx.sample({"recorded_files_per_event": [len(e["value"]) for e in recorded[:12]]})
    ctx.extra["validated_images_of_generated_values"] = n_replay_events
    ctx.extra["recorded_events"] = len(recorded)
    ctx.extra["max_files_recorded"] = max(len(e["value"]) for e in recorded)
    ctx.exhaustive = True
    ctx.assumptions += ["bounded model: 0..3 files exhaustively (see rule); larger archives only by seeded sampling",
                        "every compared parse is preceded, on the same thread, by failing parses of truncated copies of the same image (a parse result must depend on the image alone)",
                        "names are taken from the lossless Shift-JIS domain; the codec (encoding_rs) is trusted; names include 63/64/65 and 127/128/129-byte ones with a double-byte character across offsets 64 and 128, single-byte and double-byte names of 255/256/257, 300 and 1000 bytes, and half-width katakana names whose Shift-JIS bytes are also well-formed UTF-8",
                        "placement and padding of names, and trailing padding of the file, are not demanded of the builder "
                        "(byte differences from CanonPack are counted in informational_mismatches only)",
                        "of the packs with > 2^24 bytes of bodies only the entry table, the names and the first / last 32 bytes of every "
                        "body (in the image and as parsed) reach TLC; full equality parse = value is computed on the Rust values",
                        "a wrong magic / oversized fields are C05, not exercised here"]
    cc.finish_unbuildable(ctx, unb)


def replay(ctx, rp):
    binary = ctx.build(rp["sig"].get("profile", "release") if rp["sig"].get("profile") in ("release", "checked") else "release", "mvh_cont")
    d = rp["detail"]
    if "case" in d:
        summ, unb, events = _replay(ctx, binary, [d["case"]], "pack", rp["sig"].get("profile", "release"))
        _validate(ctx, events)
    else:
        print("recorded event (re-run ./check C15 --tier %s --seed %s to reproduce): files=%s" %
              (rp.get("tier"), rp.get("seed"), rp["sig"].get("files")))
