"""C15 — GameCube/Wii pack archive: build -> parse is identity, layout is aligned, the parser accepts any
conforming layout.  spec/Fe9Pack.tla (CanonPack, LayoutImage, WellFormedPack, RefParsePack);
MC_Fe9Pack (laws, exhaustive over the bounded scope) -> Gen_Fe9Pack -> `mvh_cont pack-replay`;
`mvh_cont pack-record` -> Trace_Fe9Pack."""
import vlib
import cont_common as cc

LEVEL = "model_checking"


def _report(ctx, cases, mism, profile="release"):
    for o in mism:
        c = cases[o["i"]]
        img = o.get("image", o.get("expected"))
        one = {"v": c["v"], "canon": c["canon"], "layouts": [img] if o["what"] == "parse-layout" else []}
        ctx.violation({"dir": "spec->impl", "profile": profile, "what": o["what"], "files": len(c["v"]),
                       "lens": [len(f[1]) for f in c["v"]][:12], "got": cc.shrink(o["got"], 300)},
                      {"case": one, "got": cc.shrink(o["got"])})


def run(ctx):
    ctx.rule = ("MC: every ordered value of 0..3 files (names '', ASCII, 2-byte Shift-JIS incl. trail byte 0x5C; body "
                "lengths 0,1,31,32,33,64) and every placement in scope (all orders of names/bodies for <=2 files, curated "
                "for 3, gaps/fill/tail variants; thorough: all 720 orders and seeded pseudo-random 4..8 files); "
                "spec->impl: serialize compared byte-exact with CanonPack, parse of every image compared with the value; "
                "impl->spec: seeded random maps up to 300 files (lengths around multiples of 32, Shift-JIS names) "
                "validated by the TLA+ reference reader. Non-trivial = image holding at least one file.")
    binary = ctx.build("release", "mvh_cont")
    actions = ["PickValue", "PickLayout"] + ([] if ctx.quick() else ["PickAllOrders", "PickSeed", "StepSeed"])
    cc.model_check(ctx, "MC_Fe9Pack", actions)
    # spec -> impl
    cases = cc.generate(ctx, "MC_Fe9Pack", "Gen_Fe9Pack.cfg")
    summ, mism, unb = cc.replay(ctx, binary, "pack-replay", cases, "pack")
    _report(ctx, cases, mism)
    _report(ctx, cases, cc.replay_checked(ctx, "pack-replay", cases, "pack"), profile="checked")
    ctx.traces += summ["images"] + summ["cases"]
    ctx.evaluations += summ["images"] + 2 * summ["cases"]
    ctx.nontrivial += sum(1 + len(c["layouts"]) for c in cases if c["v"])
    mid = cases[len(cases) // 2]
    ctx.sample({"replayed_value": mid["v"], "canon_len": len(mid["canon"]), "layouts": len(mid["layouts"])})
    ctx.extra["generated_values"] = len(cases)
    ctx.extra["images_parsed"] = summ["images"]
    # impl -> spec
    runs, max_files = ctx.pick((60, 300), (3000, 300))
    tpath = ctx.path("pack_trace.ndjson")
    ctx.harness(binary, ["pack-record", tpath, str(runs), str(max_files)] + ([] if ctx.quick() else ["big"]))
    events = vlib.read_ndjson(tpath)
    rep = cc.validate(ctx, "Trace_Fe9Pack", tpath, len(events))
    for b in rep["bad"]:
        i, ev = b["i"], events[b["i"] - 1]
        small = len(ev["bytes"]) <= 20000
        ctx.violation({"dir": "impl->spec", "failed": b["why"], "files": len(ev["value"]), "ser": ev["ser"][:200],
                       "lens": [len(f[1]) for f in ev["value"]][:12]},
                      {"index": i, "event": ev if small else {"files": len(ev["value"]), "ser": ev["ser"]}})
    ctx.traces += len(events)
    ctx.evaluations += len(events)
    ctx.nontrivial += sum(1 for e in events if e["value"])
    ctx.sample({"recorded_files_per_event": [len(e["value"]) for e in events[:12]]})
    ctx.extra["recorded_events"] = len(events)
    ctx.extra["max_files_recorded"] = max(len(e["value"]) for e in events)
    ctx.exhaustive = True
    ctx.assumptions += ["bounded model: 0..3 files exhaustively (see rule); larger archives only by seeded sampling",
                        "names are taken from the lossless Shift-JIS domain; the codec (encoding_rs) is trusted",
                        "byte-exact comparison of serialize() with CanonPack relies on the repository's golden test "
                        "pinning where the zero padding goes (the statement fixes everything else)",
                        "a wrong magic / oversized fields are C05, not exercised here"]
    cc.finish_unbuildable(ctx, unb)


def replay(ctx, rp):
    binary = ctx.build("release", "mvh_cont")
    d = rp["detail"]
    if "case" in d:
        summ, mism, unb = cc.replay(ctx, binary, "pack-replay", [d["case"]], "pack")
        for o in mism:
            print(o["what"], "got:", str(o["got"])[:400])
        if mism:
            ctx.violation(rp["sig"], d)
    else:
        print("recorded event (re-run ./check C15 --tier %s --seed %s to reproduce): files=%s" %
              (rp.get("tier"), rp.get("seed"), rp["sig"].get("files")))
