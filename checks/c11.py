"""C11 — decompression is correct on every conforming stream and errors on the rest.
spec->impl: Gen_LZ (TLC enumerates token sequences at the real encodings, encodes them, derives malformed and
statement-silent variants, classifies each stream per entry point with the decoder machine) replayed into
LZ10 / LZ13 / CompressionFormat::decompress in an isolated worker under both profiles.
impl->spec: corruptions of valid streams and random bytes through the same entry points, validated by Trace_LZ.
Model: MC_LZ (decoder machine, every stream variant, exhaustive at scaled constants)."""
import json
import c08
import vlib

LEVEL = "model_checking"
PROFILES = ["release", "checked"]


def gen_cases(ctx, bins):
    # seeded random token sequences (choice of tokens only); TLC encodes them and computes the expansion
    tpath = ctx.path("tokens.ndjson")
    ctx.harness(bins["release"], ["tokgen", tpath])
    g = ctx.tlc("Gen_LZ", "Gen_LZ.cfg", env={"VERIF_TIER": ctx.tier, "TOKENS": tpath}, workers=6, count=False,
                timeout=ctx.pick(600, 3000))
    if g.tagged_raw("X"):
        raise vlib.ToolError("generator self-check failed: %s" % g.tagged_raw("X")[0][:300])
    cases, seen = [], set()
    for c in g.tagged("G"):
        if len(c["stream"]) <= 64:      # short streams recur (shared prefixes, fixed family): keep one copy
            key = (tuple(c["stream"]), json.dumps(c["entries"]))
            if key in seen:
                continue
            seen.add(key)
        cases.append(c)
    g.out = ""
    if not cases:
        raise vlib.ToolError("generator produced no cases")
    return cases


def replay_cases(ctx, bins, cases, tag):
    cpath = ctx.path("gen_%s.ndjson" % tag)
    vlib.write_ndjson(cpath, cases)
    flat = [(ci, e) for ci, c in enumerate(cases) for e in c["entries"]]
    n_bad = 0
    for p in PROFILES:
        opath = ctx.path("deccmp_%s_%s.ndjson" % (tag, p))
        res = ctx.isolated(bins[p], ["deccmp", cpath, opath], len(flat), opath, per_case_timeout=ctx.pick(20.0, 60.0))
        if len(res) != len(flat):
            raise vlib.ToolError("isolated run returned %d results for %d cases" % (len(res), len(flat)))
        for r in res:
            ci, ent = flat[r["i"]]
            c = cases[ci]
            if "outcome" in r:
                got = {"kind": r["outcome"], "msg": (r.get("stderr") or "")[-160:], "got_len": 0, "got_head": []}
            elif r["conforms"]:
                continue
            else:
                got = {k: r[k] for k in ("kind", "msg", "got_len", "got_head")}
            n_bad += 1
            ctx.violation({"dir": "spec->impl", "entry": ent[0], "cls": ent[1], "why": ent[2], "fam": c["fam"], "var": c["var"], "fmt": c["fmt"],
                           "got": got["kind"], "msg": got["msg"][:100], "profile": p},
                          {"case": c, "entry": ent, "got": got, "profile": p})
    return len(flat), n_bad


def big_streams(ctx, bins):
    """Rule-built literal-only streams of 2^16..2^20 bytes (and truncations) through the 4 entry points, both profiles.
    One event per stream and profile: {stream, pat, n, results}; TLC decides with the closed form LZ!LitClassify."""
    cpath = ctx.path("bigdec_cases.ndjson")
    ctx.harness(bins["release"], ["bigdecgen", cpath])
    bcases = vlib.read_ndjson(cpath)
    events, seen = [], {}
    for p in PROFILES:
        opath = ctx.path("bigdec_%s.ndjson" % p)
        res = ctx.isolated(bins[p], ["bigdec", cpath, opath], len(bcases), opath, per_case_timeout=ctx.pick(30.0, 90.0))
        if len(res) != len(bcases):
            raise vlib.ToolError("isolated run returned %d results for %d cases" % (len(res), len(bcases)))
        groups = {}
        for r in res:
            c = bcases[r["i"]]
            k = (c["form"], c["n"], c["cut"])
            g = groups.setdefault(k, {"kind": "bigdec", "form": c["form"], "pat": c["pat"], "n": c["n"], "cut": c["cut"],
                                      "stream": None, "results": []})
            if "outcome" in r:
                rr = {"kind": r["outcome"], "same": False, "len": 0, "msg": (r.get("stderr") or "")[-160:]}
            else:
                rr = r["res"]
                if r["stream"]:
                    g["stream"] = r["stream"]
            g["results"].append({"entry": c["entry"], "res": rr})
        for k, g in groups.items():
            sk = json.dumps([k, [[x["entry"], x["res"]["kind"], x["res"]["same"]] for x in g["results"]]])
            if sk in seen:
                seen[sk]["profiles"].append(p)
                continue
            if g["stream"] is None:
                # the worker died on the first entry point: take the bytes from the other profile's run if it has them
                other = [e for e in events if (e["form"], e["n"], e["cut"]) == k]
                if not other:
                    raise vlib.ToolError("no stream bytes recorded for %s" % (k,))
                g["stream"] = other[0]["stream"]
            g["profiles"] = [p]
            seen[sk] = g
            events.append(g)
    return bcases, events


def fuzz(ctx, bins, cases, extra_events=()):
    seeds = [{"stream": c["stream"]} for c in cases if c["var"] in ("exact", "wrapped") and 4 < len(c["stream"]) <= 400]
    spath, fpath = ctx.path("seeds.ndjson"), ctx.path("fuzz.ndjson")
    vlib.write_ndjson(spath, seeds[:: max(1, len(seeds) // 400)])
    ctx.harness(bins["release"], ["fuzzgen", spath, fpath])
    fcases = vlib.read_ndjson(fpath)
    events, seen = [], {}
    for p in PROFILES:
        opath = ctx.path("declog_%s.ndjson" % p)
        res = ctx.isolated(bins[p], ["declog", fpath, opath], len(fcases), opath, per_case_timeout=ctx.pick(20.0, 60.0))
        if len(res) != len(fcases):
            raise vlib.ToolError("isolated run returned %d results for %d cases" % (len(res), len(fcases)))
        for r in res:
            c = fcases[r["i"]]
            if "outcome" in r:
                ev = {"kind": "dec", "entry": c["entry"], "tag": c["tag"], "stream": c["stream"], "res": c08.synth(r)}
            else:
                ev = {k: r[k] for k in ("kind", "entry", "tag", "stream", "res")}
            key = json.dumps([ev["entry"], ev["stream"], ev["res"]["kind"], ev["res"]["out"], ev["res"]["alloc"]])
            if key in seen:
                seen[key]["profiles"].append(p)
            else:
                ev["profiles"] = [p]
                seen[key] = ev
                events.append(ev)
    n_fuzz = len(events)
    events = events + list(extra_events)
    bad, rep = c08.trace_check(ctx, events, "fuzz")
    for i in bad:
        ev = events[i]
        if ev["kind"] == "bigdec":
            wrong = [x for x in ev["results"] if x["res"]["kind"] not in ("ok", "err") or
                     (x["res"]["kind"] == "ok" and not x["res"]["same"])] or ev["results"]
            ctx.violation({"dir": "impl->spec", "entry": wrong[0]["entry"], "tag": "bigdec-%s-cut%d" % (ev["form"], ev["cut"]),
                           "got": wrong[0]["res"]["kind"], "msg": wrong[0]["res"]["msg"][:100], "stream_len": len(ev["stream"]),
                           "profiles": ev["profiles"]},
                          {"event": {k: ev[k] for k in ("kind", "form", "pat", "n", "cut", "results", "profiles")}})
            continue
        ctx.violation({"dir": "impl->spec", "entry": ev["entry"], "tag": ev["tag"], "got": ev["res"]["kind"],
                       "msg": ev["res"]["msg"][:100], "stream_len": len(ev["stream"]), "profiles": ev["profiles"]},
                      {"event": ev})
    return fcases, events[:n_fuzz], rep


def run(ctx):
    ctx.rule = ("spec->impl: every token sequence of <= %d tokens over literals {a,b} and references (length 3,4%s; displacement "
                "1,2,3,Len(out)); literal run of 6..16 + <= 2 such tokens (flag-byte boundary); literal run of %s bytes + a "
                "reference with boundary length (3,4,16,17,18,19,272,273,4096,4097,65808 within the format) and displacement "
                "{1,2,3,m-1,m,4095,4096} (+ one more token); short run + reference at every nibble roll-over of the LZ11 length "
                "field (0x21..0x8111) + literal / near / far reference; exactly 4094..4097 bytes produced + reference with every "
                "displacement produced+1..4096 and the legal edge ones; streams declaring 0xFFFF..0x10001 bytes (third header byte "
                "non-zero); LZ11 extended-size headers declaring 2^24..2^25+5 bytes with a reference before the start after 0..3 "
                "literals, or truncated (bare and wrapped; verdict open, panic not); %d seeded random token sequences (lengths log-uniform over "
                "the format's range, displacements anywhere in 1..min(produced,4096)); each as bare LZ10 / bare LZ11 / 0x13-wrapped stream, plus every "
                "truncation, a reference before the start of output at every token position, trailing byte, overshoot, wrong "
                "declared length, 32-bit header, stored form, short/unknown-type headers; each stream x 4 entry points x 2 "
                "profiles. impl->spec: seeded corruptions of valid streams and random bytes; rule-built literal-only streams of 2^16+1, "
                "2^18+1, 2^20+1 bytes (thorough: also 2^16-1, 2^16, 2^17+1, 2^18-1, 2^18, 2^19+1) as LZ10 / LZ11 / wrapped, whole and cut by 1 and 9 bytes, "
                "judged by the closed form LitClassify. Non-trivial = case whose token "
                "sequence has a reference or whose stream is a malformed/silent variant (spec->impl); event whose class is "
                "not a header-level rejection (impl->spec)."
                % (ctx.pick(4, 5), "", ctx.pick("1,3,17,4096", "1..4,15..18,272,273,4095..4097"), ctx.pick(80, 600)))
    bins = {p: ctx.build(p, c08.BIN) for p in PROFILES}
    c08.model_laws(ctx)
    # spec -> impl
    cases = gen_cases(ctx, bins)
    n_flat, n_bad = replay_cases(ctx, bins, cases, "all")
    ctx.traces += n_flat * len(PROFILES)
    ctx.evaluations += n_flat * len(PROFILES)
    ctx.nontrivial += sum(len(c["entries"]) for c in cases if c["nrefs"] > 0 or c["var"] not in ("exact", "wrapped"))
    by_var = {}
    for c in cases:
        by_var[c["var"]] = by_var.get(c["var"], 0) + 1
    ctx.extra["generated_streams_by_variant"] = by_var
    by_fam = {}
    for c in cases:
        by_fam[c["fam"]] = by_fam.get(c["fam"], 0) + 1
    ctx.extra["generated_streams_by_family"] = by_fam
    for f in ("small", "group", "edge", "nibble", "window", "big", "ext", "rand", "fixed"):
        if not by_fam.get(f):
            raise vlib.ToolError("generator family %s produced no cases" % f)
    ctx.extra["generated_streams"] = len(cases)
    ctx.extra["longest_generated_expansion"] = max(len(c["expect"]) for c in cases)
    for c in cases:
        if c["fam"] == "edge" and c["var"] == "exact" and c["nrefs"] == 1 and len(c["expect"]) > 8000:
            ctx.sample({"fam": c["fam"], "fmt": c["fmt"], "var": c["var"], "stream_len": len(c["stream"]),
                        "stream_tail": c["stream"][-6:], "expect_len": len(c["expect"]), "entries": c["entries"]}, cap=3)
            break
    mid = [c for c in cases if c["var"] == "before" and c["fam"] == "small"]
    if mid:
        c = mid[len(mid) // 2]
        ctx.sample({k: c[k] for k in ("fam", "fmt", "var", "stream", "expect", "entries")})
    # impl -> spec
    bcases, bevents = big_streams(ctx, bins)
    fcases, events, rep = fuzz(ctx, bins, cases, bevents)
    ctx.traces += len(events) + len(bevents)
    ctx.evaluations += (len(fcases) + len(bcases)) * len(PROFILES)
    ctx.nontrivial += len(bevents)
    ctx.extra["big_stream_lengths"] = sorted(set(len(e["stream"]) for e in bevents))
    ctx.nontrivial += sum(v for k, v in rep["tally"].items()
                          if k not in ("dec:err:type", "dec:err:empty", "dec:err:short"))
    ctx.extra["fuzz_events_by_class"] = rep["tally"]
    ctx.extra["fuzz_cases"] = len(fcases)
    ctx.sample({"fuzz_event": {k: events[len(events) // 3][k] for k in ("entry", "tag", "stream", "res")}})
    summ = {}
    for v in ctx.viol:
        k = "%s %s %s/%s -> %s %s" % (v["dir"], v.get("fam", "-"), v.get("cls", "-"), v.get("why", v.get("tag", "-")), v["got"], v["msg"][:40])
        summ[k] = summ.get(k, 0) + 1
    if summ:
        ctx.extra["violation_summary"] = summ
        ctx.log("violation summary: %s" % json.dumps(summ, indent=1))
    ctx.exhaustive = True
    ctx.assumptions += ["freedom from panic/abort is observed on the generated and random inputs (isolated worker, both profiles), not proved",
                        "statement-silent outcomes (trailing bytes, final reference overshooting the declared length, LZ11 32-bit length "
                        "header, stored form with a length field that disagrees, the sibling format at an entry point) only demand "
                        "Ok-or-Err without panic",
                        "scaled model for MC_LZ; real constants for the generator and the trace validator"]


def replay(ctx, rp):
    d = rp["detail"]
    prof = d.get("profile") or d.get("event", {}).get("profiles", ["release"])[0]
    b = ctx.build(prof, c08.BIN)
    if "case" in d:
        c = dict(d["case"], entries=[d["entry"]])
        cpath, opath = ctx.path("c.ndjson"), ctx.path("o.ndjson")
        vlib.write_ndjson(cpath, [c])
        res = ctx.isolated(b, ["deccmp", cpath, opath], 1, opath)
        print("result now:", {k: v for k, v in res[0].items() if k != "got_head"})
        if "outcome" in res[0] or not res[0]["conforms"]:
            ctx.violation(rp["sig"], d)
    elif d["event"]["kind"] == "bigdec":
        ev = d["event"]
        cpath, opath = ctx.path("c.ndjson"), ctx.path("o.ndjson")
        vlib.write_ndjson(cpath, [{"entry": x["entry"], "form": ev["form"], "pat": ev["pat"], "n": ev["n"], "cut": ev["cut"]}
                                  for x in ev["results"]])
        res = ctx.isolated(b, ["bigdec", cpath, opath], len(ev["results"]), opath, per_case_timeout=90.0)
        for r in res:
            print("result now:", r.get("entry"), r.get("res", r.get("outcome")))
        if any("outcome" in r or r["res"]["kind"] == "panic" for r in res):
            ctx.violation(rp["sig"], d)
    else:
        ev = d["event"]
        cpath, opath = ctx.path("c.ndjson"), ctx.path("o.ndjson")
        vlib.write_ndjson(cpath, [{"entry": ev["entry"], "tag": ev["tag"], "stream": ev["stream"]}])
        res = ctx.isolated(b, ["declog", cpath, opath], 1, opath)
        r = res[0]
        e2 = dict(ev, res=c08.synth(r)) if "outcome" in r else {k: r[k] for k in ("kind", "entry", "tag", "stream", "res")}
        print("result now:", e2["res"]["kind"], e2["res"]["msg"])
        bad, _ = c08.trace_check(ctx, [e2], "replay")
        if bad:
            ctx.violation(rp["sig"], {"event": e2})
