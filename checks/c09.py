"""C09 — LZ13 compression emits a valid wrapped LZ11 stream that expands to the input; compress is total
(Ok or Err, never panic/abort) on every input including the empty one, under both arithmetic profiles.
Same machinery as C08 (spec/LZ.tla, MC_LZ, Trace_LZ) with the LZ11 constants and the 0x13 wrapper."""
import c08
import vlib  # noqa: F401

LEVEL = "model_checking"


def run(ctx):
    ctx.rule = ("MC: as C08 (the scaled LZ11 format has all three reference layouts). impl->spec: all inputs over {a,b} up "
                "to length %d and {a,b,c} up to %d, the empty input, and seeded structured inputs forcing each LZ11 length "
                "form (runs 18/19, 274/275, 4098/4099, 5000; copies of 16/17/272/273/4096/4097 bytes at distances up to "
                "4097), compressed by the real LZ13 compressor (LZ13CompressionFormat and CompressionFormat::LZ13) in an isolated worker under BOTH profiles (release = "
                "wrapping, checked = overflow checks); wrapper byte 0 = 0x13, then the TLA+ decoder machine (LZ11, real "
                "constants) from offset 4. Non-trivial = event whose stream made the decoder take >= 1 BackRef step "
                "(counted by TLC)." % (ctx.pick(11, 14), ctx.pick(7, 9)))
    profiles = ["release", "checked"]
    for p in profiles:
        ctx.build(p, c08.BIN)
    c08.model_laws(ctx)
    events = c08.check_comp(ctx, "lz13", profiles)
    empty = [e for e in events if e["kind"] == "comp" and len(e["input"]) == 0]
    ctx.sample({"empty_input": [{"profiles": e["profiles"], "res": e["res"]["kind"], "stream": e["res"]["out"]} for e in empty]})
    ctx.exhaustive = True
    ctx.assumptions += ["inputs listed byte by byte up to %d bytes; beyond that (up to 16 MiB - 1) only generator-described periodic inputs "
                        "(runs and short periods around 64 KiB and around the longest LZ11 reference, period 4096 up to 16 MiB - 1), "
                        "judged by the validating decoder" % ctx.extra["largest_listed_input"],
                        "freedom from panic/abort is observed on the explored inputs (isolated worker, watchdog), not proved",
                        "scaled model: W=6, lengths 3..4 | 5..6 | 7..8 in the 2/3/4-byte layouts (LZ11s)"]


def replay(ctx, rp):
    c08.replay_comp(ctx, rp)
