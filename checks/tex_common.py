"""Shared orchestration helpers for the texture checks (C19, C20). No decoding rule lives here."""
import json

import vlib

TLC_WORKERS = 6          # never more than 6 TLC workers at a time


def both_profiles(ctx, binary="mvh_tex"):
    """Build the harness under both arithmetic regimes: {"release": path, "checked": path}."""
    return {"release": ctx.build("release", binary), "checked": ctx.build("checked", binary)}


def laws(ctx, module, min_states):
    """Exhaustive TLC run of the laws of a module; the number of law cases is the vacuity guard."""
    r = ctx.tlc(module, module + ".cfg", env={"VERIF_TIER": ctx.tier}, workers=TLC_WORKERS)
    if r.distinct < min_states:
        raise vlib.ToolError("%s: only %d states, expected at least %d law cases" % (module, r.distinct, min_states))
    return r


def generate(ctx, module, cfg, workers=TLC_WORKERS):
    return ctx.tlc(module, cfg, env={"VERIF_TIER": ctx.tier}, workers=workers, count=False)


def first_diff(a, b):
    """Index of the first position at which two lists differ (or the shorter length), None if equal."""
    n = min(len(a), len(b))
    for k in range(n):
        if a[k] != b[k]:
            return k
    return None if len(a) == len(b) else n


def slim(ev, keep=24):
    """An event/case with its long arrays shortened, for printing in signatures."""
    out = {}
    for k, v in ev.items():
        if isinstance(v, list) and len(v) > keep:
            out[k] = v[:keep] + ["... %d more" % (len(v) - keep)]
        else:
            out[k] = v
    return out


def load_lines(path):
    with open(path) as f:
        return [json.loads(l) for l in f if l.strip()]
