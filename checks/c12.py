"""C12 - layered filesystem: top layer wins, writes stay on top, read-after-write, typed helpers = byte-level
operation composed with the game's codec.
spec/LayeredFS.tla (design), MC_LayeredFS (laws, exhaustive on the bounded model), Gen_LayeredFS -> replay on real
directories -> Trace_LayeredFS, seeded random histories -> Trace_LayeredFS."""
import fs_common as fsc

LEVEL = "model_checking"

OPS = ("read", "write", "create_dir", "exists", "file_exists", "directory_exists", "resolve", "write_archive",
       "write_text_archive", "reset", "new") + fsc.TYPED_READS


def owns(e, k):
    return e["op"] in OPS


def run(ctx):
    ctx.rule = ("MC: every state reachable from 8 curated layer configurations (1-3 layers: file over file, dir over file, "
                "file over dir, nested, localised content, LZ streams under junk, empty) by writes/create_dirs; laws "
                "LowerLayersImmutable, WriteTouchesOnlyTarget, ReadAfterWrite, ReadIsTopmostFile, QueriesAgree evaluated "
                "for every call of the alphabet under every interpretation. spec->impl: every (state, call) of the "
                "generated states materialised as real directories, the observed transition decided by TLC. impl->spec: "
                "seeded random trees (1-4 layers, <=40 nodes), 100-call histories, random game x language, snapshot after "
                "every call, decided by TLC. Non-trivial = a mutation, a localized call, or a query that finds something.")
    ev, rec = fsc.run_fs(ctx, "c12", lambda e: e["op"] not in fsc.LIST_OPS, owns, profile="c12", lz=True,
                          unsupported_games=True, sandwich="c12", big_payloads=True)
    both = ev + rec
    ctx.extra["typed_helper_calls"] = sum(1 for e in both if e["op"] in fsc.TYPED_READS or e["op"].startswith("write_"))
    ctx.extra["typed_helper_successes"] = sum(1 for e in both if e["op"] in fsc.TYPED_READS and e["res"].get("ok"))
    ctx.extra["typed_helper_successes_by_helper"] = {
        h: sum(1 for e in both if e["op"] == h and e["res"].get("ok")) for h in fsc.TYPED_READS}
    ctx.extra["compressed_writes"] = sum(1 for e in both if e["op"] == "write" and e["res"].get("ok")
                                         and bytes(e["raw"]).endswith((b".lz", b".cmp", b".cms")))
    ctx.extra["calls_by_op"] = {}
    for e in both:
        ctx.extra["calls_by_op"][e["op"]] = ctx.extra["calls_by_op"].get(e["op"], 0) + 1
    for pick in (lambda e: e["op"] == "write" and e.get("loc"), lambda e: e["op"] in fsc.TYPED_READS and e["res"].get("ok"),
                 lambda e: e["op"] == "read" and e["res"].get("ok")):
        for e in both:
            if pick(e):
                ctx.sample({"call": fsc._short(e)})
                break
    ctx.assumptions += ["bounded model: 8 initial configurations, 12 write targets, %s" %
                        ctx.pick("4 game x language classes, 1 mutation deep, 2 payloads",
                                 "40 game x language pairs 1 mutation deep + 4 classes 2 mutations deep, 4 payloads")] \
        + fsc.COMMON_ASSUMPTIONS


def replay(ctx, rp):
    fsc.replay_one(ctx, rp, ctx.build("release", "mvh_fs"))
