"""Shared driver for C03 / C04 (bin archive state machine + stream cursors): MC_BinArchive laws, generator ->
mvh_bin sm-replay, mvh_bin sm-record -> Trace_BinArchive."""
import json
import vlib


# operations beyond the listed properties (DESIGN.md section 9): a wrong RESULT of one of these is reported as
# information (NOTE line, evidence counter); a state change or a panic caused by them is still a violation.
INFO_OPS = {"delete_label", "s_read_label", "get_labels", "find_label", "pointer_destinations", "equal_regions", "endian_encode", "endian_decode",
            "s_read_sjis", "s_read_utf16", "equal_regions2"}


def informational(ev, pre, got):
    if "panic" in got or "panic" in got.get("res", {}):
        return False
    if ev["op"] == "session":
        # a session that uses one of those operations is judged like them (its other steps are covered by sessions without)
        return any(s["op"] in INFO_OPS for s in ev["steps"]) and got.get("st") == pre
    if ev["op"] not in INFO_OPS:
        return False
    if ev["op"] == "delete_label":
        return got.get("st", {}).get("data") == pre.get("data")
    return got.get("st") == pre


def pre_states(events):
    """state of the event's own object before the event (two objects may be interleaved: field "obj")"""
    last, out = {}, []
    for ev in events:
        o = ev.get("obj", 0)
        out.append(last.get(o))
        last[o] = ev["post"]
    return out


def classify(case, got):
    ev = case["ev"]
    sig = {"dir": "spec->impl", "op": ev["op"]}
    if "panic" in got:
        sig["panic"] = got["panic"].split(" [")[0]
    elif isinstance(got.get("st"), dict) and "unobservable" in got["st"]:
        sig["unobservable"] = got["st"]["unobservable"][:80]
    else:
        a0 = case["allowed"][0]
        diffs = []
        if a0["res"] != got["res"]:
            diffs.append("res")
        if a0["pos"] != -1 and a0["pos"] != got["pos"]:
            diffs.append("pos")
        for k in a0["st"]:
            if a0["st"][k] != got["st"].get(k):
                diffs.append("st." + k)
        sig["differs"] = diffs
    return sig


def run(ctx, focus, profiles):
    env = {"VERIF_TIER": ctx.tier, "VERIF_FOCUS": focus}
    # 1. laws of the reference semantics
    r = ctx.tlc("MC_BinArchive", "MC_BinArchive.cfg", env=env, coverage=True, workers=6)
    acts = ["ChooseSize", "Annotate", "Label"] + (["Op"] if focus == "c03" else [])
    ctx.require_coverage(r, acts)
    # 2. spec -> impl: every (state, event) with its allowed outcomes
    g = ctx.tlc("MC_BinArchive", "Gen_BinArchive.cfg", env=env, count=False, workers=6)
    cases = g.tagged("G")
    if not cases:
        raise vlib.ToolError("generator produced no cases")
    cpath = ctx.path("cases.ndjson")
    vlib.write_ndjson(cpath, cases)
    unbuildable = 0
    for prof in profiles:
        binary = ctx.build(prof, "mvh_bin")
        opath = ctx.path("out_%s.ndjson" % prof)
        ctx.harness(binary, ["sm-replay", cpath, opath])
        out = vlib.read_ndjson(opath)
        summ = [o for o in out if o["kind"] == "summary"][0]
        unbuildable += summ["unbuildable"]
        for o in out:
            if o["kind"] == "mismatch":
                if informational(o["case"]["ev"], o["case"]["pre"], o["got"]):
                    ctx.extra["informational_mismatches"] = ctx.extra.get("informational_mismatches", 0) + 1
                    if ctx.extra["informational_mismatches"] <= 3:
                        print("NOTE (beyond the listed properties): %s -> %s" % (json.dumps(o["case"]["ev"]), json.dumps(o["got"].get("res"))))
                    continue
                sig = classify(o["case"], o["got"])
                sig["profile"] = prof
                ctx.violation(sig, {"case": o["case"], "got": o["got"], "profile": prof})
        ctx.traces += summ["cases"] - summ["unbuildable"]
        ctx.evaluations += summ["cases"]
    ctx.nontrivial += len({(str(c["pre"]), str(c["ev"])) for c in cases
                           if c["pre"]["data"] and (c["pre"]["text"] or c["pre"]["ptrs"] or c["pre"]["labels"] or c["pre"]["cstr"] or focus == "c04")})
    ctx.sample({"generated_case": cases[len(cases) // 3]})
    # 3. impl -> spec: random histories
    runs, length = ctx.pick((60, 120), (600, 200))
    events_total = 0
    for prof in profiles:
        binary = ctx.build(prof, "mvh_bin")
        tpath = ctx.path("trace_%s.ndjson" % prof)
        ctx.harness(binary, ["sm-record", tpath, focus, str(runs), str(length)])
        events = vlib.read_ndjson(tpath)
        t = ctx.tlc("Trace_BinArchive", env={"TRACE": tpath}, workers=1, count=False, deque=True, timeout=3000)
        rep = t.tagged("R")
        if len(rep) != 1 or rep[0]["n"] != len(events):
            raise vlib.ToolError("trace not consumed: %s" % rep)
        pre_of = pre_states(events)
        for i in rep[0]["bad"]:
            ev = events[i - 1]
            if pre_of[i - 1] is not None and informational(ev, pre_of[i - 1], {"res": ev["res"], "st": ev["post"]}):
                ctx.extra["informational_mismatches"] = ctx.extra.get("informational_mismatches", 0) + 1
                continue
            sig = {"dir": "impl->spec", "op": ev["op"], "profile": prof}
            if "panic" in ev.get("res", {}):
                sig["panic"] = ev["res"]["panic"].split(" [")[0]
            ctx.violation(sig, {"index": i, "pre": pre_of[i - 1], "event": ev, "profile": prof})
        events_total += len(events)
        ctx.sample({"recorded_event": events[min(7, len(events) - 1)]}, cap=8)
    ctx.traces += events_total
    ctx.evaluations += events_total
    ctx.nontrivial += events_total // 2
    ctx.extra.update({"generated_cases": len(cases), "recorded_events": events_total, "profiles": profiles,
                      "replay_unbuildable_pre_states": unbuildable})
    ctx.exhaustive = True
    ctx.assumptions += ["bounded model: archives of <= %s bytes built from curated annotations; events from a boundary-value universe "
                        "(incl. addresses/lengths near usize::MAX via the MAXU encoding)" % ("9" if focus == "c04" else "8 (quick) / 12 (thorough)"),
                        "pending c-strings are observed through the cfg(mila_verif) hook BinArchive::verif_pending_c_strings",
                        "Shift-JIS codec and the harness builder/projection are trusted"]
    if unbuildable and not ctx.viol:
        raise vlib.ToolError("%d generated pre-states could not be established through the public API" % unbuildable)


def replay(ctx, rp):
    d = rp["detail"]
    if "case" in d:
        binary = ctx.build(d.get("profile", "release"), "mvh_bin")
        cpath, opath = ctx.path("c.ndjson"), ctx.path("o.ndjson")
        vlib.write_ndjson(cpath, [d["case"]])
        ctx.harness(binary, ["sm-replay", cpath, opath])
        for o in vlib.read_ndjson(opath):
            print(o)
            if o["kind"] == "mismatch":
                ctx.violation(rp["sig"], d)
    else:
        print("recorded event:", str(d)[:3000])
        print("re-run ./check %s --seed %d to reproduce" % (rp["property"], rp["seed"]))
