"""C07 — text archive is an insertion-ordered map with symmetric newline escaping.
spec/TextArchive.tla (state machine), MC_TextArchive (laws, exhaustive), Gen_TextArchive -> replay,
record -> Trace_TextArchive."""
import vlib

LEVEL = "model_checking"


def run(ctx):
    ctx.rule = ("MC: all reachable archives over 3 keys x curated messages; spec->impl: every (state, call) pair of that "
                "graph replayed on a real TextArchive; impl->spec: seeded random histories (8 keys, 4 format/endian "
                "configurations) validated event by event. Non-trivial = call on a non-empty archive or a set.")
    binary = ctx.build("release", "mvh_text")
    env = {"VERIF_TIER": ctx.tier}
    # 1. the laws hold in the reference semantics (spec defect if not -> tool error)
    r = ctx.tlc("MC_TextArchive", "MC_TextArchive.cfg", env=env, coverage=True)
    ctx.require_coverage(r, ["DoSet", "DoDelete", "DoSetTitle", "DoReparse"])
    # 2. spec -> impl
    g = ctx.tlc("MC_TextArchive", "Gen_TextArchive.cfg", env=env, count=False)
    cases = g.tagged("G")
    if not cases:
        raise vlib.ToolError("generator produced no cases")
    cpath, opath = ctx.path("cases.ndjson"), ctx.path("replay_out.ndjson")
    vlib.write_ndjson(cpath, cases)
    # both arithmetic profiles: a panic that only an overflow-checked build shows is a violation too
    for prof in ("release", "checked"):
        pbin = ctx.build(prof, "mvh_text")
        ctx.harness(pbin, ["replay", cpath, opath])
        out = vlib.read_ndjson(opath)
        summ = [o for o in out if o["kind"] == "summary"][0]
        for o in out:
            if o["kind"] == "mismatch":
                c = o["case"]
                ctx.violation({"dir": "spec->impl", "op": c["ev"]["op"], "pre": c["pre"], "ev": c["ev"], "profile": prof},
                              {"case": c, "got": o["got"], "profile": prof})
        ctx.traces += summ["cases"] - summ["unbuildable"]
        ctx.evaluations += summ["cases"]
    ctx.nontrivial += sum(1 for c in cases if c["pre"]["entries"] or c["ev"]["op"] == "set")
    ctx.sample({"replayed_case": cases[len(cases) // 2]})
    # 3. impl -> spec
    runs, length = ctx.pick((40, 150), (400, 300))
    tpath = ctx.path("trace.ndjson")
    # every fifth history is long, set-heavy and never re-parsed (>= 2^8 sets on one object); thorough adds one of 70 000 calls (2^16)
    ctx.harness(binary, ["record", tpath, str(runs), str(length), str(ctx.pick(0, 70000))])
    events = vlib.read_ndjson(tpath)
    cpath2 = ctx.path("trace_checked.ndjson")
    ctx.harness(ctx.build("checked", "mvh_text"), ["record", cpath2, str(max(4, runs // 4)), str(length)], env={"VERIF_SEED": str(ctx.seed + 1)})
    events += vlib.read_ndjson(cpath2)
    vlib.write_ndjson(tpath, events)
    t = ctx.tlc("Trace_TextArchive", env={"TRACE": tpath}, workers=1, count=False, deque=True)
    rep = t.tagged("R")
    if len(rep) != 1 or rep[0]["n"] != len(events):
        raise vlib.ToolError("trace not consumed: %s" % rep)
    last, pre_of = {}, []
    for ev in events:       # two archives may be interleaved (field "obj"): pre-state = last logged state of the same object
        pre_of.append(last.get(ev.get("obj", 0)))
        last[ev.get("obj", 0)] = ev["post"]
    for i in rep[0]["bad"]:
        ev = events[i - 1]
        ctx.violation({"dir": "impl->spec", "op": ev["op"], "res": ev["res"], "ev": {k: ev[k] for k in ("op", "k", "m", "t")}},
                      {"index": i, "pre": pre_of[i - 1], "event": ev})
    ctx.traces += len(events)
    ctx.evaluations += len(events)
    ctx.nontrivial += sum(1 for e in events if e["op"] in ("set", "delete", "reparse"))
    ctx.sample({"recorded_event": events[min(5, len(events) - 1)]})
    ctx.extra["replay_unbuildable_pre_states"] = summ["unbuildable"]
    ctx.extra["recorded_events"] = len(events)
    ctx.exhaustive = True
    ctx.assumptions += ["bounded model: 3 keys, %d message arguments" % (5 if ctx.quick() else 12),
                        "String<->code point conversion and the harness pre-state builder are trusted"]
    if summ["unbuildable"] and not ctx.viol:
        raise vlib.ToolError("%d generated pre-states could not be established through the public API" % summ["unbuildable"])


def replay(ctx, rp):
    binary = ctx.build("release", "mvh_text")
    d = rp["detail"]
    if "case" in d:
        cpath, opath = ctx.path("c.ndjson"), ctx.path("o.ndjson")
        vlib.write_ndjson(cpath, [d["case"]])
        ctx.harness(binary, ["replay", cpath, opath])
        for o in vlib.read_ndjson(opath):
            print(o)
            if o["kind"] == "mismatch":
                ctx.violation(rp["sig"], d)
    else:
        print("recorded event (re-run ./check C07 with the same seed to reproduce):", d)
