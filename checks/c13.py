"""C13 - listings of the layered filesystem are the sorted, de-duplicated union of the layers.
spec/LayeredFS.tla (ListedPaths, SubdirPaths, SortedListing, the closed glob family), MC_LayeredFS (ListLaws),
Gen_LayeredFS -> replay -> Trace_LayeredFS, seeded random histories (listings between mutations) -> Trace_LayeredFS."""
import fs_common as fsc

LEVEL = "model_checking"


def owns(e, k):
    # listings, and the existence queries put to the listed paths ("every listed path exists according to the
    # filesystem's own existence queries")
    return e["op"] in fsc.LIST_OPS or bool(e.get("sound_of"))


def run(ctx):
    ctx.rule = ("MC: laws ListSorted, ListNoDup, ListSound, ListComplete, LocalizedListIsListOfLocalized, SubdirsAreDirs on "
                "every reachable state for 10 directories (root, nested, with/without trailing '/', missing, a file) x 6 "
                "patterns x localized/unlocalized. spec->impl: every listing call of the alphabet on every generated state, "
                "materialised as real directories (names chosen so that byte order differs from component order, the same "
                "path in several layers, a directory named *.bin), decided by TLC. impl->spec: random trees and histories in "
                "which listings follow writes/create_dirs. Non-trivial = a listing that returns at least one entry or is "
                "localized.")
    # listings are also taken around every mutation, on one filesystem object: before it, after it, and after it on a
    # clone made before it (what was listed earlier must not influence what is listed later)
    ev, rec = fsc.run_fs(ctx, "c13", lambda e: e["op"] in fsc.LIST_OPS, owns, profile="c13", sandwich="c13", sound=True,
                         mutations=lambda e: (e["op"] == "write" and e["data"] == [1, 2, 3]) or e["op"] == "create_dir"
                         or e["op"] == "write_archive")
    both = [e for e in ev + rec if e["op"] in fsc.LIST_OPS]
    ctx.extra["listing_calls"] = len(both)
    ctx.extra["listings_with_2plus_entries"] = sum(1 for e in both if e["res"].get("ok") and len(e["res"]["v"]) >= 2)
    ctx.extra["longest_listing"] = max([len(e["res"]["v"]) for e in both if e["res"].get("ok")] or [0])
    ctx.extra["calls_by_pattern"] = {}
    for e in both:
        k = e["glob"]["s"] if e["glob"]["some"] else ("(none)" if e["op"] == "list" else "(subdirectories)")
        ctx.extra["calls_by_pattern"][k] = ctx.extra["calls_by_pattern"].get(k, 0) + 1
    for pick in (lambda e: e["op"] == "list" and e["res"].get("ok") and len(e["res"]["v"]) >= 3,
                 lambda e: e["op"] == "subdirectories" and e["res"].get("ok") and e["res"]["v"]):
        for e in both:
            if pick(e):
                ctx.sample({"call": fsc._short(e)})
                break
    ctx.assumptions += ["patterns are the closed family {none, *, *.bin, x*, **/*.bin, **/*}; names are plain components "
                        "(no glob metacharacters); order is byte-wise on the '/'-joined layer-relative spelling",
                        "bounded model: 8 initial configurations, %s" %
                        ctx.pick("4 game x language classes, 1 mutation deep", "40 pairs 1 deep + 4 classes 2 deep")] \
        + fsc.COMMON_ASSUMPTIONS


def replay(ctx, rp):
    fsc.replay_one(ctx, rp, ctx.build("release", "mvh_fs"))
