"""C10 — compressed size is bounded and repetition is actually exploited.
LZ!SizeBound / LZ!PeriodBound evaluated by TLC (Trace_LZ, "size" events) on what the real compressors produced;
MC_LZGreedy: the greedy longest-match tokeniser model satisfies both bounds at scaled constants (exhaustive),
and weakened tokenisers (window or match length one short) violate them (vacuity guard)."""
import c08
import vlib

LEVEL = "model_checking"


def run(ctx):
    ctx.rule = ("MC: greedy tokeniser model on all inputs over {0,1} up to %d bytes and ALL periodic inputs (periods 1..6, every "
                "pattern, lengths up to %d) at scaled constants. impl->spec: one event {fmt,n,p,clen} per real compression; "
                "periods %s x 5 pattern families (random first period / two-letter / noise with one 18..48-byte block twice / "
                "records sharing a >=18-byte prefix / k copies of a shorter block + noise tail; the last three for p >= 40) x 2 "
                "total lengths (2p+37; p+4096+19 for LZ10, p+4*4096+19 for LZ13) x both formats, plus a long total "
                "(24000*sqrt(p) clamped to 2*10^4..10^6 bytes) for 10 fixed and %d seeded random periods, plus the expansion bound (and every period TLC finds) "
                "on all inputs over {a,b} up to %d and {a,b,c} up to %d and the structured C08/C09 families. "
                "Non-trivial = event with a period (claimed by construction or found by TLC)."
                % (ctx.pick(11, 15), ctx.pick(40, 100), ctx.pick("1..40, 255..257, 1000, 2048, 4090..4096", "1..4096 (all)"),
                   ctx.pick(50, 1000), ctx.pick(10, 13), ctx.pick(6, 8)))
    b = ctx.build("release", c08.BIN)
    r = ctx.tlc("MC_LZGreedy", "MC_LZGreedy.cfg", env={"VERIF_TIER": ctx.tier}, workers=6, timeout=ctx.pick(300, 1500))
    if r.distinct == 0:
        raise vlib.ToolError("greedy model explored nothing")
    spath = ctx.path("size.ndjson")
    ctx.harness(b, ["size", spath], timeout=ctx.pick(300, 2400))
    events = vlib.read_ndjson(spath)
    bad, rep = c08.trace_check(ctx, events, "size")
    for i in bad:
        ev = events[i]
        ctx.violation({"dir": "impl->spec", "op": ev["fmt"] + ".compress", "n": ev["n"], "p": ev["p"], "pk": ev["pk"],
                       "clen": ev["clen"], "ok": ev["ok"]},
                      {"event": ev, "note": "pattern: seeded by (seed,p,pk,n) in mvh_lz size; re-run ./check C10 with the same seed"})
    if ctx.viol:
        summ = {}
        for v in ctx.viol:
            k = "%s pattern-kind %s %s" % (v["op"], v["pk"], "n>=20000" if v["n"] >= 20000 else "n<20000")
            summ[k] = summ.get(k, 0) + 1
        ctx.extra["violation_summary"] = summ
        ctx.log("violation summary: %s" % summ)
    ctx.traces += len(events)
    ctx.evaluations += len(events)
    tally = rep["tally"]
    ctx.nontrivial += tally.get("size:periodic", 0) + tally.get("size:small-periodic", 0)
    ctx.extra["events"] = tally
    per = [e for e in events if e["p"] > 0]
    ctx.extra["periods_covered"] = len(set(e["p"] for e in per))
    for e in per:
        if e["p"] == 4096:
            ctx.sample({k: e[k] for k in ("fmt", "n", "p", "pk", "clen")}, cap=4)
    ctx.exhaustive = True
    ctx.extra["longest_total"] = max(e["n"] for e in per)
    ctx.assumptions += ["effectiveness bound checked for %d periods x 2 lengths x 5 pattern families x 2 formats, long totals for a sample of periods" % ctx.extra["periods_covered"],
                        "scaled model: W=6, match lengths 3..5 (H=4,R=2) and 3..8 (H=8,R=4)",
                        "release profile only (sizes do not depend on the arithmetic profile)"]


def replay(ctx, rp):
    ev = rp["detail"]["event"]
    print("recorded size event:", {k: ev[k] for k in ("fmt", "n", "p", "pk", "ok", "clen")})
    if ev["p"] > 0:
        ctx.seed = rp.get("seed", ctx.seed)     # the pattern is derived from (seed, p, pk, n)
        b = ctx.build("release", c08.BIN)
        opath = ctx.path("one.ndjson")
        ctx.harness(b, ["sizeone", ev["fmt"], str(ev["p"]), str(ev["pk"]), str(ev["n"]), opath])
        ev = vlib.read_ndjson(opath)[0]
        print("measured now:      ", {k: ev[k] for k in ("fmt", "n", "p", "pk", "ok", "clen")})
    bad, _ = c08.trace_check(ctx, [ev], "replay")
    if bad:
        ctx.violation(rp["sig"], {"event": ev})
