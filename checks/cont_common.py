"""Shared orchestration for the container-format checks C15-C18 (pure formats: value <-> image).
Pattern per property: MC_<X> (laws on the bounded model) -> Gen_<X> cases replayed on mila by
`mvh_cont <fmt>-replay` -> `mvh_cont <fmt>-record` events validated by Trace_<X>."""
import json
import vlib

WORKERS = 6


def env_of(ctx):
    return {"VERIF_TIER": ctx.tier, "VERIF_SEED": ctx.seed}


def model_check(ctx, module, actions, xmx="8g"):
    r = ctx.tlc(module, module + ".cfg", env=env_of(ctx), workers=WORKERS, coverage=True, xmx=xmx)
    ctx.require_coverage(r, actions)
    return r


def generate(ctx, module, cfg, timeout=1800):
    g = ctx.tlc(module, cfg, env=env_of(ctx), workers=WORKERS, count=False, timeout=timeout)
    cases = g.tagged("G")
    if not cases:
        raise vlib.ToolError("generator %s produced no cases" % cfg)
    return cases


def replay(ctx, binary, sub, cases, stem):
    """-> (summary, mismatches, unbuildable)"""
    cpath, opath = ctx.path(stem + "_cases.ndjson"), ctx.path(stem + "_out.ndjson")
    vlib.write_ndjson(cpath, cases)
    ctx.harness(binary, [sub, cpath, opath])
    out = vlib.read_ndjson(opath)
    summ = [o for o in out if o["kind"] == "summary"]
    if len(summ) != 1 or summ[0]["cases"] != len(cases):
        raise vlib.ToolError("replay did not consume all cases: %s" % summ)
    return summ[0], [o for o in out if o["kind"] == "mismatch"], [o for o in out if o["kind"] == "unbuildable"]


def validate(ctx, module, tpath, n_events, xmx="8g"):
    """Trace validation; returns the list of rejected (1-based) event indices."""
    t = ctx.tlc(module, env={"TRACE": tpath}, workers=1, count=False, deque=True, xmx=xmx)
    rep = t.tagged("R")
    if len(rep) != 1 or rep[0]["n"] != n_events:
        raise vlib.ToolError("trace not consumed by %s: %s (events=%d)" % (module, rep, n_events))
    return rep[0]


def shrink(x, limit=4000):
    """JSON value for a violation signature/detail: large arrays are cut."""
    s = json.dumps(x)
    if len(s) <= limit:
        return x
    return {"truncated": s[:limit]}


def finish_unbuildable(ctx, unb):
    ctx.extra["replay_unbuildable"] = ctx.extra.get("replay_unbuildable", 0) + len(unb)
    if unb and not ctx.viol:
        raise vlib.ToolError("%d generated cases could not be built through the public API: %s" % (len(unb), unb[0]))
