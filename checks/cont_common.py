"""Shared orchestration for the container-format checks C15-C18 (pure formats: value <-> image).
Pattern per property: MC_<X> (laws on the bounded model) -> Gen_<X> cases replayed on mila by
`mvh_cont <fmt>-replay` -> `mvh_cont <fmt>-record` events validated by Trace_<X>."""
import json
import vlib

WORKERS = 6


def env_of(ctx):
    return {"VERIF_TIER": ctx.tier, "VERIF_SEED": ctx.seed}


def model_check(ctx, module, actions, xmx="8g"):
    r = ctx.tlc(module, module + ".cfg", env=env_of(ctx), workers=WORKERS, coverage=True, xmx=xmx)
    ctx.require_coverage(r, actions)
    return r


def generate(ctx, module, cfg, timeout=1800):
    g = ctx.tlc(module, cfg, env=env_of(ctx), workers=WORKERS, count=False, timeout=timeout)
    cases = g.tagged("G")
    if not cases:
        raise vlib.ToolError("generator %s produced no cases" % cfg)
    return cases


def replay(ctx, binary, sub, cases, stem):
    """-> (summary, mismatches, unbuildable)"""
    cpath, opath = ctx.path(stem + "_cases.ndjson"), ctx.path(stem + "_out.ndjson")
    vlib.write_ndjson(cpath, cases)
    ctx.harness(binary, [sub, cpath, opath])
    out = vlib.read_ndjson(opath)
    summ = [o for o in out if o["kind"] == "summary"]
    if len(summ) != 1 or summ[0]["cases"] != len(cases):
        raise vlib.ToolError("replay did not consume all cases: %s" % summ)
    return summ[0], [o for o in out if o["kind"] == "mismatch"], [o for o in out if o["kind"] == "unbuildable"]


def replay_checked(ctx, sub, cases, stem):
    """Both tiers: the same generated cases against a build with overflow checks and debug assertions
    (release wraps where checked panics; a panic is an outcome the specifications do not allow)."""
    binary = ctx.build("checked", "mvh_cont")
    summ, mism, unb = replay(ctx, binary, sub, cases, stem + "_checked")
    ctx.traces += summ["cases"] - len(unb)
    ctx.extra["checked_profile_replayed"] = summ["cases"]
    return mism


def validate(ctx, module, tpath, n_events, xmx="8g"):
    """Trace validation; returns the list of rejected (1-based) event indices."""
    t = ctx.tlc(module, env={"TRACE": tpath}, workers=1, count=False, deque=True, xmx=xmx)
    rep = t.tagged("R")
    if len(rep) != 1 or rep[0]["n"] != n_events:
        raise vlib.ToolError("trace not consumed by %s: %s (events=%d)" % (module, rep, n_events))
    return rep[0]


def shrink(x, limit=4000):
    """JSON value for a violation signature/detail: large arrays are cut."""
    s = json.dumps(x)
    if len(s) <= limit:
        return x
    return {"truncated": s[:limit]}


def finish_unbuildable(ctx, unb):
    ctx.extra["replay_unbuildable"] = ctx.extra.get("replay_unbuildable", 0) + len(unb)
    if unb and not ctx.viol:
        raise vlib.ToolError("%d generated cases could not be built through the public API: %s" % (len(unb), unb[0]))


def event_detail(ev, index, limit=400000):
    s = json.dumps(ev)
    return {"index": index, "event": ev} if len(s) <= limit else {"index": index, "event_truncated": s[:limit]}


def round_trip_check(ctx, pid, binary, mc_module, gen_cfg, trace_module, fmt, actions_quick, actions_thorough,
                     record_args, describe_case, describe_event, nontrivial_case, nontrivial_event):
    """Common body of C17 / C18: value -> mila serialize -> archive content / image -> mila re-read -> re-serialize."""
    model_check(ctx, mc_module, actions_quick + ([] if ctx.quick() else actions_thorough))
    cases = generate(ctx, mc_module, gen_cfg)
    summ, mism, unb = replay(ctx, binary, fmt + "-replay", cases, fmt)
    for o in mism:
        c = cases[o["i"]]
        sig = {"dir": "spec->impl", "what": o["what"]}
        sig.update(describe_case(c))
        sig["got"] = shrink(o["got"], 500)
        ctx.violation(sig, {"case": c, "what": o["what"], "got": shrink(o["got"], 20000)})
    for o in replay_checked(ctx, fmt + "-replay", cases, fmt):
        c = cases[o["i"]]
        sig = {"dir": "spec->impl", "profile": "checked", "what": o["what"]}
        sig.update(describe_case(c))
        sig["got"] = shrink(o["got"], 500)
        ctx.violation(sig, {"case": c, "what": o["what"], "got": shrink(o["got"], 20000), "profile": "checked"})
    ctx.traces += summ["cases"] - len(unb)
    ctx.evaluations += 4 * summ["cases"]
    ctx.nontrivial += sum(1 for c in cases if nontrivial_case(c))
    ctx.extra["generated_values"] = len(cases)
    ctx.extra["generated_with_file_image"] = sum(1 for c in cases if c["image"])
    mid = cases[len(cases) // 2]
    ctx.sample({"replayed_case": dict(describe_case(mid), content_bytes=len(mid["content"]["data"]),
                                      strings=len(mid["content"]["text"]), image_bytes=len(mid["image"]))})
    # impl -> spec
    # half of the recorded values under each build profile (different seeds), one validation run
    tpath = ctx.path(fmt + "_trace.ndjson")
    events = []
    runs = int(record_args[0])
    for profile, b, share, seed_shift in (("release", binary, runs - runs // 2, 0), ("checked", ctx.build("checked", "mvh_cont"), runs // 2, 7919)):
        ppath = ctx.path("%s_trace_%s.ndjson" % (fmt, profile))
        ctx.harness(b, [fmt + "-record", ppath, str(share)] + [str(a) for a in record_args[1:]],
                    env={"VERIF_SEED": str(ctx.seed + seed_shift)})
        for e in vlib.read_ndjson(ppath):
            e["profile"] = profile
            events.append(e)
    vlib.write_ndjson(tpath, events)
    rep = validate(ctx, trace_module, tpath, len(events))
    for b in rep["bad"]:
        ev = events[b["i"] - 1]
        sig = {"dir": "impl->spec", "profile": ev["profile"], "failed": b["why"], "src": ev["src"], "status": ev["status"][:200]}
        if "rule" in ev:
            sig["rule"] = {k: (x if not isinstance(x, list) else len(x)) for k, x in ev["rule"].items()}
            ctx.violation(sig, event_detail(ev, b["i"]))
            continue
        sig.update(describe_event(ev))
        ctx.violation(sig, event_detail(ev, b["i"]))
    ctx.traces += len(events)
    ctx.evaluations += len(events)
    plain = [e for e in events if "rule" not in e]
    ctx.nontrivial += sum(1 for e in plain if nontrivial_event(e)) + (len(events) - len(plain))
    ctx.extra["recorded_events"] = len(events)
    ctx.extra["recorded_rule_built_large_values"] = [dict({k: (x if not isinstance(x, list) else len(x)) for k, x in e["rule"].items()},
                                                          image_bytes=e["len"], profile=e["profile"]) for e in events if "rule" in e]
    ctx.extra["recorded_with_file_image"] = sum(1 for e in plain if e["bytes"])
    ctx.extra["recorded_sources"] = sorted(set(e["src"] for e in events))
    ctx.sample({"recorded_event": dict(describe_event(plain[min(3, len(plain) - 1)]), src=plain[min(3, len(plain) - 1)]["src"])})
    ctx.exhaustive = True
    finish_unbuildable(ctx, unb)


def round_trip_replay(ctx, rp, binary, fmt):
    d = rp["detail"]
    if "case" in d:
        summ, mism, unb = replay(ctx, binary, fmt + "-replay", [d["case"]], fmt)
        for o in mism:
            print(o["what"], "got:", json.dumps(o["got"])[:600])
        if mism:
            ctx.violation(rp["sig"], d)
    else:
        print("recorded event %s (re-run ./check %s --tier %s --seed %s to reproduce)" %
              (d.get("index"), rp["property"], rp.get("tier"), rp.get("seed")))
