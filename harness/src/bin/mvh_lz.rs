//! mvh_lz — not built yet.
use mvh::util::*;

fn main() {
    install_panic_hook();
    usage("mvh_lz: not implemented yet");
}
