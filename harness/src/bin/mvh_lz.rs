//! LZ10 / LZ13 codecs (C08 - C11).  Drives mila's compressors / decompressors and records what they did;
//! every judgement is made by TLC over spec/LZ.tla (Trace_LZ) or by comparing with what TLC printed (Gen_LZ).
//!
//!   inputs  <lz10|lz13> <cases.ndjson> [streams.ndjson]   input families for C08/C09 (exhaustive small + structured, seeded,
//!                                             stream-like inputs, and the given spec-generated streams as plain input)
//!   comp    <cases> <out> [--from k]          isolated: compress + own decompress, one "comp" event per case; the public entry
//!                                             point is chosen by VERIF_LZ_VIA = direct (LZ10/LZ13CompressionFormat) | enum (CompressionFormat::LZ10/LZ13)
//!   size    <out.ndjson>                      C10: sizes of compressed periodic / small inputs ("size" events)
//!   sizeone <fmt> <p> <pk> <n> <out.ndjson>   C10: one periodic size event again (replay)
//!   deccmp  <cases> <out> [--from k]          isolated: C11 spec->impl, decompress TLC's streams, compare with TLC's verdict
//!   bigdecgen <cases.ndjson>                  C11: rule-built literal-only streams of 2^16..2^20 bytes (+ truncations) x entry points
//!   bigdec  <cases> <out> [--from k]          isolated: decompress them; result compared with the pattern repeated to n bytes
//!   tokgen  <tokens.ndjson>                   C11 spec->impl: seeded random token sequences (encoded and expanded by TLC, Gen_LZ fam "rand")
//!   fuzzgen <seeds.ndjson> <cases.ndjson>     C11 impl->spec: corruptions of valid streams + random bytes
//!   declog  <cases> <out> [--from k]          isolated: decompress, one "dec" event per case
use mila::{CompressionFormat, LZ10CompressionFormat, LZ13CompressionFormat};
use mvh::util::*;
use serde_json::{json, Value};

// ------------------------------------------------------------------------------------------------ calls into mila
fn res_json(r: Result<Result<Vec<u8>, String>, String>) -> Value {
    match r {
        Ok(Ok(v)) => json!({"kind": "ok", "out": bytes_to_json(&v), "alloc": false, "msg": ""}),
        Ok(Err(e)) => json!({"kind": "err", "out": [], "alloc": false, "msg": e}),
        Err(p) => json!({"kind": "panic", "out": [], "alloc": false, "msg": p}),
    }
}

fn compress(fmt: &str, input: &[u8]) -> Result<Result<Vec<u8>, String>, String> {
    catch(|| match fmt {
        "lz10" => LZ10CompressionFormat {}.compress(input).map_err(|e| e.to_string()),
        "lz13" => LZ13CompressionFormat {}.compress(input).map_err(|e| e.to_string()),
        "cf10" => CompressionFormat::LZ10(LZ10CompressionFormat {}).compress(input).map_err(|e| e.to_string()),
        "cf13" => CompressionFormat::LZ13(LZ13CompressionFormat {}).compress(input).map_err(|e| e.to_string()),
        _ => usage("fmt: lz10|lz13|cf10|cf13"),
    })
}

fn decompress(entry: &str, stream: &[u8]) -> Result<Result<Vec<u8>, String>, String> {
    catch(|| match entry {
        "lz10" => LZ10CompressionFormat {}.decompress(stream).map_err(|e| e.to_string()),
        "lz13" => LZ13CompressionFormat {}.decompress(stream).map_err(|e| e.to_string()),
        "cf10" => CompressionFormat::LZ10(LZ10CompressionFormat {}).decompress(stream).map_err(|e| e.to_string()),
        "cf13" => CompressionFormat::LZ13(LZ13CompressionFormat {}).decompress(stream).map_err(|e| e.to_string()),
        _ => usage("entry: lz10|lz13|cf10|cf13"),
    })
}

// ------------------------------------------------------------------------------------------------ input families
fn all_strings(alpha: &[u8], maxlen: usize, out: &mut Vec<(String, Vec<u8>)>) {
    let mut level: Vec<Vec<u8>> = vec![vec![]];
    for _ in 0..=maxlen {
        let mut next = Vec::new();
        for s in &level {
            out.push((format!("all{}", alpha.len()), s.clone()));
            if s.len() < maxlen {
                for &a in alpha {
                    let mut t = s.clone();
                    t.push(a);
                    next.push(t);
                }
            }
        }
        level = next;
    }
}

fn periodic(pat: &[u8], n: usize) -> Vec<u8> {
    (0..n).map(|i| pat[i % pat.len()]).collect()
}

/// Number of pattern families for periodic inputs (the "pattern contents" dimension of C10).
const PATTERN_KINDS: usize = 5;

/// First period of a periodic input.  None: the family needs a longer period.
///   0 random bytes (incompressible first period)
///   1 two-letter alphabet (matches everywhere inside the first period)
///   2 noise with one block of 18..48 bytes occurring twice
///   3 table of records that share a prefix of >= 18 bytes, the rest of each record is noise
///   4 k >= 2 copies of a shorter block of >= 18 bytes, then a noise tail
fn pattern(rng: &mut Rng, p: usize, kind: usize) -> Option<Vec<u8>> {
    match kind {
        0 => Some(rng.bytes(p)),
        1 => Some((0..p).map(|_| b'a' + rng.below(2) as u8).collect()),
        2 => {
            if p < 40 {
                return None;
            }
            let l = rng.range(18, 48.min((p - 2) / 2));
            let mut v = rng.bytes(p);
            let block = rng.bytes(l);
            let a = rng.range(0, p - 2 * l - 1);
            let b = rng.range(a + l + 1, p - l);
            v[a..a + l].copy_from_slice(&block);
            v[b..b + l].copy_from_slice(&block);
            Some(v)
        }
        3 => {
            if p < 48 {
                return None;
            }
            let r = rng.range(24, 80.min(p / 2));
            let s = rng.range(18, r - 4);
            let prefix = rng.bytes(s);
            let mut v = rng.bytes(p);
            for k in 0..(p / r) {
                v[k * r..k * r + s].copy_from_slice(&prefix);
            }
            Some(v)
        }
        _ => {
            if p < 40 {
                return None;
            }
            let q = rng.range(18, 400.min((p - 1) / 2));
            let k = rng.range(2, (p - 1) / q);
            let block = rng.bytes(q);
            let mut v = rng.bytes(p);
            for j in 0..k {
                v[j * q..(j + 1) * q].copy_from_slice(&block);
            }
            Some(v)
        }
    }
}

/// A long total for period p: compression cost grows like n^2/p (the LZ13 header computation rescans to the end
/// of the input for every displacement that is a multiple of the period), so n scales with sqrt(p).
fn long_total(p: usize) -> usize {
    (((p as f64).sqrt() * 24000.0) as usize).clamp(20_000, 1_000_000)
}

/// LZ-style synthetic data: random seed bytes, then copies of chosen length from chosen distances (overlapping
/// allowed) separated by a few fresh random bytes.
fn self_similar(rng: &mut Rng, lens: &[usize], dists: &[usize], budget: usize, alpha: usize) -> Vec<u8> {
    let mut v: Vec<u8> = (0..rng.range(1, 6)).map(|_| rng.below(alpha) as u8).collect();
    while v.len() < budget {
        let len = *rng.pick(lens);
        let mut cand: Vec<usize> = dists.iter().cloned().filter(|d| *d <= v.len()).collect();
        cand.push(rng.range(1, v.len()));
        let dist = *rng.pick(&cand);
        for _ in 0..len {
            let b = v[v.len() - dist];
            v.push(b);
        }
        for _ in 0..rng.range(0, 3) {
            v.push(rng.next() as u8);
        }
    }
    v
}

fn structured(fmt: &str, rng: &mut Rng, quick: bool) -> Vec<(String, Vec<u8>)> {
    let mut v: Vec<(String, Vec<u8>)> = Vec::new();
    v.push(("empty".into(), vec![]));
    // lengths around the 8-token and 18-byte boundaries, incompressible and 4-letter
    for n in 1..=40 {
        v.push(("rand".into(), rng.bytes(n)));
        v.push(("rand4".into(), (0..n).map(|_| rng.below(4) as u8).collect()));
    }
    // runs: a run of n bytes gives two literals and matches covering n-2 bytes
    let mut runs = vec![1, 2, 3, 4, 5, 17, 18, 19, 20, 21, 22, 37, 38, 39, 146, 147, 274, 275, 276, 1000, 4097, 4098, 4099, 4100];
    runs.extend_from_slice(if quick { &[5000] } else { &[5000, 8194, 8195, 20000, 65536] });
    for n in runs {
        v.push(("run".into(), vec![b'r'; n]));
    }
    // periodic data, periods around the length forms and the window edge
    let periods: &[usize] = &[2, 3, 17, 18, 19, 255, 256, 272, 273, 4094, 4095, 4096, 4097, 4098, 5000];
    for &p in periods {
        for kind in 0..2 {
            let pat = pattern(rng, p, kind).expect("kinds 0 and 1 exist for every period");
            v.push((format!("per{}", p), periodic(&pat, 2 * p + 37)));
            if !quick || p < 1000 {
                v.push((format!("per{}", p), periodic(&pat, p + 4096 + 19)));
            }
        }
    }
    // self-similar data forcing each reference form and window-edge displacements
    let lens: &[usize] = if fmt == "lz10" { &[3, 4, 17, 18, 19, 20, 36, 40] } else { &[3, 4, 16, 17, 18, 272, 273, 274, 1000, 4096, 4097, 5000] };
    let dists = [1usize, 2, 3, 4, 17, 255, 256, 4094, 4095, 4096, 4097];
    for k in 0..(if quick { 6 } else { 30 }) {
        let budget = if quick { 3000 + 1500 * k } else { 4000 + 2000 * k };
        v.push(("selfsim".into(), self_similar(rng, lens, &dists, budget, 3)));
    }
    for _ in 0..(if quick { 20 } else { 100 }) {
        let budget = rng.range(20, 300);
        v.push(("selfsim-s".into(), self_similar(rng, &[3, 4, 5, 16, 17, 18, 19], &[1, 2, 3, 4], budget, 2)));
    }
    // exact longest match: a block A of L noise bytes, a separator, A again, then a byte that ends the match - for L at
    // every boundary of the token forms (literal / reference, and the 2- / 3- / 4-byte reference layouts)
    let exact: &[usize] = if fmt == "lz10" { &[2, 3, 4, 16, 17, 18, 19, 20] }
                          else { &[2, 3, 4, 15, 16, 17, 18, 0x10F, 0x110, 0x111, 0x112, 4094, 4095] };
    for &l in exact {
        for _ in 0..2 {
            let a = rng.bytes(l);
            let mut x = a.clone();
            x.push(!a[0]);
            x.extend_from_slice(&a);
            x.push(!a[l - 1] ^ 0x55);
            x.extend(rng.bytes(3));
            v.push((format!("exact{}", l), x));
        }
    }
    // incompressible
    let inc: &[usize] = if quick { &[63, 64, 65, 127, 128, 129, 1000, 4097, 6000] } else { &[63, 64, 65, 127, 128, 129, 1000, 4097, 6000, 20000, 65536] };
    for &n in inc {
        v.push(("incompressible".into(), rng.bytes(n)));
    }
    // text-like
    let words: [&[u8]; 6] = [b"the ", b"quick ", b"brown ", b"fox ", b"jumps ", b"over "];
    for k in 0..(if quick { 3 } else { 10 }) {
        let mut t = Vec::new();
        while t.len() < 500 + 1500 * k {
            t.extend_from_slice(words[rng.below(6)]);
        }
        v.push(("text".into(), t));
    }
    v
}

/// Inputs too large to list byte by byte, given by their shape: head bytes, a pattern repeated (run = pattern of one
/// byte), tail bytes; n bytes in total.  Lengths sit
/// around the size boundaries of the formats: third header byte becoming non-zero (0xFFFF..0x10001), the longest
/// LZ11 reference (0x10110 bytes after the two leading literals of a run), and the largest input the 24-bit
/// length field can announce (16 MiB - 1).  Patterns are chosen so that compression stays linear in n
/// (a run for LZ10; one period of 4096 noise bytes where the LZ13 header computation would be quadratic on a run).
fn big_inputs(fmt: &str, rng: &mut Rng, quick: bool) -> Vec<Value> {
    let mut v: Vec<Value> = Vec::new();
    let mut put = |tag: &str, head: &[u8], pat: &[u8], tail: &[u8], n: usize| {
        v.push(json!({"fmt": fmt, "tag": tag, "head": bytes_to_json(head), "pat": bytes_to_json(pat), "tail": bytes_to_json(tail), "n": n}));
    };
    for n in [0xFFFF, 0x10000, 0x10001, 2 + 0x10110, 2 + 0x10111, 70_000, 0x20000, 140_000] {
        put("bigrun", &[], &[b'z'], &[], n);
    }
    for p in [3usize, 17] {
        let pat = rng.bytes(p);
        for n in [70_000, p + 2 + 0x10111] {
            put(&format!("bigper{}", p), &[], &pat, &[], n);
        }
    }
    let pat = rng.bytes(4096);
    for n in [0x10000, 0x10001, 140_000] {
        put("bigper4096", &[], &pat, &[], n);
    }
    // the largest input the 24-bit length field can announce, and one less
    let top = [0xFFFFFEusize, 0xFFFFFF];
    if fmt == "lz13" {
        for n in top {
            put("bigper4096", &[], &pat, &[], n);
        }
    } else {
        for n in top {
            put("bigrun", &[], &[0u8], &[], n);
        }
    }
    // long compressible body followed by an incompressible tail, and the mirrored shape (incompressible head, then the
    // body): compression ratio not maximal at the end / at the start.  At ~70 000 bytes for both formats; at the 24-bit
    // boundary for LZ13 always (a few thousand tokens) and for LZ10 in the thorough tier (a million tokens each).
    let mut sizes = vec![70_000usize];
    if fmt == "lz13" || !quick {
        sizes.extend_from_slice(&top);
    }
    for &n in &sizes {
        for (body, tag) in [(vec![0u8], "run"), (pat.clone(), "per4096")] {
            for t in [16usize, 300] {
                let edge = rng.bytes(t);
                put(&format!("big{}+tail", tag), &[], &body, &edge, n);
                put(&format!("bighead+{}", tag), &edge, &body, &[], n);
            }
        }
    }
    v
}

/// Inputs that look like streams themselves: every header-like start (type byte of a stream / wrapper / stored form,
/// small 24-bit length) followed by every short tail over {0x00, 'a'} (a zero flag byte and literals, among others),
/// and the same behind a 0x13 wrapper.  (The compressors' own output fed back in - compress(compress(x)) chains - is
/// added by the check from the recorded results, so that every call into mila stays inside the isolated worker.)
fn stream_like_inputs(quick: bool) -> Vec<(String, Vec<u8>)> {
    let mut v = Vec::new();
    let mut tails = Vec::new();
    all_strings(&[0u8, b'a'], if quick { 5 } else { 7 }, &mut tails);
    for ty in [0x10u8, 0x11, 0x13, 0x00] {
        for l in 0..=5u8 {
            for (_, tail) in &tails {
                let mut x = vec![ty, l, 0, 0];
                x.extend_from_slice(tail);
                v.push(("headerlike".to_string(), x));
            }
        }
    }
    let mut short_tails = Vec::new();
    all_strings(&[0u8, b'a'], 3, &mut short_tails);
    for inner in [0x10u8, 0x11] {
        for l in 0..=3u8 {
            for (_, tail) in &short_tails {
                let mut x = vec![0x13, 9, 0, 0, inner, l, 0, 0];
                x.extend_from_slice(tail);
                v.push(("headerlike".to_string(), x));
            }
        }
    }
    v
}

fn cmd_inputs(fmt: &str, path: &str, extra: Option<&str>) {
    let quick = tier_is_quick();
    let mut rng = Rng::new(seed_from_env() ^ if fmt == "lz10" { 0x10 } else { 0x13 });
    let mut v = Vec::new();
    all_strings(b"ab", if quick { 11 } else { 14 }, &mut v);
    all_strings(b"abc", if quick { 7 } else { 9 }, &mut v);
    v.extend(structured(fmt, &mut rng, quick));
    v.extend(stream_like_inputs(quick));
    // streams printed by the specification's generator (Gen_LZ), used as plain input
    if let Some(extra) = extra {
        for c in read_ndjson(extra) {
            v.push(("genstream".to_string(), json_to_bytes(&c["stream"])));
        }
    }
    let mut w = NdWriter::create(path);
    for (tag, input) in v {
        w.put(&json!({"fmt": fmt, "tag": tag, "input": bytes_to_json(&input)}));
    }
    for c in big_inputs(fmt, &mut rng, quick) {
        w.put(&c);
    }
    w.finish();
}

// ------------------------------------------------------------------------------------------------ C08 / C09
fn cmd_comp(cases_path: &str, out_path: &str, from: usize) {
    let cases = read_ndjson(cases_path);
    let via = std::env::var("VERIF_LZ_VIA").unwrap_or_else(|_| "direct".to_string());
    run_isolated(&cases, from, out_path, |_, c| {
        let fmt = c["fmt"].as_str().unwrap();
        // entry point for both compress and the own decompression of its result
        let entry = match (via.as_str(), fmt) {
            ("direct", f) => f,
            ("enum", "lz10") => "cf10",
            ("enum", "lz13") => "cf13",
            _ => usage("VERIF_LZ_VIA: direct|enum"),
        };
        if c.get("pat").is_some() {
            // input given by its generator: the event carries (pat, n), the whole stream, and whether mila's own
            // decompression of it returned the input (compared here: the input is not listed)
            let (head, pat, tail) = (json_to_bytes(&c["head"]), json_to_bytes(&c["pat"]), json_to_bytes(&c["tail"]));
            let n = c["n"].as_u64().unwrap() as usize;
            let mut input = head.clone();
            input.extend(periodic(&pat, n - head.len() - tail.len()));
            input.extend_from_slice(&tail);
            let r = compress(entry, &input);
            let rt = match &r {
                Ok(Ok(s)) => match decompress(entry, s) {
                    Ok(Ok(x)) => json!({"kind": "ok", "same": x == input, "len": x.len(), "msg": ""}),
                    Ok(Err(e)) => json!({"kind": "err", "same": false, "len": 0, "msg": e}),
                    Err(p) => json!({"kind": "panic", "same": false, "len": 0, "msg": p}),
                },
                _ => json!({"kind": "none", "same": false, "len": 0, "msg": ""}),
            };
            return json!({"kind": "bigcomp", "fmt": fmt, "tag": c["tag"], "head": c["head"], "pat": c["pat"], "tail": c["tail"], "n": c["n"],
                          "res": res_json(r), "rt": rt});
        }
        let input = json_to_bytes(&c["input"]);
        let r = compress(entry, &input);
        let rt = match &r {
            Ok(Ok(s)) => res_json(decompress(entry, s)),
            _ => json!({"kind": "none", "out": [], "alloc": false, "msg": ""}),
        };
        json!({"kind": "comp", "fmt": fmt, "tag": c["tag"], "input": c["input"], "res": res_json(r), "rt": rt})
    });
}

// ------------------------------------------------------------------------------------------------ C10
fn size_event(fmt: &str, input: &[u8], p: usize, pk: usize, list_input: bool) -> Value {
    let r = compress(fmt, input);
    let (ok, clen, msg) = match r {
        Ok(Ok(s)) => (true, s.len(), String::new()),
        Ok(Err(e)) => (false, 0, e),
        Err(p) => (false, 0, format!("panic {}", p)),
    };
    json!({"kind": "size", "fmt": fmt, "n": input.len(), "p": p, "pk": pk,
           "input": if list_input { bytes_to_json(input) } else { json!([]) }, "ok": ok, "clen": clen, "msg": msg})
}

/// one periodic size event, regenerated from (seed, fmt, p, pk, n) - used to replay a recorded C10 violation
fn cmd_sizeone(fmt: &str, p: usize, pk: usize, n: usize, out_path: &str) {
    let mut rng = Rng::new(seed_from_env() ^ ((p as u64) << 20) ^ ((pk as u64) << 40) ^ n as u64);
    let pat = pattern(&mut rng, p, pk).unwrap_or_else(|| usage("sizeone: pattern kind needs a longer period"));
    let mut w = NdWriter::create(out_path);
    w.put(&size_event(fmt, &periodic(&pat, n), p, pk, false));
    w.finish();
}

fn cmd_size(out_path: &str) {
    let quick = tier_is_quick();
    let seed = seed_from_env();
    // jobs: (fmt, period, pattern kind, n)
    let mut periods: Vec<usize> = Vec::new();
    if quick {
        periods.extend(1..=40);
        periods.extend_from_slice(&[255, 256, 257, 1000, 2048, 4090, 4091, 4092, 4093, 4094, 4095, 4096]);
    } else {
        periods.extend(1..=4096);
    }
    // periods that also get a long total (10^4 .. 10^6 bytes): the fixed list plus a seeded sample
    let mut long_periods: Vec<usize> = vec![1, 2, 17, 40, 100, 257, 1000, 2048, 4090, 4096];
    let mut prng = Rng::new(seed ^ 0x10A6);
    for _ in 0..(if quick { 50 } else { 1000 }) {
        long_periods.push(prng.range(40, 4096));
    }
    let mut jobs: Vec<(&'static str, usize, usize, usize)> = Vec::new();
    for &p in &periods {
        for fmt in ["lz10", "lz13"] {
            // long enough that a shortened match length or window shows up in the number of references
            let long = if fmt == "lz10" { p + 4096 + 19 } else { p + 4 * 4096 + 19 };
            for n in [2 * p + 37, long] {
                for pk in 0..PATTERN_KINDS {
                    jobs.push((fmt, p, pk, n));
                }
            }
        }
    }
    for &p in &long_periods {
        for fmt in ["lz10", "lz13"] {
            for pk in 0..PATTERN_KINDS {
                jobs.push((fmt, p, pk, long_total(p)));
            }
        }
    }
    // compression is quadratic in the window: spread the jobs round-robin over a few threads
    let nthreads = 6usize;
    let mut results: Vec<Vec<Value>> = Vec::new();
    std::thread::scope(|sc| {
        let jobs = &jobs;
        let hs: Vec<_> = (0..nthreads)
            .map(|t| {
                sc.spawn(move || {
                    jobs.iter()
                        .skip(t)
                        .step_by(nthreads)
                        .filter_map(|&(fmt, p, pk, n)| {
                            let mut rng = Rng::new(seed ^ ((p as u64) << 20) ^ ((pk as u64) << 40) ^ n as u64);
                            let pat = pattern(&mut rng, p, pk)?;
                            Some(size_event(fmt, &periodic(&pat, n), p, pk, false))
                        })
                        .collect::<Vec<Value>>()
                })
            })
            .collect();
        for h in hs {
            results.push(h.join().expect("worker thread"));
        }
    });
    let mut w = NdWriter::create(out_path);
    for r in results.iter().flatten() {
        w.put(r);
    }
    // expansion bound (and every period TLC finds in them) on all small inputs and the structured families
    let mut small = Vec::new();
    all_strings(b"ab", if quick { 10 } else { 13 }, &mut small);
    all_strings(b"abc", if quick { 6 } else { 8 }, &mut small);
    for fmt in ["lz10", "lz13"] {
        for (_, x) in &small {
            if !(fmt == "lz13" && x.is_empty()) {
                w.put(&size_event(fmt, x, 0, 9, true));
            }
        }
        let mut rng = Rng::new(seed ^ 0xC10);
        for (_, x) in structured(fmt, &mut rng, true) {
            if !x.is_empty() {
                w.put(&size_event(fmt, &x, 0, 9, x.len() <= 48));
            }
        }
    }
    w.finish();
}

// ------------------------------------------------------------------------------------------------ C11 spec -> impl
struct GenCase {
    stream: Vec<u8>,
    expect: Vec<u8>,
    entries: Vec<(String, String)>, // (entry, cls)
}

/// Gen_LZ cases are read line by line into a compact form (thorough tiers carry ~10^8 bytes of JSON numbers).
fn read_gen_cases(path: &str) -> Vec<GenCase> {
    use std::io::BufRead;
    let f = std::fs::File::open(path).unwrap_or_else(|e| usage(&format!("cannot open {}: {}", path, e)));
    let mut out = Vec::new();
    for line in std::io::BufReader::new(f).lines() {
        let line = line.unwrap();
        if line.trim().is_empty() {
            continue;
        }
        let c: Value = serde_json::from_str(&line).unwrap_or_else(|e| usage(&format!("bad json line in {}: {}", path, e)));
        out.push(GenCase {
            stream: json_to_bytes(&c["stream"]),
            expect: json_to_bytes(&c["expect"]),
            entries: c["entries"].as_array().expect("entries").iter()
                .map(|e| (e[0].as_str().unwrap().to_string(), e[1].as_str().unwrap().to_string()))
                .collect(),
        });
    }
    out
}

/// cases: {stream, expect, entries: [[entry, cls, why], ...]} as printed by Gen_LZ; one isolated call per
/// (case, entry) pair, numbered in file order.
fn cmd_deccmp(cases_path: &str, out_path: &str, from: usize) {
    let cases = read_gen_cases(cases_path);
    let mut flat: Vec<Value> = Vec::new();
    for (ci, c) in cases.iter().enumerate() {
        for ei in 0..c.entries.len() {
            flat.push(json!({"c": ci, "e": ei}));
        }
    }
    // Call history: the decoder is a function of the bytes only, whatever it was given before and wherever they lie.
    // Every stream is decoded in ONE reused buffer (same address), right after the nearest earlier DIFFERENT stream
    // of the same length and the same expansion length was decoded there through the same entry point.
    let mut pred: Vec<Option<usize>> = vec![None; cases.len()];
    let mut last: std::collections::HashMap<(usize, usize), Vec<usize>> = std::collections::HashMap::new();
    for (ci, c) in cases.iter().enumerate() {
        let l = last.entry((c.stream.len(), c.expect.len())).or_default();
        pred[ci] = l.iter().rev().take(8).cloned().find(|&j| cases[j].stream != c.stream);
        l.push(ci);
    }
    let maxlen = cases.iter().map(|c| c.stream.len()).max().unwrap_or(0);
    let arena = std::cell::RefCell::new(vec![0u8; maxlen]);
    run_isolated(&flat, from, out_path, |_, f| {
        let ci = f["c"].as_u64().unwrap() as usize;
        let (entry, cls) = &cases[ci].entries[f["e"].as_u64().unwrap() as usize];
        let (entry, cls) = (entry.as_str(), cls.as_str());
        let (stream, expect) = (&cases[ci].stream, &cases[ci].expect);
        let mut buf = arena.borrow_mut();
        let n = stream.len();
        if let Some(j) = pred[ci] {
            buf[..n].copy_from_slice(&cases[j].stream);
            let _ = decompress(entry, &buf[..n]);      // judged at its own turn
        }
        buf[..n].copy_from_slice(stream);
        let r = decompress(entry, &buf[..n]);
        let (kind, same, got_len, msg) = match &r {
            Ok(Ok(v)) => ("ok", v == expect, v.len(), String::new()),
            Ok(Err(e)) => ("err", false, 0, e.clone()),
            Err(p) => ("panic", false, 0, p.clone()),
        };
        // compare with TLC's verdict: ok -> Ok(expect); err -> Err; okerr -> Ok(expect) or Err; open -> Ok(_) or Err
        let conforms = match cls {
            "ok" => kind == "ok" && same,
            "err" => kind == "err",
            "okerr" => (kind == "ok" && same) || kind == "err",
            "open" => kind == "ok" || kind == "err",
            _ => usage("cls: ok|err|okerr|open"),
        };
        if conforms {
            return json!({"conforms": true});
        }
        let got_head: Vec<u8> = match &r {
            Ok(Ok(v)) => v.iter().cloned().take(64).collect(),
            _ => vec![],
        };
        json!({"c": ci, "entry": entry, "cls": cls, "conforms": conforms, "kind": kind, "same": same, "got_len": got_len,
               "got_head": bytes_to_json(&got_head), "msg": msg})
    });
}

/// Literal-only stream by rule: [wrapper] header(type, n) then groups of a zero flag byte and 8 literals taken
/// cyclically from the 8-byte pattern; `cut` bytes removed from the end.  TLC re-examines the bytes (LZ!IsLitStream).
fn lit_stream(form: &str, pat: &[u8], n: usize, cut: usize) -> Vec<u8> {
    let mut s = Vec::with_capacity(n + n / 8 + 16);
    if form == "wrapped" {
        s.extend_from_slice(&[0x13, 0x21, 0x43, 0x65]);
    }
    s.push(if form == "lz10" { 0x10 } else { 0x11 });
    s.extend_from_slice(&[(n & 0xFF) as u8, ((n >> 8) & 0xFF) as u8, ((n >> 16) & 0xFF) as u8]);
    for i in 0..n {
        if i % 8 == 0 {
            s.push(0);
        }
        s.push(pat[i % pat.len()]);
    }
    s.truncate(s.len() - cut);
    s
}

fn cmd_bigdecgen(out_path: &str) {
    let quick = tier_is_quick();
    let mut rng = Rng::new(seed_from_env() ^ 0xB16);
    let mut w = NdWriter::create(out_path);
    // total stream lengths around powers of two between 2^16 and 2^20
    let mut targets: Vec<usize> = vec![(1 << 16) + 1, (1 << 18) + 1, (1 << 20) + 1];
    if !quick {
        targets.extend_from_slice(&[(1 << 16) - 1, 1 << 16, (1 << 17) + 1, (1 << 18) - 1, 1 << 18, (1 << 19) + 1]);
    }
    for &target in &targets {
        for form in ["lz10", "lz11", "wrapped"] {
            let pat = rng.bytes(8);
            let overhead = if form == "wrapped" { 8 } else { 4 };
            // largest n whose stream is not longer than the target
            let mut n = (target - overhead) * 8 / 9;
            while overhead + n + (n + 7) / 8 > target {
                n -= 1;
            }
            for cut in [0usize, 1, 9] {
                for entry in ["lz10", "lz13", "cf10", "cf13"] {
                    w.put(&json!({"entry": entry, "form": form, "pat": bytes_to_json(&pat), "n": n, "cut": cut}));
                }
            }
        }
    }
    w.finish();
}

fn cmd_bigdec(cases_path: &str, out_path: &str, from: usize) {
    let cases = read_ndjson(cases_path);
    run_isolated(&cases, from, out_path, |_, c| {
        let entry = c["entry"].as_str().unwrap();
        let pat = json_to_bytes(&c["pat"]);
        let n = c["n"].as_u64().unwrap() as usize;
        let stream = lit_stream(c["form"].as_str().unwrap(), &pat, n, c["cut"].as_u64().unwrap() as usize);
        let res = match decompress(entry, &stream) {
            Ok(Ok(x)) => json!({"kind": "ok", "same": x == periodic(&pat, n), "len": x.len(), "msg": ""}),
            Ok(Err(e)) => json!({"kind": "err", "same": false, "len": 0, "msg": e}),
            Err(p) => json!({"kind": "panic", "same": false, "len": 0, "msg": p}),
        };
        // the stream itself is logged once per (form, n, cut): with the first entry point
        let listed = if entry == "lz10" { bytes_to_json(&stream) } else { json!([]) };
        json!({"entry": entry, "form": c["form"], "pat": c["pat"], "n": n, "cut": c["cut"], "stream_len": stream.len(), "stream": listed, "res": res})
    });
}

/// Random token sequences at the real parameters of a format.  Only the CHOICE of tokens is made here (kind,
/// length log-uniform over the format's whole range, displacement anywhere in 1..min(produced, 4096)); encoding,
/// well-formedness and the expected expansion are TLC's (Gen_LZ family "rand").
fn log_uniform(rng: &mut Rng, lo: usize, hi: usize) -> usize {
    let u = (rng.next() >> 11) as f64 / (1u64 << 53) as f64;
    let v = (lo as f64) * ((hi as f64 + 1.0) / lo as f64).powf(u);
    (v as usize).clamp(lo, hi)
}

fn cmd_tokgen(out_path: &str) {
    let quick = tier_is_quick();
    let mut rng = Rng::new(seed_from_env() ^ 0x70C);
    let mut w = NdWriter::create(out_path);
    let budget = 70_000usize; // total expansion per stream
    for s in 0..(if quick { 80 } else { 600 }) {
        let fmt = if s % 3 == 0 { "lz10" } else { "lz11" };
        let max_len = if fmt == "lz10" { 18 } else { 65808 };
        let mut ts: Vec<Value> = Vec::new();
        let mut produced = 0usize;
        // a prefix of literals: mostly short, sometimes long enough to fill the window
        let first = if rng.chance(1, 6) { log_uniform(&mut rng, 100, 5000) } else { rng.range(1, 20) };
        ts.push(json!({"k": "run", "b": rng.below(256), "len": first, "disp": 0}));
        produced += first;
        for _ in 0..rng.range(2, 12) {
            match rng.below(10) {
                0..=2 => {
                    ts.push(json!({"k": "lit", "b": 97 + rng.below(2), "len": 1, "disp": 0}));
                    produced += 1;
                }
                3 => {
                    let n = rng.range(1, 40);
                    ts.push(json!({"k": "run", "b": rng.below(256), "len": n, "disp": 0}));
                    produced += n;
                }
                _ => {
                    let room = budget.saturating_sub(produced);
                    if room < 3 {
                        break;
                    }
                    let len = log_uniform(&mut rng, 3, max_len.min(room));
                    let far = produced.min(4096);
                    let disp = match rng.below(6) {
                        0 => 1,
                        1 => far,
                        2 => far.saturating_sub(1).max(1),
                        3 => log_uniform(&mut rng, 1, far),
                        _ => rng.range(1, far),
                    };
                    ts.push(json!({"k": "ref", "b": 0, "len": len, "disp": disp}));
                    produced += len;
                }
            }
        }
        w.put(&json!({"fmt": fmt, "ts": ts}));
    }
    w.finish();
}

// ------------------------------------------------------------------------------------------------ C11 impl -> spec
fn corrupt(rng: &mut Rng, s: &[u8]) -> Vec<u8> {
    let mut v = s.to_vec();
    let n = v.len();
    match rng.below(10) {
        0 if n > 0 => v.truncate(rng.below(n)),                 // any truncation
        1 if n > 0 => v.truncate(n - 1 - rng.below(n.min(4))),  // cut inside the last token
        2 if n > 0 => { let i = rng.below(n); v[i] ^= 1 << rng.below(8); }
        3 if n > 0 => { let i = rng.below(n); v[i] = *rng.pick(&[0u8, 0xFF, 0x0F, 0xF0, 0x10, 0x11, 0x13]); }
        4 if n > 4 => { let i = rng.range(4, n - 1); v[i] = 0xFF; }        // flag byte / reference with far displacement
        5 if n > 0 => { let i = rng.below(n.min(8)); v[i] = rng.next() as u8; } // header bytes
        6 if n > 0 => { v.remove(rng.below(n)); }
        7 => { v.insert(rng.below(n + 1), rng.next() as u8); }
        8 => { let k = rng.range(1, 4); v.extend(rng.bytes(k)); }
        _ => { for _ in 0..rng.range(2, 4) { if !v.is_empty() { let i = rng.below(v.len()); v[i] = rng.next() as u8; } } }
    }
    v
}

fn cmd_fuzzgen(seeds_path: &str, out_path: &str) {
    let quick = tier_is_quick();
    let mut rng = Rng::new(seed_from_env() ^ 0xC11);
    let mut seeds: Vec<Vec<u8>> = read_ndjson(seeds_path).iter().map(|c| json_to_bytes(&c["stream"])).filter(|s| s.len() <= 400).collect();
    // streams of mila's own compressors (several flag groups, realistic token mixes)
    for k in 0..(if quick { 12 } else { 60 }) {
        let x = self_similar(&mut rng, &[3, 4, 16, 17, 18, 19, 40], &[1, 2, 3, 4, 17], 30 + 25 * (k % 12), 3);
        for fmt in ["lz10", "lz13"] {
            if let Ok(Ok(s)) = compress(fmt, &x) {
                seeds.push(s);
            }
        }
    }
    if seeds.is_empty() {
        usage("fuzzgen: no seeds");
    }
    let entries = ["lz10", "lz13", "cf10", "cf13"];
    let mut w = NdWriter::create(out_path);
    let n_corrupt = if quick { 2500 } else { 25000 };
    for _ in 0..n_corrupt {
        let seed = seeds[rng.below(seeds.len())].clone();
        let s = corrupt(&mut rng, &seed);
        let s = if rng.chance(1, 5) { corrupt(&mut rng, &s) } else { s };
        w.put(&json!({"entry": *rng.pick(&entries), "tag": "corrupt", "stream": bytes_to_json(&s)}));
    }
    // arbitrary bytes behind every plausible first byte, all short lengths
    let n_random = if quick { 1500 } else { 15000 };
    for k in 0..n_random {
        let n = if k < 200 { k % 10 } else { rng.range(0, 48) };
        let mut s = rng.bytes(n);
        if n > 0 && rng.chance(5, 6) {
            s[0] = *rng.pick(&[0x10u8, 0x11, 0x13, 0x00]);
            if n > 3 && rng.chance(2, 3) {
                // a plausible declared length
                s[1] = rng.below(40) as u8;
                s[2] = 0;
                s[3] = 0;
            }
            if s[0] == 0x13 && n > 7 && rng.chance(3, 4) {
                s[4] = *rng.pick(&[0x10u8, 0x11]);
                s[5] = rng.below(40) as u8;
                s[6] = 0;
                s[7] = 0;
            }
        }
        w.put(&json!({"entry": *rng.pick(&entries), "tag": "random", "stream": bytes_to_json(&s)}));
    }
    w.finish();
}

fn cmd_declog(cases_path: &str, out_path: &str, from: usize) {
    let cases = read_ndjson(cases_path);
    run_isolated(&cases, from, out_path, |_, c| {
        let entry = c["entry"].as_str().unwrap();
        let stream = json_to_bytes(&c["stream"]);
        json!({"kind": "dec", "entry": entry, "tag": c["tag"], "stream": c["stream"], "res": res_json(decompress(entry, &stream))})
    });
}

fn from_arg(args: &[String], at: usize) -> usize {
    if args.len() == at + 2 && args[at] == "--from" {
        args[at + 1].parse().unwrap_or_else(|_| usage("--from <k>"))
    } else if args.len() == at {
        0
    } else {
        usage("... [--from k]")
    }
}

fn main() {
    install_panic_hook();
    let args: Vec<String> = std::env::args().skip(1).collect();
    let a = &args[..];
    match a.first().map(|s| s.as_str()) {
        Some("inputs") if a.len() == 3 => cmd_inputs(&a[1], &a[2], None),
        Some("inputs") if a.len() == 4 => cmd_inputs(&a[1], &a[2], Some(&a[3])),
        Some("comp") if a.len() >= 3 => cmd_comp(&a[1], &a[2], from_arg(a, 3)),
        Some("size") if a.len() == 2 => cmd_size(&a[1]),
        Some("sizeone") if a.len() == 6 => cmd_sizeone(&a[1], a[2].parse().unwrap(), a[3].parse().unwrap(), a[4].parse().unwrap(), &a[5]),
        Some("deccmp") if a.len() >= 3 => cmd_deccmp(&a[1], &a[2], from_arg(a, 3)),
        Some("bigdecgen") if a.len() == 2 => cmd_bigdecgen(&a[1]),
        Some("bigdec") if a.len() >= 3 => cmd_bigdec(&a[1], &a[2], from_arg(a, 3)),
        Some("tokgen") if a.len() == 2 => cmd_tokgen(&a[1]),
        Some("fuzzgen") if a.len() == 3 => cmd_fuzzgen(&a[1], &a[2]),
        Some("declog") if a.len() >= 3 => cmd_declog(&a[1], &a[2], from_arg(a, 3)),
        _ => usage("mvh_lz inputs <lz10|lz13> <cases> | comp <cases> <out> [--from k] | size <out> | deccmp <cases> <out> [--from k] | fuzzgen <seeds> <cases> | declog <cases> <out> [--from k]"),
    }
}
