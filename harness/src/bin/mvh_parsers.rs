//! mvh_parsers — C05: every parser of untrusted bytes, run on arbitrary buffers in an isolated worker.
//!   bases <out.ndjson>                         conforming base images written by mila's own serializers
//!   random <bases.ndjson> <out.ndjson> <n>     random buffers and random (structure-blind) mutations of the bases
//!   run <inputs.ndjson> <out.ndjson> --from k  all entry points on every input (supervised: see vlib.isolated)
use indexmap::IndexMap;
use mila::{ASetFile, AssetBinary, AssetSpec, BinArchive, Endian, TextArchive, TextArchiveFormat};
use mvh::proj;
use mvh::util::*;
use serde_json::{json, Value};

fn outcome<T, E>(r: Result<Result<T, E>, String>) -> (String, Option<T>) {
    match r {
        Ok(Ok(v)) => ("ok".to_string(), Some(v)),
        Ok(Err(_)) => ("err".to_string(), None),
        Err(p) => (format!("panic {}", p), None),
    }
}

/// run one entry point: parse, then (if accepted) re-serialize; report outcome, largest allocation, reser outcome
fn entry<T>(parse: impl FnOnce() -> Result<T, String>, reser: impl FnOnce(&T) -> Result<(), String>) -> Value {
    alloc_reset();
    let t = std::time::Instant::now();
    let (o, v) = outcome(catch(parse));
    let max_alloc = alloc_max();
    let mut r = "none".to_string();
    if let Some(v) = v {
        r = match catch(|| reser(&v)) {
            Ok(Ok(())) => "ok".to_string(),
            Ok(Err(_)) => "err".to_string(),
            Err(p) => format!("panic {}", p),
        };
    }
    json!({"outcome": o, "max_alloc": max_alloc, "reser": r, "ms": t.elapsed().as_millis() as u64})
}

fn run_all(bytes: &[u8]) -> Value {
    let mut out = serde_json::Map::new();
    let s = |e: &dyn std::fmt::Display| e.to_string();
    for (name, e) in [("bin_le", Endian::Little), ("bin_be", Endian::Big)] {
        out.insert(
            name.to_string(),
            entry(|| BinArchive::from_bytes(bytes, e).map_err(|x| s(&x)), |a| a.serialize().map(|_| ()).map_err(|x| s(&x))),
        );
    }
    for (name, f, e) in [
        ("text_sjis_le", TextArchiveFormat::ShiftJIS, Endian::Little),
        ("text_sjis_be", TextArchiveFormat::ShiftJIS, Endian::Big),
        ("text_uni_le", TextArchiveFormat::Unicode, Endian::Little),
        ("text_uni_be", TextArchiveFormat::Unicode, Endian::Big),
    ] {
        out.insert(
            name.to_string(),
            entry(|| TextArchive::from_bytes(bytes, f, e).map_err(|x| s(&x)), |a| a.serialize().map(|_| ()).map_err(|x| s(&x))),
        );
    }
    out.insert("arc".to_string(), entry(|| mila::arc::from_bytes(bytes).map_err(|x| s(&x)), |_| Ok(())));
    out.insert(
        "pack".to_string(),
        entry(|| mila::fe9_arc::parse(bytes).map_err(|x| s(&x)), |m| mila::fe9_arc::serialize(m).map(|_| ()).map_err(|x| s(&x))),
    );
    out.insert(
        "aset".to_string(),
        entry(
            || {
                let a = BinArchive::from_bytes(bytes, Endian::Little).map_err(|x| s(&x))?;
                ASetFile::from_archive(&a).map_err(|x| s(&x))
            },
            |v| v.serialize().map(|_| ()).map_err(|x| s(&x)),
        ),
    );
    out.insert(
        "asset".to_string(),
        entry(
            || {
                let a = BinArchive::from_bytes(bytes, Endian::Little).map_err(|x| s(&x))?;
                AssetBinary::from_archive(&a).map_err(|x| s(&x))
            },
            |v| v.serialize().map(|_| ()).map_err(|x| s(&x)),
        ),
    );
    Value::Object(out)
}

fn run(inputs: &str, out_path: &str, from: usize) {
    let cases = read_ndjson(inputs);
    run_isolated(&cases, from, out_path, |_, c| {
        let bytes = json_to_bytes(&c["bytes"]);
        json!({"id": c["id"], "out": run_all(&bytes)})
    });
}

// ---- base images ---------------------------------------------------------------------------------------
fn bases(out_path: &str) {
    let mut out = NdWriter::create(out_path);
    let mut put = |name: &str, family: &str, bytes: Vec<u8>| out.put(&json!({"name": name, "family": family, "bytes": bytes}));
    // pack
    let mut m: IndexMap<String, Vec<u8>> = IndexMap::new();
    put("pack-empty", "pack", mila::fe9_arc::serialize(&m).unwrap());
    m.insert("a.bin".to_string(), vec![1, 2, 3]);
    m.insert("表.cmp".to_string(), (0..33u8).collect());
    m.insert("empty".to_string(), vec![]);
    put("pack-3", "pack", mila::fe9_arc::serialize(&m).unwrap());
    // a pack whose entry table crosses the 16-bit offset range (more than 4096 entries, table > 64 KiB)
    let mut big: IndexMap<String, Vec<u8>> = IndexMap::new();
    for i in 0..4100 {
        big.insert(format!("f{:04}", i), if i % 1000 == 999 { vec![i as u8; 3] } else { vec![] });
    }
    put("pack-4100", "pack", mila::fe9_arc::serialize(&big).unwrap());
    // arc (padded and unpadded), built through the archive API
    for padded in [true, false] {
        let pad = if padded { 0x60 } else { 0 };
        let mut a = BinArchive::new(Endian::Little);
        // [pad] [u32 count] [3 records of 16 bytes] [bodies]; the third file is empty (its offset is the end of the data)
        a.allocate_at_end(pad + 4 + 48 + 12);
        let base = pad;
        if !padded {
            // first data word must be non-zero in the unpadded variant: it is the count (3)
        }
        a.write_u32(base, 3).unwrap();
        a.write_label(base, "Count").unwrap();
        a.write_label(base + 4, "Info").unwrap();
        let bodies = base + 4 + 48;
        for (i, (nm, sz, off)) in [("f1", 5u32, 0u32), ("日本", 3u32, 8u32), ("empty", 0u32, 12u32)].iter().enumerate() {
            let r = base + 4 + 16 * i;
            a.write_string(r, Some(nm)).unwrap();
            a.write_u32(r + 4, i as u32).unwrap();
            a.write_u32(r + 8, *sz).unwrap();
            a.write_u32(r + 12, (bodies - pad) as u32 + off).unwrap();
        }
        a.write_bytes(bodies, &[9, 8, 7, 6, 5, 0, 0, 0, 1, 2, 3, 0]).unwrap();
        put(if padded { "arc-padded" } else { "arc-unpadded" }, "arc", a.serialize().unwrap());
    }
    // aset
    let mut aset = ASetFile::new(Some("meta".to_string()));
    aset.anim_clip_table = (0..257).map(|i| if i % 50 == 0 { Some(format!("clip{}", i)) } else { None }).collect();
    let mut set: Vec<Option<String>> = vec![None; 257];
    set[0] = Some("SetLabel".to_string());
    set[1] = Some("s1".to_string());
    set[32] = Some("s32".to_string());
    set[256] = Some("last".to_string());
    aset.sets.push(set);
    aset.sets.push(vec![None; 257]);
    put("aset-small", "bin_le", aset.serialize().unwrap());
    // asset binary
    let mut ab = AssetBinary::new();
    ab.flags = 0x01020304;
    let mut sp = AssetSpec::new();
    sp.name = Some("spec".to_string());
    sp.body_model = Some("body".to_string());
    sp.voice = Some("v".to_string());
    sp.use_hair_color = true;
    sp.hair_color = [1, 2, 3, 4];
    sp.use_unk13 = true;
    sp.unk13 = 0xdeadbeef;
    ab.specs.push(sp);
    let mut sp2 = AssetSpec::new();
    sp2.name = Some("short".to_string());
    sp2.footstep_sound = Some("step".to_string());
    ab.specs.push(sp2);
    // a third record whose last cells are the three f32 sizes (every field type ends a record somewhere)
    let mut sp3 = AssetSpec::new();
    sp3.name = Some("sized".to_string());
    sp3.use_model_size = true;
    sp3.model_size = 1.5;
    sp3.use_head_size = true;
    sp3.head_size = -0.25;
    sp3.use_pupil_y = true;
    sp3.pupil_y = 3.0;
    ab.specs.push(sp3);
    put("asset-small", "bin_le", ab.serialize().unwrap());
    // text archives
    for (nm, f, e, fam) in [
        ("text-uni-le", TextArchiveFormat::Unicode, Endian::Little, "bin_le"),
        ("text-uni-be", TextArchiveFormat::Unicode, Endian::Big, "bin_be"),
        ("text-sjis-le", TextArchiveFormat::ShiftJIS, Endian::Little, "bin_le"),
        ("text-sjis-be", TextArchiveFormat::ShiftJIS, Endian::Big, "bin_be"),
    ] {
        let mut t = TextArchive::new(f, e);
        t.set_title("Title".to_string());
        t.set_message("MID_A", "hello");
        t.set_message("MID_B", "あいう");
        t.set_message("MID_C", "");
        put(nm, fam, t.serialize().unwrap());
        // degenerate archives: no message at all, titles of every alignment class (the data region is the title alone,
        // so the specification's data cuts end the data inside the title's last, partial word)
        for title in ["", "A", "ABC", "ABCD", "ABCDEFG"] {
            let mut t = TextArchive::new(f, e);
            t.set_title(title.to_string());
            put(&format!("{}-only-title{}", nm, title.len()), fam, t.serialize().unwrap());
        }
    }
    // generic bin archives with every kind of annotation
    for (nm, e, fam) in [("bin-mixed-le", "le", "bin_le"), ("bin-mixed-be", "be", "bin_be")] {
        let content = json!({"endian": e, "data": (1..=24u8).collect::<Vec<u8>>(), "text": [[0, [65, 66]], [12, [65, 66]], [16, [149, 92]]],
                             "ptrs": [[4, 0], [8, 24]], "labels": [[0, [[76, 49]]], [5, [[76, 50], [76, 51]]], [24, [[69, 110, 100]]]], "cstr": [[20, [67, 83]]]});
        let a = proj::build(&content).unwrap();
        put(nm, fam, a.serialize().unwrap());
    }
    out.finish();
}

fn random(bases_path: &str, out_path: &str, n: usize) {
    let bases = read_ndjson(bases_path);
    let mut rng = Rng::new(seed_from_env() ^ 0xC05);
    let mut out = NdWriter::create(out_path);
    for k in 0..n {
        let bytes: Vec<u8> = match k % 4 {
            0 => {
                // arbitrary bytes, sometimes with a plausible header
                let len = match rng.below(6) {
                    0 => rng.below(40),
                    1 => rng.range(32, 4096),
                    _ => rng.range(0, 300),
                };
                let mut b = rng.bytes(len);
                if len >= 16 && rng.chance(1, 2) {
                    // small header fields so that parsing gets past the size check
                    for off in [4usize, 8, 12] {
                        let v = (rng.below(len) as u32 / 4).to_le_bytes();
                        let v = if rng.chance(1, 2) { v } else { (u32::from_le_bytes(v)).to_be_bytes() };
                        b[off..off + 4].copy_from_slice(&v);
                    }
                }
                if len >= 4 && rng.chance(1, 6) {
                    b[0..4].copy_from_slice(b"pack");
                }
                b
            }
            _ => {
                let mut b = json_to_bytes(&bases[rng.below(bases.len())]["bytes"]);
                let edits = rng.range(1, 4);
                for _ in 0..edits {
                    if b.is_empty() {
                        break;
                    }
                    match rng.below(6) {
                        0 => {
                            let i = rng.below(b.len());
                            b[i] ^= 1 << rng.below(8);
                        }
                        1 => {
                            let i = rng.below(b.len());
                            b[i] = *rng.pick(&[0u8, 0xff, 0x80, 0x7f, 1]);
                        }
                        2 => {
                            // stomp an aligned word
                            let i = rng.below(b.len() / 4 + 1) * 4;
                            if i + 4 <= b.len() {
                                let v: u32 = *rng.pick(&[0u32, 1, 0xffff_ffff, 0x8000_0000, 0x7fff_ffff, 0x4000_0000, 0xffff_fffc, 0x100, b.len() as u32]);
                                let w = if rng.chance(1, 2) { v.to_le_bytes() } else { v.to_be_bytes() };
                                b[i..i + 4].copy_from_slice(&w);
                            }
                        }
                        3 => {
                            let cut = rng.below(b.len());
                            b.truncate(cut);
                        }
                        4 => {
                            // splice a slice of itself somewhere else
                            let i = rng.below(b.len());
                            let j = rng.below(b.len());
                            let l = rng.below(16).min(b.len() - i.max(j));
                            let chunk: Vec<u8> = b[i..i + l].to_vec();
                            b[j..j + l].copy_from_slice(&chunk);
                        }
                        _ => {
                            let extra = rng.below(9);
                            let tail = rng.bytes(extra);
                            b.extend(tail);
                        }
                    }
                }
                b
            }
        };
        out.put(&json!({"id": format!("random-{}", k), "bytes": bytes}));
    }
    out.finish();
}

fn main() {
    install_panic_hook();
    let args: Vec<String> = std::env::args().skip(1).collect();
    let a: Vec<&str> = args.iter().map(|s| s.as_str()).collect();
    match a.as_slice() {
        ["bases", out] => bases(out),
        ["random", b, out, n] => random(b, out, n.parse().unwrap()),
        ["run", inputs, out, "--from", k] => run(inputs, out, k.parse().unwrap()),
        _ => usage("mvh_parsers bases|random|run ..."),
    }
}
