//! mvh_parsers — not built yet.
use mvh::util::*;

fn main() {
    install_panic_hook();
    usage("mvh_parsers: not implemented yet");
}
