//! Layered filesystem and path localisation (C12, C13, C14).
//!
//!   localize <cases.ndjson> <out.ndjson>
//!       spec -> impl for C14: every case {loc, lang, raw, allowed:[{ok,s}]} printed by Gen_Localize is run
//!       through the real PathLocalizer::localize and compared string-for-string.
//!   replay <cases.ndjson> <out.ndjson> [--from k]
//!       spec -> impl for C12/C13: a case is {game, lang, layers, events, fresh}: the state printed by
//!       Gen_LayeredFS is materialised as real directories (one per layer), the calls are applied to a real
//!       LayeredFilesystem and everything observed is RECORDED (result, full walk of every layer after the
//!       call, observed environment functions).  Nothing is judged here: Trace_LayeredFS (TLC) decides.
//!   record <out.ndjson> <runs> <len> [--from k]
//!       impl -> spec: seeded random layer trees and call histories, recorded in the same format.
//! Output of replay/record: one line per case/run {"i", "events":[...]} (protocol of util::run_isolated, so an
//! abort of the code under test is attributed to its case).
use indexmap::IndexMap;
use mila::*;
use mvh::proj;
use mvh::util::*;
use serde_json::{json, Map, Value};
use std::collections::HashMap;
use std::path::{Path, PathBuf};

// ---------------------------------------------------------------------------------------------- names
fn game_of(s: &str) -> Game {
    match s {
        "FE9" => Game::FE9,
        "FE10" => Game::FE10,
        "FE11" => Game::FE11,
        "FE12" => Game::FE12,
        "FE13" => Game::FE13,
        "FE14" => Game::FE14,
        "FE15" => Game::FE15,
        _ => usage("game name"),
    }
}
fn lang_of(s: &str) -> Language {
    match s {
        "EnglishNA" => Language::EnglishNA,
        "EnglishEU" => Language::EnglishEU,
        "Japanese" => Language::Japanese,
        "Spanish" => Language::Spanish,
        "French" => Language::French,
        "Italian" => Language::Italian,
        "German" => Language::German,
        "Dutch" => Language::Dutch,
        _ => usage("language name"),
    }
}
fn localizer_of(s: &str) -> PathLocalizer {
    match s {
        "NoOp" => PathLocalizer::NoOp(NoOpPathLocalizer {}),
        "FE9" => PathLocalizer::FE9(FE9PathLocalizer {}),
        "FE10" => PathLocalizer::FE10(FE10PathLocalizer {}),
        "FE13" => PathLocalizer::FE13(FE13PathLocalizer {}),
        "FE14" => PathLocalizer::FE14(FE14PathLocalizer {}),
        "FE15" => PathLocalizer::FE15(FE15PathLocalizer {}),
        _ => usage("localizer name"),
    }
}
const GAMES: [&str; 5] = ["FE9", "FE10", "FE13", "FE14", "FE15"];
const LANGS: [&str; 8] = ["EnglishNA", "EnglishEU", "Japanese", "Spanish", "French", "Italian", "German", "Dutch"];

fn bytes_to_string(v: &Value) -> String {
    String::from_utf8(json_to_bytes(v)).unwrap_or_else(|_| usage("path bytes are not UTF-8"))
}

// ---------------------------------------------------------------------------------------------- C14
fn localize_mode(cases_path: &str, out_path: &str) {
    let cases = read_ndjson(cases_path);
    let mut out = NdWriter::create(out_path);
    let (mut n, mut bad) = (0u64, 0u64);
    for (i, c) in cases.iter().enumerate() {
        n += 1;
        let l = localizer_of(c["loc"].as_str().unwrap());
        let lang = lang_of(c["lang"].as_str().unwrap());
        let raw = bytes_to_string(&c["raw"]);
        let got = match catch(|| l.localize(&raw, &lang)) {
            Ok(Ok(s)) => json!({"ok": true, "s": bytes_to_json(s.as_bytes())}),
            Ok(Err(_)) => json!({"ok": false, "s": []}),
            Err(p) => json!({"panic": p}),
        };
        if !c["allowed"].as_array().unwrap().iter().any(|a| a == &got) {
            bad += 1;
            let shown = match got.get("s") {
                Some(s) => String::from_utf8_lossy(&json_to_bytes(s)).to_string(),
                None => String::new(),
            };
            out.put(&json!({"kind": "mismatch", "i": i, "case": c, "got": got, "path": raw, "got_str": shown}));
        }
    }
    out.put(&json!({"kind": "summary", "cases": n, "mismatches": bad}));
    out.finish();
}

// ---------------------------------------------------------------------------------------------- world
struct World {
    root: PathBuf,
    layers: Vec<PathBuf>,
    /// how the layer roots are SPELLED when handed to LayeredFilesystem::new (the statement does not restrict it)
    given: Vec<String>,
    canon: Vec<String>,
    style: usize,
}
static COUNTER: std::sync::atomic::AtomicUsize = std::sync::atomic::AtomicUsize::new(0);
/// 0 = every root in its plain spelling; k > 0: layer i is spelled in style (k + i) mod 8 of
/// plain | trailing '/' | via "<root>/x/../lN" | doubled "//" | a symlink to the layer directory | relative to the cwd
/// | the layer directory itself has a non-ASCII (multi-byte UTF-8) name, two variants
static ROOT_STYLE: std::sync::atomic::AtomicUsize = std::sync::atomic::AtomicUsize::new(0);
fn set_root_style(k: usize) {
    ROOT_STYLE.store(k, std::sync::atomic::Ordering::Relaxed);
}
const ROOT_STYLES: [&str; 8] =
    ["plain", "trailing-slash", "dotdot", "double-slash", "symlink", "relative", "unicode-a", "unicode-b"];

impl World {
    fn create(nlayers: usize) -> World {
        let k = COUNTER.fetch_add(1, std::sync::atomic::Ordering::Relaxed);
        let root = std::env::temp_dir().join(format!("mvhfs{}x{}", std::process::id(), k));
        let _ = std::fs::remove_dir_all(&root);
        let style = ROOT_STYLE.load(std::sync::atomic::Ordering::Relaxed);
        let mut layers = Vec::new();
        let mut given = Vec::new();
        for i in 0..nlayers {
            let st = if style == 0 { "plain" } else { ROOT_STYLES[(style + i) % ROOT_STYLES.len()] };
            let name = match st {
                "unicode-a" => format!("\u{30b2}\u{30fc}\u{30e0}{}", i + 1),
                "unicode-b" => format!("m\u{f3}dulo-\u{e9}{}", i + 1),
                _ => format!("l{}", i + 1),
            };
            let l = root.join(&name);
            std::fs::create_dir_all(&l).expect("create layer dir");
            let r = root.display().to_string();
            given.push(match st {
                "trailing-slash" => format!("{}/{}/", r, name),
                "dotdot" => {
                    std::fs::create_dir_all(root.join("x")).expect("create x");
                    format!("{}/x/../{}", r, name)
                }
                "double-slash" => format!("{}//{}", r, name),
                "symlink" => {
                    // a symlink to the layer directory itself: the tree below stays a plain tree
                    let link = root.join(format!("s{}", i + 1));
                    std::os::unix::fs::symlink(&l, &link).expect("symlink");
                    link.display().to_string()
                }
                "relative" => {
                    std::env::set_current_dir(&root).expect("chdir");
                    name.clone()
                }
                _ => l.display().to_string(),
            });
            layers.push(l);
        }
        let canon = layers.iter().map(|l| std::fs::canonicalize(l).unwrap().display().to_string()).collect();
        World { root, layers, given, canon, style }
    }
    fn layer_strings(&self) -> Vec<String> {
        self.given.clone()
    }
    /// the spellings with the temp root abbreviated (for the log)
    fn spellings(&self) -> Vec<String> {
        let r = self.root.display().to_string();
        self.given.iter().map(|g| g.replace(&r, "<root>")).collect()
    }
}
impl Drop for World {
    fn drop(&mut self) {
        let _ = std::env::set_current_dir(std::env::temp_dir());
        let _ = std::fs::remove_dir_all(&self.root);
    }
}

fn comps_to_rel(p: &Value) -> PathBuf {
    let mut r = PathBuf::new();
    for c in p.as_array().unwrap() {
        r.push(bytes_to_string(c));
    }
    r
}

/// observed environment function: what the two decompressors make of stored bytes
fn xobs(b: &[u8]) -> Value {
    // the walk runs after every call: remember what the decompressors said about a byte string
    thread_local! {
        static MEMO: std::cell::RefCell<HashMap<Vec<u8>, Value>> = std::cell::RefCell::new(HashMap::new());
    }
    if let Some(v) = MEMO.with(|m| m.borrow().get(b).cloned()) {
        return v;
    }
    let v = xobs_compute(b);
    MEMO.with(|m| {
        let mut m = m.borrow_mut();
        if m.len() > 20000 {
            m.clear();
        }
        m.insert(b.to_vec(), v.clone());
    });
    v
}
fn xobs_compute(b: &[u8]) -> Value {
    let one = |r: Result<Result<Vec<u8>, CompressionError>, String>| match r {
        Ok(Ok(v)) => json!({"ok": true, "v": bytes_to_json(&v)}),
        _ => json!({"ok": false, "v": []}),
    };
    json!({
        "lz10": one(catch(|| LZ10CompressionFormat {}.decompress(b))),
        "lz13": one(catch(|| LZ13CompressionFormat {}.decompress(b))),
    })
}
fn no_x() -> Value {
    json!({"lz10": {"ok": false, "v": []}, "lz13": {"ok": false, "v": []}})
}

fn materialise(layers: &Value) -> Result<World, String> {
    let ls = layers.as_array().ok_or("layers")?;
    let w = World::create(ls.len());
    for (i, l) in ls.iter().enumerate() {
        let mut nodes: Vec<&Value> = l.as_array().ok_or("layer")?.iter().collect();
        nodes.sort_by_key(|n| n["p"].as_array().unwrap().len());
        for n in nodes {
            let full = w.layers[i].join(comps_to_rel(&n["p"]));
            match n["k"].as_str() {
                Some("dir") => std::fs::create_dir_all(&full).map_err(|e| e.to_string())?,
                Some("file") => {
                    if let Some(parent) = full.parent() {
                        std::fs::create_dir_all(parent).map_err(|e| e.to_string())?;
                    }
                    std::fs::write(&full, json_to_bytes(&n["b"])).map_err(|e| e.to_string())?
                }
                _ => return Err("node kind".into()),
            }
        }
    }
    Ok(w)
}

fn walk(dir: &Path, prefix: &mut Vec<Value>, out: &mut Vec<Value>) {
    let mut entries: Vec<_> = std::fs::read_dir(dir).expect("read_dir").map(|e| e.expect("dir entry")).collect();
    entries.sort_by_key(|e| e.file_name());
    for e in entries {
        let name = e.file_name();
        let name = name.to_str().expect("utf-8 name").as_bytes().to_vec();
        prefix.push(bytes_to_json(&name));
        let ft = e.file_type().expect("file type");
        if ft.is_dir() {
            out.push(json!({"p": prefix.clone(), "k": "dir", "b": [], "x": no_x()}));
            walk(&e.path(), prefix, out);
        } else {
            let b = std::fs::read(e.path()).expect("read file");
            out.push(json!({"p": prefix.clone(), "k": if ft.is_file() { "file" } else { "other" }, "b": bytes_to_json(&b), "x": xobs(&b)}));
        }
        prefix.pop();
    }
}
/// full walk of every layer
fn snapshot(w: &World) -> Value {
    let mut ls = Vec::new();
    for l in &w.layers {
        let mut nodes = Vec::new();
        walk(l, &mut Vec::new(), &mut nodes);
        ls.push(Value::Array(nodes));
    }
    Value::Array(ls)
}
fn canon_layers(layers: &Value) -> Vec<Vec<String>> {
    layers
        .as_array()
        .unwrap()
        .iter()
        .map(|l| {
            let mut v: Vec<String> = l.as_array().unwrap().iter().map(|n| n.to_string()).collect();
            v.sort();
            v
        })
        .collect()
}

// ---------------------------------------------------------------------------------------------- results
fn class_of(e: &LayeredFilesystemError) -> &'static str {
    use LayeredFilesystemError::*;
    match e {
        FileNotFound(..) => "notfound",
        LocalizationError(..) => "loc",
        IOError(..) | ReadError(..) | WriteError(..) => "io",
        CompressionError(..) | ArchiveError(..) | TextArchiveError(..) | TextureParseError(..) | ArcError(..) => "codec",
        UnsupportedGame => "unsupported",
        NoLayers | NoWriteableLayers => "nolayers",
        PatternError(..) => "pattern",
        OtherError(..) => "other",
    }
}
fn ok(v: Value) -> Value {
    json!({"ok": true, "e": "", "v": v})
}
fn err(class: &str, dv: Value) -> Value {
    json!({"ok": false, "e": class, "v": dv})
}
fn wrap<T>(r: Result<Result<T, LayeredFilesystemError>, String>, dv: Value, f: impl FnOnce(T) -> Value) -> Value {
    match r {
        Ok(Ok(v)) => ok(f(v)),
        Ok(Err(e)) => err(class_of(&e), dv),
        Err(p) => json!({"panic": p}),
    }
}
/// result of a parser called directly (observed codec)
fn wrapc<T, E>(r: Result<Result<T, E>, String>, f: impl FnOnce(T) -> Value) -> Value {
    match r {
        Ok(Ok(v)) => ok(f(v)),
        Ok(Err(_)) => err("codec", json!([])),
        Err(p) => json!({"panic": p}),
    }
}

// ---------------------------------------------------------------------------------------------- typed projections
/// everything the object shows, INCLUDING what it serialises to (an archive parsed with one configuration but
/// tagged with another shows the same cells / messages and different bytes)
fn ser_of(r: Result<Result<Vec<u8>, String>, String>) -> Value {
    match r {
        Ok(Ok(b)) => json!({"ok": true, "v": bytes_to_json(&b)}),
        Ok(Err(_)) => json!({"ok": false, "v": []}),
        Err(_) => json!({"ok": false, "v": [0]}),
    }
}
fn proj_bin(a: &BinArchive) -> Value {
    let mut p = proj::project(a, "");
    p.as_object_mut().unwrap().remove("endian");
    p["ser"] = ser_of(catch(|| a.serialize().map_err(|e| e.to_string())));
    p
}
fn proj_text(a: &TextArchive) -> Value {
    let entries: Vec<Value> = a.get_entries().iter().map(|(k, m)| json!([str_to_codes(k), str_to_codes(m)])).collect();
    json!({"title": str_to_codes(a.get_title()), "entries": entries,
           "ser": ser_of(catch(|| a.serialize().map_err(|e| e.to_string())))})
}
fn proj_pack(m: &IndexMap<String, Vec<u8>>) -> Value {
    Value::Array(m.iter().map(|(k, v)| json!([str_to_codes(k), bytes_to_json(v)])).collect())
}
fn proj_arc(m: &HashMap<String, Vec<u8>>) -> Value {
    let mut ks: Vec<&String> = m.keys().collect();
    ks.sort();
    Value::Array(ks.into_iter().map(|k| json!([str_to_codes(k), bytes_to_json(&m[k])])).collect())
}
fn proj_tex(t: &Texture) -> Value {
    json!({"name": str_to_codes(&t.filename), "w": t.width, "h": t.height, "px": bytes_to_json(&t.pixel_data)})
}
fn proj_texvec(v: &[Texture]) -> Value {
    Value::Array(v.iter().map(proj_tex).collect())
}
fn proj_texmap(m: &HashMap<String, Texture>) -> Value {
    let mut ks: Vec<&String> = m.keys().collect();
    ks.sort();
    Value::Array(ks.into_iter().map(|k| json!([str_to_codes(k), proj_tex(&m[k])])).collect())
}
fn vec_to_map(v: Vec<Texture>) -> HashMap<String, Texture> {
    v.into_iter().map(|t| (t.filename.clone(), t)).collect()
}

/// archives handed to write_archive / write_text_archive
fn fixture_bin(endian: Endian) -> BinArchive {
    let mut a = BinArchive::new(endian);
    a.allocate_at_end(16);
    a.write_u32(0, 0x01020304).unwrap();
    a.write_string(4, Some("abc")).unwrap();
    a.write_pointer(8, Some(0)).unwrap();
    a.write_label(12, "L").unwrap();
    a
}
fn fixture_text(f: TextArchiveFormat, e: Endian) -> TextArchive {
    let mut a = TextArchive::new(f, e);
    a.set_title("T".to_string());
    a.set_message("k1", "hello");
    a.set_message("k2", "a\\nb");
    a
}

// ---------------------------------------------------------------------------------------------- applying one call
struct Sys {
    fs: LayeredFilesystem,
    canon: Vec<String>,
    given: Vec<String>,
}
impl Sys {
    /// LayeredFilesystem::clone - whatever the object remembers travels with it
    fn clone_object(&self) -> Sys {
        Sys { fs: self.fs.clone(), canon: self.canon.clone(), given: self.given.clone() }
    }
}

fn project_resolved(sys: &Sys, p: &Path) -> Value {
    let s = p.display().to_string();
    // the root may come back in its canonical spelling or in the spelling it was given in
    for roots in [&sys.canon, &sys.given] {
        for (i, c) in roots.iter().enumerate().rev() {
            let c = c.trim_end_matches('/');
            if s == c {
                return json!({"layer": i + 1, "rel": []});
            }
            let pre = format!("{}/", c);
            if let Some(rest) = s.strip_prefix(&pre) {
                return json!({"layer": i + 1, "rel": bytes_to_json(rest.as_bytes())});
            }
        }
    }
    json!({"layer": 0, "rel": bytes_to_json(s.as_bytes())})
}
fn strings_to_json(v: Vec<String>) -> Value {
    Value::Array(v.iter().map(|s| bytes_to_json(s.as_bytes())).collect())
}

/// Applies ev; returns the fields to add to the recorded event (res, and the observations of typed helpers).
fn apply(sys: &Sys, ev: &Value) -> Map<String, Value> {
    let fs = &sys.fs;
    let path = bytes_to_string(&ev["raw"]);
    let path = path.as_str();
    let loc = ev["loc"].as_bool().unwrap();
    let op = ev["op"].as_str().unwrap();
    let mut extra = Map::new();
    let bytes_res = |r: Result<Result<Vec<u8>, LayeredFilesystemError>, String>| wrap(r, json!([]), |v| bytes_to_json(&v));
    let res = match op {
        "read" => bytes_res(catch(|| fs.read(path, loc))),
        "write" => {
            let data = json_to_bytes(&ev["data"]);
            wrap(catch(|| fs.write(path, &data, loc)), json!([]), |_| json!([]))
        }
        "create_dir" => wrap(catch(|| fs.create_dir(path, loc)), json!([]), |_| json!([])),
        "exists" => wrap(catch(|| fs.exists(path, loc)), json!(false), |b| json!(b)),
        "file_exists" => wrap(catch(|| fs.file_exists(path, loc)), json!(false), |b| json!(b)),
        "directory_exists" => wrap(catch(|| fs.directory_exists(path, loc)), json!(false), |b| json!(b)),
        "resolve" => match catch(|| fs.resolve(path, loc)) {
            Ok(Some(p)) => ok(project_resolved(sys, &p)),
            Ok(None) => err("none", json!({"layer": 0, "rel": []})),
            Err(p) => json!({"panic": p}),
        },
        "list" => {
            let g = if ev["glob"]["some"].as_bool().unwrap() { Some(ev["glob"]["s"].as_str().unwrap()) } else { None };
            wrap(catch(|| fs.list(path, g, loc)), json!([]), strings_to_json)
        }
        "subdirectories" => wrap(catch(|| fs.subdirectories(path, loc)), json!([]), strings_to_json),
        "write_archive" | "write_text_archive" => {
            // The archive is built here; its serialisation is an observation, the helper must write exactly that.
            // "prov": how the caller came by the archive - "built" (edited through the API), "loaded" (parsed from
            // bytes, as read_archive / read_text_archive hand it out, unedited), "titled" (new, only a title set).
            let be = ev["fix"].as_str().unwrap_or("le") == "be";
            let prov = ev["prov"].as_str().unwrap_or("built");
            let endian = if be { Endian::Big } else { Endian::Little };
            if op == "write_archive" {
                let built = fixture_bin(endian);
                let a = match prov {
                    "reread" => match catch(|| fs.read_archive(path, loc)) {
                        Ok(Ok(a)) => a,
                        _ => built,
                    },
                    "loaded" => BinArchive::from_bytes(&built.serialize().expect("fixture"), endian).expect("fixture"),
                    "titled" => BinArchive::new(endian),
                    _ => built,
                };
                extra.insert("ser".into(), wrapc(catch(|| a.serialize()), |v| bytes_to_json(&v)));
                wrap(catch(|| fs.write_archive(path, &a, loc)), json!([]), |_| json!([]))
            } else {
                let f = if be { TextArchiveFormat::ShiftJIS } else { TextArchiveFormat::Unicode };
                let built = fixture_text(f, endian);
                let a = match prov {
                    // read -> (edit) -> write back the same object -> read
                    "reread" => match catch(|| fs.read_text_archive(path, loc)) {
                        Ok(Ok(mut a)) => {
                            a.set_message("k9", "edited");
                            a
                        }
                        _ => built,
                    },
                    "loaded" => TextArchive::from_bytes(&built.serialize().expect("fixture"), f, endian).expect("fixture"),
                    "titled" => {
                        let mut t = TextArchive::new(f, endian);
                        t.set_title("T".to_string());
                        t
                    }
                    _ => built,
                };
                extra.insert("dirty".into(), json!(a.is_dirty()));
                extra.insert("ser".into(), wrapc(catch(|| a.serialize()), |v| bytes_to_json(&v)));
                wrap(catch(|| fs.write_text_archive(path, &a, loc)), json!([]), |_| json!([]))
            }
        }
        _ => {
            // typed readers: the byte-level read (observed), the parser on exactly those bytes (observed), the helper
            let rd = catch(|| fs.read(path, loc));
            let bytes: Vec<u8> = match &rd {
                Ok(Ok(b)) => b.clone(),
                _ => Vec::new(),
            };
            let have = matches!(&rd, Ok(Ok(_)));
            extra.insert("rd".into(), bytes_res(rd));
            let b = bytes.as_slice();
            let none = json!({"ok": false, "e": "codec", "v": []});
            let (cd, res) = match op {
                "read_archive" => (
                    json!({
                        "le": if have { wrapc(catch(|| BinArchive::from_bytes(b, Endian::Little)), |a| proj_bin(&a)) } else { none.clone() },
                        "be": if have { wrapc(catch(|| BinArchive::from_bytes(b, Endian::Big)), |a| proj_bin(&a)) } else { none.clone() },
                    }),
                    wrap(catch(|| fs.read_archive(path, loc)), json!([]), |a| proj_bin(&a)),
                ),
                "read_text_archive" => {
                    let mut m = Map::new();
                    for (k, f, e) in [
                        ("sjis-be", TextArchiveFormat::ShiftJIS, Endian::Big),
                        ("sjis-le", TextArchiveFormat::ShiftJIS, Endian::Little),
                        ("unicode-be", TextArchiveFormat::Unicode, Endian::Big),
                        ("unicode-le", TextArchiveFormat::Unicode, Endian::Little),
                    ] {
                        m.insert(k.into(), if have { wrapc(catch(|| TextArchive::from_bytes(b, f, e)), |a| proj_text(&a)) } else { none.clone() });
                    }
                    (Value::Object(m), wrap(catch(|| fs.read_text_archive(path, loc)), json!([]), |a| proj_text(&a)))
                }
                "read_fe9_arc" => (
                    json!({"any": if have { wrapc(catch(|| fe9_arc::parse(b)), |m| proj_pack(&m)) } else { none.clone() }}),
                    wrap(catch(|| fs.read_fe9_arc(path, loc)), json!([]), |m| proj_pack(&m)),
                ),
                "read_arc" => (
                    json!({"any": if have { wrapc(catch(|| arc::from_bytes(b)), |m| proj_arc(&m)) } else { none.clone() }}),
                    wrap(catch(|| fs.read_arc(path, loc)), json!([]), |m| proj_arc(&m)),
                ),
                "read_tpl_textures" => (
                    json!({"any": if have { wrapc(catch(|| tpl::Tpl::extract_textures(b)), |v| proj_texvec(&v)) } else { none.clone() }}),
                    wrap(catch(|| fs.read_tpl_textures(path, loc)), json!([]), |v| proj_texvec(&v)),
                ),
                "read_bch_textures" => (
                    json!({"any": if have { wrapc(catch(|| bch::read(b)), |v| proj_texmap(&vec_to_map(v))) } else { none.clone() }}),
                    wrap(catch(|| fs.read_bch_textures(path, loc)), json!([]), |m| proj_texmap(&m)),
                ),
                "read_ctpk_textures" => (
                    json!({"any": if have { wrapc(catch(|| ctpk::read(b)), |v| proj_texmap(&vec_to_map(v))) } else { none.clone() }}),
                    wrap(catch(|| fs.read_ctpk_textures(path, loc)), json!([]), |m| proj_texmap(&m)),
                ),
                "read_cgfx_textures" => (
                    json!({"any": if have { wrapc(catch(|| cgfx::read(b)), |v| proj_texmap(&vec_to_map(v))) } else { none.clone() }}),
                    wrap(catch(|| fs.read_cgfx_textures(path, loc)), json!([]), |m| proj_texmap(&m)),
                ),
                other => usage(&format!("unknown op {}", other)),
            };
            extra.insert("cd".into(), cd);
            res
        }
    };
    extra.insert("res".into(), res);
    extra
}

fn open(w: &World, game: &str, lang: &str) -> Result<Sys, Value> {
    match catch(|| LayeredFilesystem::new(w.layer_strings(), lang_of(lang), game_of(game))) {
        Ok(Ok(fs)) => Ok(Sys { fs, canon: w.canon.clone(), given: w.given.clone() }),
        Ok(Err(e)) => Err(err(class_of(&e), json!([]))),
        Err(p) => Err(json!({"panic": p})),
    }
}

/// materialise + open + emit the reset event; None if the state could not be established
fn establish(layers: &Value, game: &str, lang: &str, events: &mut Vec<Value>) -> Option<(World, Sys, Value)> {
    let w = match materialise(layers) {
        Ok(w) => w,
        Err(e) => {
            events.push(json!({"op": "unbuildable", "why": e}));
            return None;
        }
    };
    let snap = snapshot(&w);
    if canon_layers(&snap) != canon_layers(layers) {
        events.push(json!({"op": "unbuildable", "why": "materialised state differs from the generated one (tree or observed expansions)",
                           "want": layers, "got": snap}));
        return None;
    }
    match open(&w, game, lang) {
        Ok(sys) => {
            events.push(json!({"op": "reset", "game": game, "lang": lang, "res": ok(json!([])), "same": false, "post": snap,
                               "roots": w.spellings(), "roots_k": w.style}));
            Some((w, sys, snap))
        }
        Err(res) => {
            events.push(json!({"op": "new", "game": game, "lang": lang, "res": res, "same": true, "post": []}));
            None
        }
    }
}

/// C14: the explicit-path twin of a localized call: the same call with localized = false on the path that the
/// SPECIFICATION maps the request to (ev["twin"], printed by TLC: Localize with the localizer Cfg(game) prescribes).
fn twin_of(ev: &Value) -> Option<Value> {
    if !ev["loc"].as_bool().unwrap_or(false) || !ev["twin"]["some"].as_bool().unwrap_or(false) {
        return None;
    }
    let mut t = ev.clone();
    t["loc"] = json!(false);
    t["raw"] = ev["twin"]["raw"].clone();
    t["p"] = ev["twin"]["p"].clone();
    t["is_twin"] = json!(true);
    t.as_object_mut().unwrap().remove("twin");
    Some(t)
}

fn run_events(w: &World, sys: &Sys, mut snap: Value, evs: &[Value], events: &mut Vec<Value>) -> Value {
    for ev in evs {
        let mut rec = ev.as_object().unwrap().clone();
        // "before": observations made on this object before the call; "then": the calls to issue on the same object
        // right after it (read-back, the same observations again); "clone_then": the same on a clone of the object
        // taken BEFORE the call.  What was observed earlier must not influence what is observed later.
        let before = rec.remove("before");
        let then = rec.remove("then");
        let clone_then = rec.remove("clone_then");
        rec.remove("twin");
        if let Some(Value::Array(b)) = before {
            snap = run_events(w, sys, snap, &b, events);
        }
        let older = if clone_then.is_some() { catch(|| sys.clone_object()).ok() } else { None };
        let ev = &Value::Object(rec.clone());
        for (k, v) in apply(sys, ev) {
            rec.insert(k, v);
        }
        let after = snapshot(w);
        if after == snap {
            rec.insert("same".into(), json!(true));
            rec.insert("post".into(), json!([]));
        } else {
            rec.insert("same".into(), json!(false));
            rec.insert("post".into(), after.clone());
            snap = after;
        }
        // C13 "every listed path exists according to the filesystem's own existence queries": after a listing that
        // asked for it ("sound": true) the listed paths (all of a short listing, an even spread of a long one) are put
        // to exists(), directory_exists() and file_exists() on the same object
        let mut sound = Vec::new();
        if rec.get("sound").and_then(|v| v.as_bool()).unwrap_or(false) && rec["res"]["ok"].as_bool().unwrap_or(false) {
            if let Some(items) = rec["res"]["v"].as_array() {
                let step = (items.len() + 11) / 12;
                for it in items.iter().step_by(step.max(1)) {
                    if let Ok(sp) = String::from_utf8(json_to_bytes(it)) {
                        if sp.starts_with('/') {
                            continue; // not layer-relative: the listing itself is already rejected
                        }
                        let comps: Vec<String> = sp.split('/').filter(|c| !c.is_empty()).map(|c| c.to_string()).collect();
                        // all three existence queries; what each must answer is decided by the spec from the layers
                        // (a listed path may be a directory in one layer and a regular file in another)
                        for qop in ["exists", "directory_exists", "file_exists"] {
                            let mut q = mk_event(qop, &comps, false, false);
                            q["sound_of"] = json!(true);
                            sound.push(q);
                        }
                    }
                }
            }
        }
        events.push(Value::Object(rec));
        if !sound.is_empty() {
            snap = run_events(w, sys, snap, &sound, events);
        }
        if let Some(Value::Array(follow)) = then {
            snap = run_events(w, sys, snap, &follow, events);
        }
        if let (Some(Value::Array(follow)), Some(c)) = (clone_then, older) {
            let follow: Vec<Value> = follow
                .into_iter()
                .map(|mut f| {
                    f["on_clone"] = json!(true);
                    f
                })
                .collect();
            snap = run_events(w, &c, snap, &follow, events);
        }
    }
    snap
}

/// run_isolated serialises its per-case result unbuffered (one write per token), which is far too slow for event
/// lists: the events of a case go, as one buffered line {"i", "events"}, to the side file <out>.events and only a
/// count is handed back.  A case that dies leaves no line there (the supervisor's synthetic record says why).
fn emit(out_path: &str, i: usize, events: Vec<Value>) -> Value {
    use std::io::Write;
    let f = std::fs::OpenOptions::new().create(true).append(true).open(format!("{}.events", out_path)).expect("open side file");
    let mut w = std::io::BufWriter::with_capacity(1 << 20, f);
    let n = events.len();
    serde_json::to_writer(&mut w, &json!({"i": i, "events": events})).unwrap();
    w.write_all(b"\n").unwrap();
    w.flush().unwrap();
    json!({"n": n})
}

// ---------------------------------------------------------------------------------------------- replay of generated cases
fn parse_from(args: &[String]) -> usize {
    match args.iter().position(|a| a == "--from") {
        Some(i) => args[i + 1].parse().unwrap(),
        None => 0,
    }
}

fn replay_mode(cases_path: &str, out_path: &str, from: usize) {
    let cases = read_ndjson(cases_path);
    run_isolated(&cases, from, out_path, |i, c| {
        let game = c["game"].as_str().unwrap();
        let lang = c["lang"].as_str().unwrap();
        let evs = c["events"].as_array().unwrap();
        let fresh = c["fresh"].as_bool().unwrap();
        let mut events = Vec::new();
        let twins = c["twins"].as_bool().unwrap_or(false);
        set_root_style(c["roots"].as_u64().unwrap_or(0) as usize);
        if fresh {
            // every call starts from the generated state
            for ev in evs {
                let mut twin = None;
                if let Some((w, sys, snap)) = establish(&c["layers"], game, lang, &mut events) {
                    run_events(&w, &sys, snap, std::slice::from_ref(ev), &mut events);
                    if twins {
                        twin = twin_of(ev);
                    }
                }
                if let Some(t) = twin {
                    if let Some((w, sys, snap)) = establish(&c["layers"], game, lang, &mut events) {
                        run_events(&w, &sys, snap, std::slice::from_ref(&t), &mut events);
                    }
                }
            }
        } else if let Some((w, sys, mut snap)) = establish(&c["layers"], game, lang, &mut events) {
            for ev in evs {
                snap = run_events(&w, &sys, snap, std::slice::from_ref(ev), &mut events);
                if twins {
                    if let Some(t) = twin_of(ev) {
                        snap = run_events(&w, &sys, snap, std::slice::from_ref(&t), &mut events);
                    }
                }
            }
        }
        emit(out_path, i, events)
    });
}

// ---------------------------------------------------------------------------------------------- random histories
const LONG_NAME: &str = "abcdefghijklmnopqrstuvwxyzabcdefghijklmnopqrstuvwxyzabcdefghijklmnopqrstuvwxyzabcdefghijklmnopqrstuvwxyzabcdefghijklmnopqrstuvwxyzabcdefghijklmnopqrstuvwxyzabcdefghijklmnopqrstuvwxyzabcdefghijklmnopqrstuv";
// incl. unusual but legal bytes: a backslash, a trailing dot, a lone '@', names equal to markers, a 200-byte name
const NAMES: [&str; 41] = [
    "notes..txt", "v1..2", "e...bin", "x..", "b\\c.bin", "k\\d", "x.", "e_", "@", "_x", LONG_NAME,
    "a", "a.b", "z", "m", "d", "e", "f.bin", "g.bin.lz", "h.cmp", "i.cms", "x", "xy", "k.bin", "q", "a b", ".h", "\u{e9}",
    "s_x", "s_f.bin", "e_x", "d_g.bin.lz", "f_h.cmp", "@E", "E", "S", "@S", "@NOE_SP", "@NOA_EN", "@J", "G",
];
const GLOBS: [Option<&str>; 6] = [None, Some("*"), Some("*.bin"), Some("x*"), Some("**/*.bin"), Some("**/*")];

fn rand_payload(rng: &mut Rng) -> Vec<u8> {
    match rng.below(10) {
        0 => vec![],
        1 => vec![rng.next() as u8],
        2 | 3 => {
            let n = rng.range(2, 12);
            rng.bytes(n)
        }
        4 | 5 => vec![rng.next() as u8; rng.range(3, 60)], // a run
        6 => {
            // periodic
            let p = rng.range(1, 4);
            let pat = rng.bytes(p);
            (0..rng.range(4, 70)).map(|i| pat[i % p]).collect()
        }
        7 => {
            let n = rng.range(20, 48);
            rng.bytes(n) // incompressible
        }
        _ => {
            let n = rng.range(1, 6);
            (0..n).map(|i| b'a' + i as u8).collect()
        }
    }
}

fn comps_json(c: &[String]) -> Value {
    Value::Array(c.iter().map(|s| bytes_to_json(s.as_bytes())).collect())
}
fn mk_event(op: &str, c: &[String], t: bool, loc: bool) -> Value {
    let mut raw = c.join("/");
    if t && !c.is_empty() {
        raw.push('/');
    }
    json!({"op": op, "p": {"c": comps_json(c), "t": t && !c.is_empty()}, "raw": bytes_to_json(raw.as_bytes()), "loc": loc,
           "data": [], "glob": {"some": false, "s": ""}})
}

/// stored content for a file created directly in a layer (not through mila's write)
fn rand_stored(rng: &mut Rng, name: &str) -> Vec<u8> {
    let suffixed = name.ends_with(".lz") || name.ends_with(".cmp") || name.ends_with(".cms");
    if suffixed && rng.chance(3, 4) {
        let mut p = rand_payload(rng);
        if p.is_empty() {
            p.push(9);
        }
        let lz13 = if name.ends_with(".lz") { !rng.chance(1, 6) } else { rng.chance(1, 6) };
        let r = if lz13 { catch(|| LZ13CompressionFormat {}.compress(&p)) } else { catch(|| LZ10CompressionFormat {}.compress(&p)) };
        match r {
            Ok(Ok(mut s)) => {
                if rng.chance(1, 8) && s.len() > 5 {
                    let k = rng.range(4, s.len() - 1);
                    s.truncate(k); // truncated stream
                }
                s
            }
            _ => p,
        }
    } else {
        rand_payload(rng)
    }
}

struct Pool {
    paths: Vec<Vec<String>>,
}
fn rand_rel(rng: &mut Rng, depth_max: usize) -> Vec<String> {
    let d = rng.range(1, depth_max);
    (0..d).map(|_| rng.pick(&NAMES).to_string()).collect()
}

fn build_random_world(rng: &mut Rng, pool: &mut Pool) -> World {
    let nl = rng.range(1, 4);
    let w = World::create(nl);
    let budget = rng.range(0, 40);
    let mut made = 0;
    let mut guard = 0;
    while made < budget && guard < 400 {
        guard += 1;
        let li = rng.below(nl);
        // prefer paths already used in another layer so that shadowing is frequent
        let rel = if !pool.paths.is_empty() && rng.chance(1, 2) { rng.pick(&pool.paths).clone() } else { rand_rel(rng, 3) };
        let full = w.layers[li].join(rel.join("/"));
        if full.exists() {
            continue;
        }
        let as_dir = rng.chance(1, 3);
        let r = if as_dir {
            std::fs::create_dir_all(&full)
        } else {
            full.parent().map(std::fs::create_dir_all).unwrap_or(Ok(())).and_then(|_| std::fs::write(&full, rand_stored(rng, rel.last().unwrap())))
        };
        if r.is_ok() {
            made += rel.len();
            pool.paths.push(rel);
        }
    }
    w
}

/// strip a language marker so that the localized call finds the file
fn unlocalize(rng: &mut Rng, rel: &[String]) -> Vec<String> {
    let mut r: Vec<String> = rel.to_vec();
    if r.len() >= 2 && (r[r.len() - 2].starts_with('@') || r[r.len() - 2].len() == 1 && r[r.len() - 2].chars().all(|c| c.is_ascii_uppercase())) && rng.chance(2, 3) {
        r.remove(r.len() - 2);
    } else if let Some(last) = r.last_mut() {
        if last.len() > 2 && last.as_bytes()[1] == b'_' && rng.chance(2, 3) {
            *last = last[2..].to_string();
        }
    }
    r
}

fn rand_path(rng: &mut Rng, pool: &Pool, loc: bool) -> Vec<String> {
    let r = rng.below(20);
    if r == 0 {
        return vec![]; // the root
    }
    if !pool.paths.is_empty() && r < 15 {
        let mut p = rng.pick(&pool.paths).clone();
        if loc {
            p = unlocalize(rng, &p);
        }
        match rng.below(8) {
            0 if p.len() > 1 => {
                p.pop();
            }
            1 => p.push(rng.pick(&NAMES).to_string()),
            _ => {}
        }
        p
    } else {
        rand_rel(rng, 3)
    }
}

const TYPED_READS: [&str; 8] = [
    "read_archive", "read_text_archive", "read_fe9_arc", "read_arc", "read_tpl_textures", "read_bch_textures", "read_ctpk_textures", "read_cgfx_textures",
];

fn le32(v: u32) -> [u8; 4] {
    v.to_le_bytes()
}
/// hand-made minimal containers so that the typed readers also succeed
fn typed_fixtures() -> Vec<(&'static str, Vec<u8>)> {
    let mut v: Vec<(&'static str, Vec<u8>)> = Vec::new();
    v.push(("binle.bin", fixture_bin(Endian::Little).serialize().unwrap()));
    v.push(("binbe.bin", fixture_bin(Endian::Big).serialize().unwrap()));
    v.push(("txtle.bin", fixture_text(TextArchiveFormat::Unicode, Endian::Little).serialize().unwrap()));
    v.push(("txtbe.bin", fixture_text(TextArchiveFormat::ShiftJIS, Endian::Big).serialize().unwrap()));
    let mut pack: IndexMap<String, Vec<u8>> = IndexMap::new();
    pack.insert("a.bin".into(), vec![1, 2, 3]);
    pack.insert("b".into(), vec![]);
    if let Ok(Ok(b)) = catch(|| fe9_arc::serialize(&pack)) {
        v.push(("pack.bin", b));
    }
    if let Ok(res) = std::env::var("MVH_RESOURCES") {
        if let Ok(b) = std::fs::read(Path::new(&res).join("ArcTest.arc")) {
            v.push(("arc.arc", b));
        }
    }
    // TPL with no images
    v.push(("tpl.tpl", vec![0x00, 0x20, 0xAF, 0x30, 0, 0, 0, 0, 0, 0, 0, 0x0C]));
    // BCH with an empty texture table
    let mut bch = vec![0x42, 0x43, 0x48, 0x00, 0, 0, 0, 0];
    bch.extend_from_slice(&le32(56)); // contents
    for _ in 0..11 {
        bch.extend_from_slice(&le32(0));
    }
    bch.resize(56 + 0x24, 0);
    bch.extend_from_slice(&le32(0));
    bch.extend_from_slice(&le32(0));
    v.push(("bch.bch", bch));
    // CGFX whose texture dictionary is empty
    let mut cg = vec![0x43, 0x47, 0x46, 0x58, 0xFF, 0xFE, 0x14, 0x00];
    cg.extend_from_slice(&le32(0));
    cg.extend_from_slice(&le32(168));
    cg.extend_from_slice(&le32(1));
    cg.extend_from_slice(&le32(0x41544144));
    cg.extend_from_slice(&le32(0));
    for i in 0..16u32 {
        cg.extend_from_slice(&le32(0));
        let pos = 20 + 8 + i * 8 + 4;
        cg.extend_from_slice(&le32(156 - pos));
    }
    cg.resize(168, 0);
    v.push(("cgfx.bin", cg));
    // CTPK with one 8x8 RGBA8 texture
    let mut ct = Vec::new();
    ct.extend_from_slice(&le32(0x4B505443));
    ct.extend_from_slice(&[1, 0, 1, 0]); // version, count
    ct.extend_from_slice(&le32(0x80)); // texture_ptr
    ct.extend_from_slice(&le32(256));
    ct.extend_from_slice(&le32(0));
    ct.extend_from_slice(&le32(0));
    ct.resize(0x20, 0);
    ct.extend_from_slice(&le32(0x40)); // filename_ptr
    ct.extend_from_slice(&le32(256));
    ct.extend_from_slice(&le32(0));
    ct.extend_from_slice(&le32(0)); // format RGBA8
    ct.extend_from_slice(&[8, 0, 8, 0, 1, 0, 0, 0]);
    ct.extend_from_slice(&le32(0));
    ct.extend_from_slice(&le32(0));
    ct.resize(0x40, 0);
    ct.extend_from_slice(b"t\0");
    ct.resize(0x80, 0);
    for i in 0..256u32 {
        ct.push((i * 7 % 256) as u8);
    }
    v.push(("ctpk.ctpk", ct));
    v
}

fn marker_dirs(game: &str) -> &'static [&'static str] {
    match game {
        "FE13" => &["E", "S", "G"],
        "FE14" => &["@E", "@S", "@G"],
        "FE15" => &["@NOA_EN", "@NOE_SP", "@J"],
        _ => &[],
    }
}

/// a world holding parseable files (plain, compressed, localised) for the typed helpers
fn build_typed_world(rng: &mut Rng, game: &str, pool: &mut Pool) -> World {
    let nl = rng.range(1, 3);
    let w = World::create(nl);
    let fx = typed_fixtures();
    // always there, at fixed unlocalized paths: the archives of both configurations, plain and as LZ13 / LZ10 streams
    // (the prelude of a typed run reads them, which pins endianness, text format and compression of every game)
    for (name, bytes) in fx.iter().take(4) {
        let li = rng.below(nl);
        let dir = w.layers[li].join("t");
        std::fs::create_dir_all(&dir).unwrap();
        std::fs::write(dir.join(name), bytes).unwrap();
        std::fs::write(dir.join(format!("{}.lz", name)), LZ13CompressionFormat {}.compress(bytes).unwrap()).unwrap();
        std::fs::write(dir.join(format!("{}.cmp", name)), LZ10CompressionFormat {}.compress(bytes).unwrap()).unwrap();
        for suf in ["", ".lz", ".cmp"] {
            pool.paths.push(vec!["t".to_string(), format!("{}{}", name, suf)]);
        }
    }
    for (name, bytes) in &fx {
        for variant in 0..4 {
            if rng.chance(1, 3) {
                continue;
            }
            let li = rng.below(nl);
            let (fname, content): (String, Vec<u8>) = match variant {
                0 => (name.to_string(), bytes.clone()),
                1 => match catch(|| LZ13CompressionFormat {}.compress(bytes)) {
                    Ok(Ok(z)) => (format!("{}.lz", name), z),
                    _ => continue,
                },
                2 => match catch(|| LZ10CompressionFormat {}.compress(bytes)) {
                    Ok(Ok(z)) => (format!("{}.cmp", name), z),
                    _ => continue,
                },
                _ => (format!("{}.lz", name), bytes.clone()), // suffix without a stream
            };
            let mut rel = vec!["t".to_string()];
            match rng.below(3) {
                0 => {
                    let md = marker_dirs(game);
                    if !md.is_empty() {
                        rel.push(rng.pick(md).to_string());
                    }
                    rel.push(fname);
                }
                1 => rel.push(format!("{}{}", rng.pick(&["s_", "e_", "d_"]), fname)),
                _ => rel.push(fname),
            }
            let full = w.layers[li].join(rel.join("/"));
            if full.exists() {
                continue;
            }
            std::fs::create_dir_all(full.parent().unwrap()).unwrap();
            std::fs::write(&full, &content).unwrap();
            pool.paths.push(rel);
        }
    }
    w
}

fn record_mode(out_path: &str, runs: usize, len: usize, from: usize) {
    let seed = seed_from_env();
    let profile = std::env::var("MVH_PROFILE").unwrap_or_default();
    let cases: Vec<Value> = (0..runs).map(|i| json!(i)).collect();
    run_isolated(&cases, from, out_path, |i, _| {
        let mut rng = Rng::new(seed.wrapping_mul(1_000_003).wrapping_add(i as u64));
        let mut events = Vec::new();
        // now and then: the unsupported games
        if i % 16 == 15 {
            let w = World::create(1);
            let g = if rng.chance(1, 2) { "FE11" } else { "FE12" };
            let lang = *rng.pick(&LANGS);
            if let Err(res) = open(&w, g, lang) {
                events.push(json!({"op": "new", "game": g, "lang": lang, "res": res, "same": true, "post": []}));
            } else {
                events.push(json!({"op": "new", "game": g, "lang": lang, "res": ok(json!([])), "same": true, "post": []}));
            }
            return emit(out_path, i, events);
        }
        // how the layer roots are spelled in this run
        set_root_style(if rng.chance(1, 3) { 0 } else { rng.range(1, ROOT_STYLES.len()) });
        let typed_run = i % 4 == 3 && profile != "c13";
        // typed runs go through the five games in turn, so that every game's configuration is exercised even in
        // the quick tier
        let game = if typed_run { GAMES[(i / 4) % GAMES.len()] } else { *rng.pick(&GAMES) };
        let lang = *rng.pick(&LANGS);
        let mut pool = Pool { paths: Vec::new() };
        let w = if typed_run { build_typed_world(&mut rng, game, &mut pool) } else { build_random_world(&mut rng, &mut pool) };
        let mut snap = snapshot(&w);
        let mut sys = match open(&w, game, lang) {
            Ok(s) => s,
            Err(res) => {
                events.push(json!({"op": "new", "game": game, "lang": lang, "res": res, "same": true, "post": []}));
                return emit(out_path, i, events);
            }
        };
        events.push(json!({"op": "reset", "game": game, "lang": lang, "res": ok(json!([])), "same": false, "post": snap.clone(),
                           "roots": w.spellings(), "roots_k": w.style}));
        if typed_run {
            // prelude: both archive kinds of both configurations, plain and under both compressed suffixes
            let mut pre = Vec::new();
            for name in ["binle.bin", "binbe.bin", "txtle.bin", "txtbe.bin"] {
                for suf in ["", ".lz", ".cmp"] {
                    let op = if name.starts_with("bin") { "read_archive" } else { "read_text_archive" };
                    pre.push(mk_event(op, &["t".to_string(), format!("{}{}", name, suf)], false, false));
                }
            }
            // read -> edit -> write the same object back -> read, for both archive kinds
            for name in ["binle.bin", "binbe.bin", "txtle.bin", "txtbe.bin"] {
                let (wop, rop) = if name.starts_with("bin") { ("write_archive", "read_archive") } else { ("write_text_archive", "read_text_archive") };
                let pth = ["t".to_string(), name.to_string()];
                let mut e = mk_event(wop, &pth, false, false);
                e["fix"] = json!("le");
                e["prov"] = json!("reread");
                pre.push(e);
                pre.push(mk_event(rop, &pth, false, false));
            }
            snap = run_events(&w, &sys, snap, &pre, &mut events);
        }
        for _ in 0..len {
            // observe - mutate - observe again on ONE object (now and then on a clone taken after the first
            // observations): directories that do not exist yet are looked at, something is written below them, and
            // they are looked at again
            if rng.chance(1, if profile == "c13" { 7 } else { 12 }) {
                let loc = rng.chance(1, 3);
                let mut p = rand_rel(&mut rng, 3);
                if p.len() < 2 {
                    p.insert(0, rng.pick(&NAMES).to_string());
                }
                let mut obs = Vec::new();
                let mut d = p.clone();
                for _ in 0..(if profile == "c13" { 2 } else { 1 }) {
                    if d.is_empty() {
                        break;
                    }
                    d.pop();
                    for l2 in if loc { vec![true, false] } else { vec![false] } {
                        let t = rng.chance(1, 4);
                        for g in [None, *rng.pick(&GLOBS)] {
                            let mut e = mk_event("list", &d, t, l2);
                            if let Some(g) = g {
                                e["glob"] = json!({"some": true, "s": g});
                            }
                            obs.push(e);
                        }
                        obs.push(mk_event("subdirectories", &d, t, l2));
                        if profile != "c13" {
                            for op in ["exists", "directory_exists", "resolve"] {
                                obs.push(mk_event(op, &d, t, l2));
                            }
                        }
                    }
                }
                if profile != "c13" {
                    for op in ["read", "file_exists", "exists", "resolve"] {
                        obs.push(mk_event(op, &p, false, loc));
                    }
                }
                snap = run_events(&w, &sys, snap, &obs, &mut events);
                if rng.chance(1, 2) {
                    if let Ok(c) = catch(|| sys.clone_object()) {
                        sys = c;
                    }
                }
                let m = match rng.below(10) {
                    0 | 1 => mk_event("create_dir", &p, rng.chance(1, 3), loc),
                    2 => {
                        let mut e = mk_event(if rng.chance(1, 2) { "write_archive" } else { "write_text_archive" }, &p, false, loc);
                        e["fix"] = json!("le");
                        e["prov"] = json!(*rng.pick(&["built", "loaded", "titled", "reread", "reread"]));
                        e
                    }
                    _ => {
                        let mut e = mk_event("write", &p, false, loc);
                        e["data"] = bytes_to_json(&rand_payload(&mut rng));
                        e
                    }
                };
                snap = run_events(&w, &sys, snap, std::slice::from_ref(&m), &mut events);
                snap = run_events(&w, &sys, snap, &obs, &mut events);
                pool.paths.push(p);
                continue;
            }
            let loc = rng.chance(2, 5);
            // MVH_PROFILE shifts the mix of calls: c12 = no listings, c13 = mostly listings (with mutations in between)
            let r = match profile.as_str() {
                "c12" => rng.below(65),
                "c13" => {
                    if typed_run || rng.chance(1, 4) {
                        rng.below(27)
                    } else {
                        65 + rng.below(35)
                    }
                }
                _ => rng.below(100),
            };
            let ev = if typed_run && r < 70 {
                let p = rand_path(&mut rng, &pool, loc);
                if r < 55 {
                    mk_event(*rng.pick(&TYPED_READS), &p, false, loc)
                } else {
                    let mut e = mk_event(if rng.chance(1, 2) { "write_archive" } else { "write_text_archive" }, &p, false, loc);
                    e["fix"] = json!(if rng.chance(1, 2) { "be" } else { "le" });
                    e["prov"] = json!(*rng.pick(&["built", "loaded", "titled", "reread", "reread"]));
                    pool.paths.push(p);
                    e
                }
            } else if r < 22 {
                let p = rand_path(&mut rng, &pool, loc);
                let mut e = mk_event("write", &p, false, loc);
                e["data"] = bytes_to_json(&rand_payload(&mut rng));
                if !p.is_empty() {
                    pool.paths.push(p);
                }
                e
            } else if r < 27 {
                let p = rand_path(&mut rng, &pool, loc);
                mk_event("create_dir", &p, rng.chance(1, 3), loc)
            } else if r < 45 {
                let p = rand_path(&mut rng, &pool, loc);
                mk_event("read", &p, false, loc)
            } else if r < 65 {
                let p = rand_path(&mut rng, &pool, loc);
                let op = *rng.pick(&["exists", "file_exists", "directory_exists", "resolve"]);
                mk_event(op, &p, rng.chance(1, 5), loc)
            } else if r < 90 {
                let mut p = rand_path(&mut rng, &pool, loc);
                if rng.chance(2, 3) && !p.is_empty() {
                    p.pop(); // a parent: more often a directory
                }
                let mut e = mk_event("list", &p, rng.chance(1, 3), loc);
                if let Some(g) = *rng.pick(&GLOBS) {
                    e["glob"] = json!({"some": true, "s": g});
                }
                e["sound"] = json!(profile == "c13");
                e
            } else {
                let mut p = rand_path(&mut rng, &pool, loc);
                if rng.chance(2, 3) && !p.is_empty() {
                    p.pop();
                }
                let mut e = mk_event("subdirectories", &p, rng.chance(1, 3), loc);
                e["sound"] = json!(profile == "c13");
                e
            };
            snap = run_events(&w, &sys, snap, std::slice::from_ref(&ev), &mut events);
        }
        emit(out_path, i, events)
    });
}

fn main() {
    install_panic_hook();
    let args: Vec<String> = std::env::args().skip(1).collect();
    match args.first().map(|s| s.as_str()) {
        Some("localize") if args.len() == 3 => localize_mode(&args[1], &args[2]),
        Some("replay") if args.len() >= 3 => replay_mode(&args[1], &args[2], parse_from(&args)),
        Some("record") if args.len() >= 4 => record_mode(&args[1], args[2].parse().unwrap(), args[3].parse().unwrap(), parse_from(&args)),
        _ => usage("mvh_fs localize <cases> <out> | replay <cases> <out> [--from k] | record <out> <runs> <len> [--from k]"),
    }
}
