//! mvh_fs — not built yet.
use mvh::util::*;

fn main() {
    install_panic_hook();
    usage("mvh_fs: not implemented yet");
}
