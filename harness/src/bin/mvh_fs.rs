//! probe (temporary)
use mila::*;
use mvh::util::*;

fn main() {
    install_panic_hook();
    let locs: Vec<(&str, PathLocalizer)> = vec![
        ("NoOp", PathLocalizer::NoOp(NoOpPathLocalizer {})),
        ("FE9", PathLocalizer::FE9(FE9PathLocalizer {})),
        ("FE14", PathLocalizer::FE14(FE14PathLocalizer {})),
    ];
    for p in ["", "/", ".", "..", "x/..", "m", "m/", "a/b/", "a/b", " /x", "a/./b", "./x", "x/.", "/a/b", "a//b", "a/b//", "..x/y", ".h", "a/ /b"] {
        for (n, l) in &locs {
            let r = catch(|| l.localize(p, &Language::EnglishNA).map_err(|e| e.to_string()));
            println!("{:?} {} -> {:?}", p, n, r);
        }
    }
    let root = std::env::temp_dir().join(format!("mvhprobe{}", std::process::id()));
    let l0 = root.join("l0");
    let l1 = root.join("l1");
    std::fs::create_dir_all(l0.join("a")).unwrap();
    std::fs::create_dir_all(l1.join("m/@E")).unwrap();
    std::fs::create_dir_all(l1.join("m/k.bin")).unwrap();
    std::fs::create_dir_all(l1.join("m/.hd")).unwrap();
    std::fs::write(l0.join("a/z"), b"1").unwrap();
    std::fs::write(l0.join("a.b"), b"2").unwrap();
    std::fs::write(l1.join("a.b"), b"3").unwrap();
    std::fs::write(l1.join("m/f.bin"), b"3").unwrap();
    std::fs::write(l1.join("m/.h"), b"3").unwrap();
    std::fs::write(l1.join("m/.hd/y.bin"), b"3").unwrap();
    std::fs::write(l1.join("m/k.bin/x.bin"), b"3").unwrap();
    std::fs::write(l1.join("m/@E/f.bin"), b"4").unwrap();
    std::fs::write(l1.join("f.bin"), b"4").unwrap();
    let fs = LayeredFilesystem::new(
        vec![l0.display().to_string(), l1.display().to_string()],
        Language::EnglishNA,
        Game::FE14,
    )
    .unwrap();
    for d in ["", "m", "m/", "a", "a.b", "q", "m/f.bin", "m/f.bin/", "."] {
        for g in [None, Some("*"), Some("*.bin"), Some("**/*.bin"), Some("**/*"), Some("x*"), Some("f*")] {
            println!("list {:?} {:?} -> {:?}", d, g, fs.list(d, g, false).map_err(|e| e.to_string()));
        }
        println!("subdirs {:?} -> {:?}", d, fs.subdirectories(d, false).map_err(|e| e.to_string()));
        println!("list loc {:?} -> {:?}", d, fs.list(d, None, true).map_err(|e| e.to_string()));
        println!("subdirs loc {:?} -> {:?}", d, fs.subdirectories(d, true).map_err(|e| e.to_string()));
    }
    for p in ["f.bin", "f.bin/", "m", "m/", "", "m/f.bin/x", "q"] {
        println!(
            "{:?}: exists {:?} file {:?} dir {:?} resolve {:?} read {:?} | loc: exists {:?} file {:?} dir {:?} resolve {:?} read {:?}",
            p,
            fs.exists(p, false).ok(),
            fs.file_exists(p, false).ok(),
            fs.directory_exists(p, false).ok(),
            fs.resolve(p, false),
            fs.read(p, false).map_err(|e| e.to_string()),
            fs.exists(p, true).ok(),
            fs.file_exists(p, true).ok(),
            fs.directory_exists(p, true).ok(),
            fs.resolve(p, true),
            fs.read(p, true).map_err(|e| e.to_string()),
        );
    }
    for p in ["f.bin/", "m", "", "m/f.bin/x/y", "n1/n2/f", "f.bin", "m/"] {
        println!("write {:?} -> {:?}", p, fs.write(p, b"zz", false).map_err(|e| e.to_string()));
        println!("write loc {:?} -> {:?}", p, fs.write(p, b"zz", true).map_err(|e| e.to_string()));
        println!("create_dir {:?} -> {:?}", p, fs.create_dir(p, false).map_err(|e| e.to_string()));
    }
    let _ = std::process::Command::new("find").arg(&root).status();
    std::fs::remove_dir_all(&root).unwrap();
}
