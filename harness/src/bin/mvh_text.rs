//! TextArchive state machine (C07): replay of spec-generated (state, call) cases and recording of
//! random histories for trace validation by spec/Trace_TextArchive.tla.
use mvh::util::*;
use mila::{Endian, TextArchive, TextArchiveFormat};
use serde_json::{json, Value};

fn project(a: &TextArchive) -> Value {
    let entries: Vec<Value> = a
        .get_entries()
        .iter()
        .map(|(k, m)| json!([k, str_to_codes(m)]))
        .collect();
    json!({"title": a.get_title(), "entries": entries, "dirty": a.is_dirty()})
}

fn fmt_of(name: &str) -> (TextArchiveFormat, Endian) {
    match name {
        "unicode-le" => (TextArchiveFormat::Unicode, Endian::Little),
        "unicode-be" => (TextArchiveFormat::Unicode, Endian::Big),
        "sjis-le" => (TextArchiveFormat::ShiftJIS, Endian::Little),
        "sjis-be" => (TextArchiveFormat::ShiftJIS, Endian::Big),
        _ => usage("format: unicode-le|unicode-be|sjis-le|sjis-be"),
    }
}

fn reparse(a: &TextArchive, fmt: &str) -> Result<TextArchive, String> {
    let (f, e) = fmt_of(fmt);
    let bytes = a.serialize().map_err(|e| format!("serialize: {}", e))?;
    TextArchive::from_bytes(&bytes, f, e).map_err(|e| format!("from_bytes: {}", e))
}

/// Build the archive whose projection is `pre` using public calls only.
fn build(pre: &Value, fmt: &str) -> Result<TextArchive, String> {
    let (f, e) = fmt_of(fmt);
    let mut a = TextArchive::new(f, e);
    a.set_title(pre["title"].as_str().unwrap().to_string());
    let entries = pre["entries"].as_array().unwrap();
    for kv in entries {
        a.set_message(kv[0].as_str().unwrap(), &codes_to_string(&kv[1]));
    }
    let want_dirty = pre["dirty"].as_bool().unwrap();
    if !want_dirty && a.is_dirty() {
        a = reparse(&a, fmt)?;
    }
    if want_dirty && !a.is_dirty() {
        a.set_message("\u{1}tmp", "");
        a.delete_message("\u{1}tmp");
    }
    if &project(&a) != pre {
        return Err(format!("cannot establish pre-state: got {}", project(&a)));
    }
    Ok(a)
}

fn unit() -> Value {
    json!({"some": false, "v": []})
}

/// Apply one event; returns (res, archive after)
fn apply(mut a: TextArchive, ev: &Value, fmt: &str) -> (Value, TextArchive) {
    let k = ev["k"].as_str().unwrap_or("");
    let res = match ev["op"].as_str().unwrap() {
        "set" => {
            a.set_message(k, &codes_to_string(&ev["m"]));
            unit()
        }
        "delete" => {
            a.delete_message(k);
            unit()
        }
        "get" => match a.get_message(k) {
            Some(m) => json!({"some": true, "v": str_to_codes(&m)}),
            None => unit(),
        },
        "has" => json!({"some": a.has_message(k), "v": []}),
        "settitle" => {
            a.set_title(ev["t"].as_str().unwrap().to_string());
            unit()
        }
        "reparse" => match reparse(&a, fmt) {
            Ok(b) => {
                a = b;
                unit()
            }
            Err(e) => json!({"error": e}),
        },
        other => usage(&format!("unknown op {}", other)),
    };
    (res, a)
}

fn replay(cases_path: &str, out_path: &str) {
    let cases = read_ndjson(cases_path);
    let mut out = NdWriter::create(out_path);
    let (mut n, mut bad, mut unbuildable) = (0u64, 0u64, 0u64);
    let fmt = "unicode-le";
    for (i, c) in cases.iter().enumerate() {
        n += 1;
        let built = catch(|| build(&c["pre"], fmt));
        let a = match built {
            Ok(Ok(a)) => a,
            Ok(Err(e)) | Err(e) => {
                unbuildable += 1;
                out.put(&json!({"kind": "unbuildable", "i": i, "why": e, "case": c}));
                continue;
            }
        };
        let got = match catch(|| {
            let (res, b) = apply(a, &c["ev"], fmt);
            json!({"res": res, "st": project(&b)})
        }) {
            Ok(v) => v,
            Err(p) => json!({"panic": p}),
        };
        let allowed = c["allowed"].as_array().unwrap();
        if !allowed.iter().any(|o| o == &got) {
            bad += 1;
            out.put(&json!({"kind": "mismatch", "i": i, "case": c, "got": got}));
        }
    }
    out.put(&json!({"kind": "summary", "cases": n, "mismatches": bad, "unbuildable": unbuildable}));
    out.finish();
}

fn random_msg(rng: &mut Rng, sjis: bool) -> String {
    let alpha: &[char] = if sjis {
        &['a', '\\', 'n', '\n', 'あ', 'ソ']
    } else {
        &['a', '\\', 'n', '\n', 'あ', '\u{1F600}']
    };
    let n = if rng.chance(1, 8) { 0 } else { rng.range(1, 8) };
    let mut s = String::new();
    for _ in 0..n {
        // bias towards escape-relevant characters
        let c = if rng.chance(2, 3) { *rng.pick(&alpha[..4]) } else { *rng.pick(alpha) };
        s.push(c);
    }
    s
}

fn record(out_path: &str, runs: usize, len: usize) {
    let mut rng = Rng::new(seed_from_env());
    let mut out = NdWriter::create(out_path);
    let keys = ["k1", "k2", "k3", "k4", "k5", "k6", "k7", "k8"];
    let fmts = ["unicode-le", "unicode-be", "sjis-le", "sjis-be"];
    for run in 0..runs {
        let fmt = fmts[run % 4];
        let (f, e) = fmt_of(fmt);
        let mut a = TextArchive::new(f, e);
        out.put(&json!({"op": "reset", "fmt": fmt, "k": "", "m": [], "t": "", "res": unit(), "post": project(&a)}));
        let nkeys = rng.range(2, keys.len());
        for _ in 0..len {
            let k = keys[rng.below(nkeys)];
            let r = rng.below(100);
            let ev = if r < 40 {
                json!({"op": "set", "k": k, "m": str_to_codes(&random_msg(&mut rng, fmt.starts_with("sjis"))), "t": ""})
            } else if r < 60 {
                json!({"op": "delete", "k": k, "m": [], "t": ""})
            } else if r < 75 {
                json!({"op": "get", "k": k, "m": [], "t": ""})
            } else if r < 85 {
                json!({"op": "has", "k": k, "m": [], "t": ""})
            } else if r < 92 {
                json!({"op": "settitle", "k": "", "m": [], "t": if rng.chance(1, 2) { "Title" } else { "" }})
            } else {
                json!({"op": "reparse", "k": "", "m": [], "t": ""})
            };
            // store-back of a looked-up message (the C07 no-op law) now and then
            let ev = if r >= 60 && r < 64 {
                match a.get_message(k) {
                    Some(m) => json!({"op": "set", "k": k, "m": str_to_codes(&m), "t": ""}),
                    None => ev,
                }
            } else {
                ev
            };
            let mut rec = ev.clone();
            match catch(|| apply(a, &ev, fmt)) {
                Ok((res, b)) => {
                    a = b;
                    rec["res"] = res;
                    rec["post"] = project(&a);
                    out.put(&rec);
                }
                Err(p) => {
                    rec["res"] = json!({"panic": p});
                    rec["post"] = json!({"title": "", "entries": [], "dirty": false});
                    out.put(&rec);
                    a = TextArchive::new(f, e);
                    out.put(&json!({"op": "reset", "fmt": fmt, "k": "", "m": [], "t": "", "res": unit(), "post": project(&a)}));
                }
            }
        }
    }
    out.finish();
}

fn main() {
    install_panic_hook();
    let args: Vec<String> = std::env::args().skip(1).collect();
    let args = &args[..];
    match args.first().map(|s| s.as_str()) {
        Some("replay") if args.len() == 3 => replay(&args[1], &args[2]),
        Some("record") if args.len() == 4 => record(&args[1], args[2].parse().unwrap(), args[3].parse().unwrap()),
        _ => usage("mvh_text replay <cases.ndjson> <out.ndjson> | record <out.ndjson> <runs> <len>"),
    }
}
