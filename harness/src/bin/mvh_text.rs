//! TextArchive state machine (C07): replay of spec-generated (state, call) cases and recording of
//! random histories for trace validation by spec/Trace_TextArchive.tla.
use mvh::util::*;
use mila::{Endian, TextArchive, TextArchiveFormat};
use serde_json::{json, Value};

fn project(a: &TextArchive) -> Value {
    let entries: Vec<Value> = a
        .get_entries()
        .iter()
        .map(|(k, m)| json!([k, str_to_codes(m)]))
        .collect();
    json!({"title": a.get_title(), "entries": entries, "dirty": a.is_dirty()})
}

fn fmt_of(name: &str) -> (TextArchiveFormat, Endian) {
    match name {
        "unicode-le" => (TextArchiveFormat::Unicode, Endian::Little),
        "unicode-be" => (TextArchiveFormat::Unicode, Endian::Big),
        "sjis-le" => (TextArchiveFormat::ShiftJIS, Endian::Little),
        "sjis-be" => (TextArchiveFormat::ShiftJIS, Endian::Big),
        _ => usage("format: unicode-le|unicode-be|sjis-le|sjis-be"),
    }
}

thread_local! {
    static REPARSE_N: std::cell::Cell<u64> = std::cell::Cell::new(0);
}

/// serialize -> parse; alternates between the two public parse paths (from_bytes, and BinArchive::from_bytes +
/// TextArchive::from_archive), which must behave alike
fn reparse(a: &TextArchive, fmt: &str) -> Result<TextArchive, String> {
    let (f, e) = fmt_of(fmt);
    let bytes = a.serialize().map_err(|e| format!("serialize: {}", e))?;
    let n = REPARSE_N.with(|c| {
        c.set(c.get() + 1);
        c.get()
    });
    if n % 2 == 0 {
        TextArchive::from_bytes(&bytes, f, e).map_err(|e| format!("from_bytes: {}", e))
    } else {
        let bin = mila::BinArchive::from_bytes(&bytes, e).map_err(|e| format!("BinArchive::from_bytes: {}", e))?;
        TextArchive::from_archive(&bin, f, e).map_err(|e| format!("from_archive: {}", e))
    }
}

/// Build the archive whose projection is `pre` using public calls only.
fn build(pre: &Value, fmt: &str) -> Result<TextArchive, String> {
    let (f, e) = fmt_of(fmt);
    let mut a = TextArchive::new(f, e);
    a.set_title(pre["title"].as_str().unwrap().to_string());
    let entries = pre["entries"].as_array().unwrap();
    for kv in entries {
        a.set_message(kv[0].as_str().unwrap(), &codes_to_string(&kv[1]));
    }
    let want_dirty = pre["dirty"].as_bool().unwrap();
    if !want_dirty && a.is_dirty() {
        a = reparse(&a, fmt)?;
    }
    if want_dirty && !a.is_dirty() {
        a.set_message("\u{1}tmp", "");
        a.delete_message("\u{1}tmp");
    }
    if &project(&a) != pre {
        return Err(format!("cannot establish pre-state: got {}", project(&a)));
    }
    Ok(a)
}

fn unit() -> Value {
    json!({"some": false, "v": []})
}

/// Apply one event; returns (res, archive after)
fn apply(mut a: TextArchive, ev: &Value, fmt: &str) -> (Value, TextArchive) {
    let k = ev["k"].as_str().unwrap_or("");
    let res = match ev["op"].as_str().unwrap() {
        "set" => {
            a.set_message(k, &codes_to_string(&ev["m"]));
            unit()
        }
        "delete" => {
            a.delete_message(k);
            unit()
        }
        "get" => match a.get_message(k) {
            Some(m) => json!({"some": true, "v": str_to_codes(&m)}),
            None => unit(),
        },
        "has" => json!({"some": a.has_message(k), "v": []}),
        "settitle" => {
            a.set_title(ev["t"].as_str().unwrap().to_string());
            unit()
        }
        "reparse" => match reparse(&a, fmt) {
            Ok(b) => {
                a = b;
                unit()
            }
            Err(e) => json!({"error": e}),
        },
        other => usage(&format!("unknown op {}", other)),
    };
    (res, a)
}

fn replay(cases_path: &str, out_path: &str) {
    let cases = read_ndjson(cases_path);
    let mut out = NdWriter::create(out_path);
    let (mut n, mut bad, mut unbuildable) = (0u64, 0u64, 0u64);
    let fmt = "unicode-le";
    for (i, c) in cases.iter().enumerate() {
        n += 1;
        let built = catch(|| build(&c["pre"], fmt));
        let a = match built {
            Ok(Ok(a)) => a,
            Ok(Err(e)) | Err(e) => {
                unbuildable += 1;
                out.put(&json!({"kind": "unbuildable", "i": i, "why": e, "case": c}));
                continue;
            }
        };
        let got = match catch(|| {
            let (res, b) = apply(a, &c["ev"], fmt);
            json!({"res": res, "st": project(&b)})
        }) {
            Ok(v) => v,
            Err(p) => json!({"panic": p}),
        };
        let allowed = c["allowed"].as_array().unwrap();
        if !allowed.iter().any(|o| o == &got) {
            bad += 1;
            out.put(&json!({"kind": "mismatch", "i": i, "case": c, "got": got}));
        }
    }
    out.put(&json!({"kind": "summary", "cases": n, "mismatches": bad, "unbuildable": unbuildable}));
    out.finish();
}

fn random_msg(rng: &mut Rng, sjis: bool) -> String {
    // besides the escape-relevant characters: look-alikes of the backslash that a codec might fold onto it
    // (U+00A5 yen sign, U+FF3C full-width backslash, U+2216 set minus)
    let alpha: &[char] = if sjis {
        &['a', '\\', 'n', '\n', 'あ', 'ソ', '\u{A5}', '\u{FF3C}']
    } else {
        &['a', '\\', 'n', '\n', 'あ', '\u{1F600}', '\u{A5}', '\u{FF3C}', '\u{2216}']
    };
    let n = if rng.chance(1, 8) { 0 } else { rng.range(1, 8) };
    let mut s = String::new();
    for _ in 0..n {
        // bias towards escape-relevant characters
        let c = if rng.chance(2, 3) { *rng.pick(&alpha[..4]) } else { *rng.pick(alpha) };
        s.push(c);
    }
    s
}

/// `runs` histories of `len` calls; every fifth one is six times as long, never re-parses and mostly sets (counters of
/// calls kept inside one archive object are driven past 2^8); `very_long` > 0 appends one history of that many calls
/// of the same kind (past 2^16).  Every third history drives TWO archives (in different format / endian
/// configurations) alive at the same time, calls interleaved at random: events carry "obj".
fn record(out_path: &str, runs: usize, len: usize, very_long: usize) {
    let mut rng = Rng::new(seed_from_env());
    let mut out = NdWriter::create(out_path);
    let keys = ["k1", "k2", "k3", "k4", "k5", "k6", "k7", "k8"];
    let fmts = ["unicode-le", "unicode-be", "sjis-le", "sjis-be"];
    for run in 0..runs + (very_long > 0) as usize {
        let long = run % 5 == 4 || run == runs;
        let twin = run % 3 == 1 && !long;
        let nobj = if twin { 2 } else { 1 };
        let ofmt: Vec<&str> = (0..nobj).map(|o| fmts[(run + 3 * o) % 4]).collect();
        let fresh = |o: usize| {
            let (f, e) = fmt_of(ofmt[o]);
            TextArchive::new(f, e)
        };
        let reset = |o: usize, a: &TextArchive| {
            let mut r = json!({"op": "reset", "fmt": ofmt[o], "k": "", "m": [], "t": "", "res": unit(), "post": project(a)});
            if twin {
                r["obj"] = json!(o);
            }
            r
        };
        let mut objs: Vec<TextArchive> = (0..nobj).map(|o| fresh(o)).collect();
        for o in 0..nobj {
            out.put(&reset(o, &objs[o]));
        }
        let nkeys = rng.range(2, keys.len());
        let n_calls = if run == runs { very_long } else if long { 6 * len } else { len };
        for _ in 0..n_calls {
            let o = if twin { rng.below(2) } else { 0 };
            let fmt = ofmt[o];
            let k = keys[rng.below(nkeys)];
            let r = if !long { rng.below(100) } else if rng.chance(2, 3) { rng.below(40) } else { rng.below(92) };
            let ev = if r < 40 {
                json!({"op": "set", "k": k, "m": str_to_codes(&random_msg(&mut rng, fmt.starts_with("sjis"))), "t": ""})
            } else if r < 60 {
                json!({"op": "delete", "k": k, "m": [], "t": ""})
            } else if r < 75 {
                json!({"op": "get", "k": k, "m": [], "t": ""})
            } else if r < 85 {
                json!({"op": "has", "k": k, "m": [], "t": ""})
            } else if r < 92 {
                json!({"op": "settitle", "k": "", "m": [], "t": if rng.chance(1, 2) { "Title" } else { "" }})
            } else {
                json!({"op": "reparse", "k": "", "m": [], "t": ""})
            };
            // the legacy format stores Shift-JIS: a re-parse is the identity only for text the codec represents losslessly
            let ev = if ev["op"] == "reparse" && fmt.starts_with("sjis") && !objs[o].get_entries().iter().all(|(k2, m)| sjis_lossless(k2) && sjis_lossless(m)) {
                json!({"op": "get", "k": k, "m": [], "t": ""})
            } else {
                ev
            };
            // store-back of a looked-up message (the C07 no-op law) now and then
            let ev = if r >= 60 && r < 64 {
                match objs[o].get_message(k) {
                    Some(m) => json!({"op": "set", "k": k, "m": str_to_codes(&m), "t": ""}),
                    None => ev,
                }
            } else {
                ev
            };
            let mut rec = ev.clone();
            if twin {
                rec["obj"] = json!(o);
            }
            let a = std::mem::replace(&mut objs[o], fresh(o));
            match catch(|| apply(a, &ev, fmt)) {
                Ok((res, b)) => {
                    rec["res"] = res;
                    rec["post"] = project(&b);
                    objs[o] = b;
                    out.put(&rec);
                }
                Err(p) => {
                    rec["res"] = json!({"panic": p});
                    rec["post"] = json!({"title": "", "entries": [], "dirty": false});
                    out.put(&rec);
                    objs[o] = fresh(o);
                    out.put(&reset(o, &objs[o]));
                }
            }
        }
    }
    out.finish();
}


// ------------------------------------------------------------------------------------------------
// file format: C06
// ------------------------------------------------------------------------------------------------
fn fmt2(fmt: &str, endian: &str) -> (TextArchiveFormat, Endian) {
    (
        if fmt == "unicode" { TextArchiveFormat::Unicode } else { TextArchiveFormat::ShiftJIS },
        if endian == "be" { Endian::Big } else { Endian::Little },
    )
}
fn msg_to_string(m: &Value, fmt: &str) -> Option<String> {
    if fmt == "unicode" {
        let units: Vec<u16> = m.as_array().unwrap().iter().map(|x| x.as_u64().unwrap() as u16).collect();
        String::from_utf16(&units).ok()
    } else {
        Some(sjis_to_string(&json_to_bytes(m)))
    }
}
fn string_to_msg(s: &str, fmt: &str) -> Value {
    if fmt == "unicode" {
        str_to_utf16(s)
    } else {
        match string_to_sjis(s) {
            Some(b) => bytes_to_json(&b),
            None => json!([-1]),
        }
    }
}
fn sj(s: &str) -> Value {
    match string_to_sjis(s) {
        Some(b) => bytes_to_json(&b),
        None => json!([-1]),
    }
}
fn text_value(a: &TextArchive, fmt: &str) -> Value {
    let entries: Vec<Value> = a.get_entries().iter().map(|(k, m)| json!([sj(k), string_to_msg(m, fmt)])).collect();
    json!({"title": sj(a.get_title()), "entries": entries})
}

/// Build the archive holding `title` / `entries` along one of several histories of public calls (the round trip is a
/// property of the archive's VALUE, whatever calls produced it):
///   route 0: new, set_title, set_message per entry
///   route 1: a decoy (other title, one extra trailing key) is serialized and parsed with from_bytes, then only
///            set_title / delete_message edit it - no set_message, the parsed archive never becomes dirty
///   route 2: like 1 through BinArchive::from_bytes + from_archive, and the last entry is set again
fn build_text(route: usize, f: TextArchiveFormat, e: Endian, title: &str, entries: &[(String, String)]) -> Result<TextArchive, (String, String)> {
    let mut a = TextArchive::new(f, e);
    if route == 0 {
        a.set_title(title.to_string());
        for (k, m) in entries {
            a.set_message(k, m);
        }
        return Ok(a);
    }
    let extra = "\u{1}decoy";
    a.set_title(format!("{}x", title));
    for (k, m) in entries {
        a.set_message(k, m);
    }
    a.set_message(extra, "decoy message");
    let bytes = a.serialize().map_err(|x| ("serialize".to_string(), format!("decoy: {}", x)))?;
    let mut b = if route == 1 {
        TextArchive::from_bytes(&bytes, f, e).map_err(|x| ("parse".to_string(), format!("decoy: {}", x)))?
    } else {
        let bin = mila::BinArchive::from_bytes(&bytes, e).map_err(|x| ("parse".to_string(), format!("decoy: {}", x)))?;
        TextArchive::from_archive(&bin, f, e).map_err(|x| ("parse-from_archive".to_string(), format!("decoy: {}", x)))?
    };
    b.set_title(title.to_string());
    b.delete_message(extra);
    if route == 2 {
        if let Some((k, m)) = entries.last() {
            b.set_message(k, m);
        }
    }
    Ok(b)
}

fn format_replay(cases_path: &str, out_path: &str) {
    let cases = read_ndjson(cases_path);
    let mut out = NdWriter::create(out_path);
    // every image mila produced for a generated value is also handed to the trace validator (structural checks by TLC)
    let mut events = NdWriter::create(&format!("{}.events", out_path));
    let (mut n, mut bad) = (0u64, 0u64);
    for (i, c) in cases.iter().enumerate() {
        n += 1;
        let fmt = c["fmt"].as_str().unwrap();
        let endian = c["endian"].as_str().unwrap();
        let (f, e) = fmt2(fmt, endian);
        let expect_title = if fmt == "unicode" { c["title"].clone() } else { json!([]) };
        let expected = json!({"title": expect_title, "entries": c["entries"]});
        let image = json_to_bytes(&c["image"]);
        let r = catch(|| -> Result<(), (String, String)> {
            let mut entries: Vec<(String, String)> = Vec::new();
            for kv in c["entries"].as_array().unwrap() {
                let m = msg_to_string(&kv[1], fmt).ok_or(("harness".to_string(), "invalid utf16 in case".to_string()))?;
                entries.push((sjis_to_string(&json_to_bytes(&kv[0])), m));
            }
            let a = build_text(i % 3, f, e, &sjis_to_string(&json_to_bytes(&c["title"])), &entries)?;
            let stored = text_value(&a, fmt);
            if stored["entries"] != c["entries"] {
                // along routes 1 / 2 the archive went through serialize -> parse already: a difference is a round trip failure
                return Err((if i % 3 == 0 { "harness" } else { "roundtrip" }.to_string(), format!("stored entries differ from the case: {}", stored)));
            }
            let bytes = a.serialize().map_err(|x| ("serialize".to_string(), x.to_string()))?;
            // a parse result must depend on the image alone: damaged copies first, then the real image, same thread
            for cut in [bytes.len().saturating_sub(1), bytes.len().saturating_sub(2), bytes.len() / 2 + 9] {
                if cut < bytes.len() {
                    let _ = catch(|| TextArchive::from_bytes(&bytes[..cut], f, e).map(|_| ()));
                }
            }
            let b = TextArchive::from_bytes(&bytes, f, e).map_err(|x| ("parse".to_string(), x.to_string()))?;
            let got = text_value(&b, fmt);
            // the other public parse path must agree
            let bin = mila::BinArchive::from_bytes(&bytes, e).map_err(|x| ("parse".to_string(), x.to_string()))?;
            let b3 = TextArchive::from_archive(&bin, f, e).map_err(|x| ("parse-from_archive".to_string(), x.to_string()))?;
            if text_value(&b3, fmt) != got || b3.is_dirty() {
                return Err(("roundtrip".to_string(), format!("from_archive differs from from_bytes: {} (dirty {})", text_value(&b3, fmt), b3.is_dirty())));
            }
            events.put(&json!({"op": "text", "fmt": fmt, "endian": endian, "title": c["title"], "entries": c["entries"],
                               "bytes": bytes, "reparsed": got}));
            if c["exact"].as_bool().unwrap_or(true) && bytes != image {
                // the statement does not fix the byte image: information, not a violation
                return Err(("image-info".to_string(), "serialized bytes differ from the specification image".to_string()));
            }
            if got != expected {
                return Err(("roundtrip".to_string(), format!("re-parsed value differs: got {}", got)));
            }
            let b2 = TextArchive::from_bytes(&image, f, e).map_err(|x| ("parse-image".to_string(), x.to_string()))?;
            if text_value(&b2, fmt) != expected {
                return Err(("parse-image".to_string(), format!("parse of the specification image differs: got {}", text_value(&b2, fmt))));
            }
            if b.is_dirty() {
                return Err(("roundtrip".to_string(), "parsed archive is dirty".to_string()));
            }
            Ok(())
        });
        let (what, why) = match r {
            Ok(Ok(())) => continue,
            Ok(Err((w, y))) => (w, y),
            Err(p) => ("panic".to_string(), p),
        };
        if what == "image-info" {
            out.put(&json!({"kind": "info", "what": what, "i": i, "fmt": fmt, "endian": endian}));
            continue;
        }
        bad += 1;
        let first_unit = c["entries"].as_array().unwrap().iter().filter_map(|kv| kv[1].as_array().unwrap().first().cloned()).collect::<Vec<_>>();
        out.put(&json!({"kind": if what == "harness" { "unbuildable" } else { "mismatch" }, "what": what, "why": why, "i": i,
                        "fmt": fmt, "endian": endian, "first_units": first_unit, "case": c}));
    }
    out.put(&json!({"kind": "summary", "cases": n, "mismatches": bad}));
    out.finish();
    events.finish();
}

fn random_text(rng: &mut Rng, fmt: &str) -> String {
    let n = match rng.below(40) {
        0..=3 => 0,
        4..=7 => rng.range(20, 60),
        // around powers of two (block sizes of readers): 64 .. 1024 units
        8 => (64usize << rng.below(5)) - 2 + rng.below(4),
        _ => rng.range(1, 9),
    };
    let sjis_pool: Vec<char> = "AZaz09 !~\\ｱｶﾝあいんアソ表十能日本語、。".chars().collect();
    let mut s = String::new();
    for k in 0..n {
        let c = if fmt == "unicode" {
            match rng.below(12) {
                0 if k == 0 => '\u{FEFF}',
                1 if k == 0 => '\u{FFFE}',
                2 if k == 0 => '\u{BBEF}',
                // code points a decoder may use as error / sentinel values, anywhere in the text
                8 => *rng.pick(&['\u{FFFD}', '\u{FFFC}', '\u{FFFF}', '\u{FFFE}', '\u{FEFF}', '\u{1}', '\u{7F}', '\u{80}', '\u{D7FF}', '\u{E000}', '\u{10FFFF}', '\u{1FFFF}']),
                3 => char::from_u32(0x10000 + rng.below(0x100000) as u32).unwrap_or('x'),
                4 => char::from_u32(0x100 * rng.range(1, 0xD7) as u32).unwrap_or('x'), // low byte 00
                5 | 6 => char::from_u32(rng.range(1, 0xD7FF) as u32).unwrap_or('x'),
                7 => char::from_u32(rng.range(0xE000, 0xFFFF) as u32).unwrap_or('x'),
                _ => (0x20u8 + rng.below(0x5f) as u8) as char,
            }
        } else {
            *rng.pick(&sjis_pool)
        };
        s.push(c);
    }
    // set_message turns the two characters backslash, n into a newline: keep the stored text = the argument
    s.replace("\\n", "\\ n")
}

/// A large archive built by rule (entry counts beyond 2^16): header + summary only travel to TLC (header totals
/// against the rule's numbers); the comparison of the re-parsed value is done here.
fn big_text_event(fmt: &str, endian: &str, n: usize) -> Value {
    let (f, e) = fmt2(fmt, endian);
    let r = catch(|| -> Result<Value, String> {
        let mut a = TextArchive::new(f, e);
        a.set_title("T".to_string());
        for i in 0..n {
            a.set_message(&format!("K{:06}", i), if i % 2 == 0 { "abc" } else { "abcdefg" });
        }
        let bytes = a.serialize().map_err(|x| format!("serialize: {}", x))?;
        let b = TextArchive::from_bytes(&bytes, f, e).map_err(|x| format!("from_bytes: {}", x))?;
        let equal = b.get_entries().len() == n
            && b.get_entries().iter().zip(a.get_entries().iter()).all(|(x, y)| x == y)
            && (fmt != "unicode" || b.get_title() == "T");
        Ok(json!({"op": "bigtext", "fmt": fmt, "endian": endian, "n": n, "len": bytes.len(), "head": bytes[..32].to_vec(),
                  "reparsed_equal": equal}))
    });
    match r {
        Ok(Ok(v)) => v,
        Ok(Err(why)) | Err(why) => json!({"op": "failed", "fmt": fmt, "endian": endian, "title": [], "entries": [], "why": why}),
    }
}

fn format_record(out_path: &str, n: usize, max_entries: usize) {
    let mut rng = Rng::new(seed_from_env() ^ 0xC06);
    let mut out = NdWriter::create(out_path);
    out.put(&big_text_event("unicode", "le", 70_000));
    out.put(&big_text_event("sjis", "be", 65_537));
    for run in 0..n {
        let fmt = if run % 2 == 0 { "unicode" } else { "sjis" };
        let endian = if (run / 2) % 2 == 0 { "le" } else { "be" };
        let (f, e) = fmt2(fmt, endian);
        let mut a = TextArchive::new(f, e);
        if rng.chance(2, 3) {
            a.set_title(random_text(&mut rng, "sjis"));
        }
        let ne = if run % 7 == 0 { 0 } else { rng.range(1, max_entries) };
        for k in 0..ne {
            // keys related by suffix (a later key is the tail of an earlier one, and the other way round), with single- and
            // double-byte heads: a writer that shares name storage must count encoded bytes
            let key = if run % 4 == 3 && k < 4 {
                match k { 0 => format!("MP_剣_Name{}", run), 1 => format!("Name{}", run), 2 => format!("e{}", run), _ => format!("ソｱName{}", run) }
            } else if rng.chance(1, 10) { random_text(&mut rng, "sjis") } else { format!("MID_{}_{}", run, k) };
            if !sjis_lossless(&key) {
                continue;
            }
            let m = random_text(&mut rng, fmt);
            if fmt == "sjis" && !sjis_lossless(&m) {
                continue;
            }
            a.set_message(&key, &m);
        }
        if !sjis_lossless(a.get_title()) {
            a.set_title(String::new());
        }
        let v = text_value(&a, fmt);
        // the same value reached along another history of calls (see build_text)
        let a = if run % 3 == 0 {
            a
        } else {
            let entries: Vec<(String, String)> = a.get_entries().iter().map(|(k, m)| (k.to_string(), m.to_string())).collect();
            let title = a.get_title().to_string();
            match catch(|| build_text(run % 3, f, e, &title, &entries)) {
                Ok(Ok(b)) => b,
                Ok(Err((what, why))) => {
                    out.put(&json!({"op": "failed", "fmt": fmt, "endian": endian, "title": v["title"], "entries": v["entries"], "why": format!("{}: {}", what, why)}));
                    continue;
                }
                Err(why) => {
                    out.put(&json!({"op": "failed", "fmt": fmt, "endian": endian, "title": v["title"], "entries": v["entries"], "why": why}));
                    continue;
                }
            }
        };
        let r = catch(|| -> Result<Value, String> {
            let bytes = a.serialize().map_err(|x| format!("serialize: {}", x))?;
            let b = TextArchive::from_bytes(&bytes, f, e).map_err(|x| format!("from_bytes: {}", x))?;
            Ok(json!({"bytes": bytes, "reparsed": text_value(&b, fmt)}))
        });
        match r {
            Ok(Ok(x)) => out.put(&json!({"op": "text", "fmt": fmt, "endian": endian, "title": v["title"], "entries": v["entries"],
                                          "bytes": x["bytes"], "reparsed": x["reparsed"]})),
            Ok(Err(why)) | Err(why) => out.put(&json!({"op": "failed", "fmt": fmt, "endian": endian, "title": v["title"], "entries": v["entries"], "why": why})),
        }
    }
    out.finish();
}

fn main() {
    install_panic_hook();
    let args: Vec<String> = std::env::args().skip(1).collect();
    let args = &args[..];
    match args.first().map(|s| s.as_str()) {
        Some("replay") if args.len() == 3 => replay(&args[1], &args[2]),
        Some("record") if args.len() == 4 || args.len() == 5 => {
            record(&args[1], args[2].parse().unwrap(), args[3].parse().unwrap(), args.get(4).map(|x| x.parse().unwrap()).unwrap_or(0))
        }
        Some("format-replay") if args.len() == 3 => format_replay(&args[1], &args[2]),
        Some("format-record") if args.len() == 4 => format_record(&args[1], args[2].parse().unwrap(), args[3].parse().unwrap()),
        _ => usage("mvh_text replay <cases.ndjson> <out.ndjson> | record <out.ndjson> <runs> <len>"),
    }
}
