//! mvh_bin — not built yet.
use mvh::util::*;

fn main() {
    install_panic_hook();
    usage("mvh_bin: not implemented yet");
}
