//! mvh_bin — bin archive: file format (C01, C02) and state machine (C03, C04) conformance.
//!   format-replay <cases.ndjson> <out.ndjson>      spec -> impl for C01/C02 (cases from Gen_BinFormat)
//!   format-record <out.ndjson> <n> <maxcells>      impl -> spec: random contents, their image and re-parse
//!   dump <file> <le|be> <out.ndjson>               project a file from disk as a format event
//!   sm-replay / sm-record                           see below (state machine)
use mila::{BinArchive, BinArchiveReader, BinArchiveWriter, Endian};
use mvh::proj::*;
use mvh::util::*;
use serde_json::{json, Value};

// ------------------------------------------------------------------------------------------------
// format: C01 / C02
// ------------------------------------------------------------------------------------------------

/// cells of `expected` that hold a pointer of any kind: raw bytes there are not compared
fn masked_equal(got: &Value, expected: &Value) -> Result<(), String> {
    for k in ["endian", "text", "ptrs", "labels"] {
        if got[k] != expected[k] {
            return Err(format!("{} differs: got {} expected {}", k, got[k], expected[k]));
        }
    }
    let g = json_to_bytes(&got["data"]);
    let e = json_to_bytes(&expected["data"]);
    if g.len() != e.len() {
        return Err(format!("size differs: got {} expected {}", g.len(), e.len()));
    }
    let mut mask = vec![false; e.len()];
    for k in ["text", "ptrs"] {
        for cell in expected[k].as_array().unwrap() {
            let a = cell[0].as_u64().unwrap() as usize;
            for i in a..(a + 4).min(e.len()) {
                mask[i] = true;
            }
        }
    }
    for i in 0..e.len() {
        if !mask[i] && g[i] != e[i] {
            return Err(format!("raw byte {} differs: got {} expected {}", i, g[i], e[i]));
        }
    }
    Ok(())
}

fn cstr_readback(b: &BinArchive, content: &Value) -> Result<(), String> {
    for c in content["cstr"].as_array().unwrap() {
        let a = c[0].as_u64().unwrap() as usize;
        let want = sjis_to_string(&json_to_bytes(&c[1]));
        match b.read_c_string(a) {
            Ok(Some(s)) if s == want => {}
            other => return Err(format!("read_c_string({}) = {:?}, expected {:?}", a, other.map_err(|e| e.to_string()), want)),
        }
    }
    Ok(())
}

fn parse_and_compare(bytes: &[u8], content: &Value, reparsed: &Value) -> Result<(), String> {
    let e = content["endian"].as_str().unwrap();
    let b = BinArchive::from_bytes(bytes, endian_of(&content["endian"])).map_err(|x| format!("from_bytes: {}", x))?;
    masked_equal(&project(&b, e), reparsed)?;
    cstr_readback(&b, content)
}

fn format_replay(cases_path: &str, out_path: &str) {
    let cases = read_ndjson(cases_path);
    let mut out = NdWriter::create(out_path);
    let mut rng = Rng::new(seed_from_env());
    let builds = if tier_is_quick() { 4 } else { 16 };
    let (mut n, mut c01_checks, mut c02_checks) = (0u64, 0u64, 0u64);
    for (i, c) in cases.iter().enumerate() {
        n += 1;
        let content = &c["content"];
        let has_cstr = !content["cstr"].as_array().unwrap().is_empty();
        let exact = c["exact"].as_bool().unwrap();
        let canon = json_to_bytes(&c["canon"]);
        // several builds with different call orders and fresh instances (fresh hash states)
        let mut images: Vec<Vec<u8>> = Vec::new();
        let mut failed = false;
        for _ in 0..builds {
            let mut steps = steps_of(content);
            shuffle_steps(&mut steps, &mut rng);
            let r = catch(|| -> Result<Vec<u8>, String> {
                let a = build_with(content, &steps)?;
                let want = {
                    let mut p = content.clone();
                    p["cstr"] = json!([]);
                    p
                };
                if project(&a, content["endian"].as_str().unwrap()) != want {
                    return Err(format!("harness: built archive does not project to the content: {}", project(&a, "?")));
                }
                a.serialize().map_err(|e| format!("serialize: {}", e))
            });
            match r {
                Ok(Ok(b)) => images.push(b),
                Ok(Err(e)) if e.starts_with("harness:") => {
                    out.put(&json!({"kind": "unbuildable", "i": i, "why": e}));
                    failed = true;
                    break;
                }
                Ok(Err(e)) | Err(e) => {
                    out.put(&json!({"kind": "mismatch", "prop": "C01", "what": "serialize-failed", "i": i, "why": e, "content": content}));
                    failed = true;
                    break;
                }
            }
        }
        if failed {
            continue;
        }
        // C01 (1): serialize -> parse shows the same content
        c01_checks += 1;
        match catch(|| parse_and_compare(&images[0], content, &c["reparsed"])) {
            Ok(Ok(())) => {}
            Ok(Err(e)) | Err(e) => out.put(&json!({"kind": "mismatch", "prop": "C01", "what": "roundtrip", "i": i, "why": e,
                "content": content, "image": bytes_to_json(&images[0]), "has_cstr": has_cstr,
                "mixed": has_cstr && !content["text"].as_array().unwrap().is_empty()})),
        }
        // C01 (2): every conforming layout parses to the same content
        for (li, l) in c["layouts"].as_array().unwrap().iter().enumerate() {
            c01_checks += 1;
            let lb = json_to_bytes(l);
            match catch(|| parse_and_compare(&lb, content, &c["reparsed"])) {
                Ok(Ok(())) => {}
                Ok(Err(e)) | Err(e) => {
                    out.put(&json!({"kind": "mismatch", "prop": "C01", "what": "layout", "i": i, "layout": li, "why": e,
                        "content": content, "image": l, "has_cstr": has_cstr}))
                }
            }
        }
        // C02: determinism over call orders / instances; canonical image; parse+serialize idempotent
        if !has_cstr {
            c02_checks += 1;
            if images.iter().any(|b| b != &images[0]) {
                let other = images.iter().find(|b| *b != &images[0]).unwrap();
                out.put(&json!({"kind": "mismatch", "prop": "C02", "what": "nondeterministic", "i": i, "content": content,
                    "endian": content["endian"], "tie": !exact, "a": bytes_to_json(&images[0]), "b": bytes_to_json(other)}));
            } else if exact && images[0] != canon {
                out.put(&json!({"kind": "mismatch", "prop": "C02", "what": "not-canonical", "i": i, "content": content,
                    "got": bytes_to_json(&images[0]), "canon": c["canon"]}));
            }
            if exact {
                let r = catch(|| -> Result<Vec<u8>, String> {
                    let b = BinArchive::from_bytes(&canon, endian_of(&content["endian"])).map_err(|e| e.to_string())?;
                    b.serialize().map_err(|e| e.to_string())
                });
                match r {
                    Ok(Ok(b)) if b == canon => {}
                    other => out.put(&json!({"kind": "mismatch", "prop": "C02", "what": "reserialize", "i": i, "content": content,
                        "got": format!("{:?}", other)})),
                }
            }
        }
    }
    out.put(&json!({"kind": "summary", "cases": n, "c01_checks": c01_checks, "c02_checks": c02_checks}));
    out.finish();
}

const STRS: &[&str] = &["", "A", "BC", "ｱ", "あ", "ソ", "表", "Hello", "AB", "label", "Count", "日本語ソ", "x\\n"];

fn random_content(rng: &mut Rng, maxcells: usize, allow_cstr: bool) -> Value {
    let endian = if rng.chance(1, 2) { "le" } else { "be" };
    let cells = rng.below(maxcells + 1);
    let extra = if rng.chance(1, 4) { rng.range(1, 3) } else { 0 }; // unaligned tail
    let size = cells * 4 + extra;
    let data = rng.bytes(size);
    let (mut text, mut ptrs, mut cstr) = (vec![], vec![], vec![]);
    let nstr = rng.range(1, STRS.len());
    for cidx in 0..cells {
        let a = cidx * 4;
        match rng.below(10) {
            0 | 1 => text.push(json!([a, string_to_sjis(STRS[rng.below(nstr)]).unwrap()])),
            2 | 3 => ptrs.push(json!([a, if rng.chance(1, 5) { size } else { rng.below(size + 1) }])),
            4 if allow_cstr => cstr.push(json!([a, string_to_sjis(STRS[rng.below(nstr)]).unwrap()])),
            _ => {}
        }
    }
    let mut laddrs: Vec<usize> = Vec::new();
    let nl = rng.below(cells + 2);
    for _ in 0..nl {
        let a = match rng.below(6) {
            0 => size,
            1 => rng.below(size + 1),
            _ => (rng.below(cells + 1) * 4).min(size),
        };
        if !laddrs.contains(&a) {
            laddrs.push(a);
        }
    }
    laddrs.sort();
    // big-endian ordering is only determined when first names are distinct ASCII: generate both kinds
    let distinct_names = rng.chance(2, 3);
    let labels: Vec<Value> = laddrs
        .iter()
        .enumerate()
        .map(|(i, a)| {
            let k = if rng.chance(1, 4) { 2 } else { 1 };
            let names: Vec<Value> = (0..k)
                .map(|j| {
                    let s = if distinct_names && j == 0 { format!("L{:03}", i) } else { STRS[rng.below(STRS.len())].to_string() };
                    json!(string_to_sjis(&s).unwrap())
                })
                .collect();
            json!([a, names])
        })
        .collect();
    json!({"endian": endian, "data": data, "text": text, "ptrs": ptrs, "labels": labels, "cstr": cstr})
}

fn format_event(content: &Value, from_api: bool) -> Value {
    let e = content["endian"].as_str().unwrap();
    let r = catch(|| -> Result<Value, String> {
        let a = build(content)?;
        let bytes = a.serialize().map_err(|x| format!("serialize: {}", x))?;
        let b = BinArchive::from_bytes(&bytes, endian_of(&content["endian"])).map_err(|x| format!("from_bytes: {}", x))?;
        let mut cread = vec![];
        for c in content["cstr"].as_array().unwrap() {
            let addr = c[0].as_u64().unwrap() as usize;
            match b.read_c_string(addr) {
                Ok(Some(s)) => cread.push(json!([addr, string_to_sjis(&s).unwrap_or_default()])),
                _ => cread.push(json!([addr, [0]])),
            }
        }
        let again = b.serialize().map_err(|x| format!("serialize(2): {}", x))?;
        Ok(json!({"bytes": bytes, "reparsed": project(&b, e), "cstr_read": cread, "stable": again == bytes}))
    });
    match r {
        Ok(Ok(mut v)) => {
            v["op"] = json!("image");
            v["content"] = content.clone();
            v["from_api"] = json!(from_api);
            v
        }
        Ok(Err(e)) | Err(e) => json!({"op": "failed", "content": content, "why": e}),
    }
}

fn format_record(out_path: &str, n: usize, maxcells: usize) {
    let mut rng = Rng::new(seed_from_env() ^ 0xC01);
    let mut out = NdWriter::create(out_path);
    for i in 0..n {
        let mc = if i % 10 == 9 { maxcells } else { 1 + (i % 12).min(maxcells) };
        let content = random_content(&mut rng, mc, i % 3 != 0);
        out.put(&format_event(&content, true));
    }
    out.finish();
}

fn dump(file: &str, endian: &str, out_path: &str) {
    let bytes = std::fs::read(file).unwrap_or_else(|e| {
        eprintln!("{}: {}", file, e);
        std::process::exit(2)
    });
    let mut out = NdWriter::create(out_path);
    let r = catch(|| BinArchive::from_bytes(&bytes, endian_of(&json!(endian))).map(|a| (project(&a, endian), a.serialize().map_err(|e| e.to_string()))));
    match r {
        Ok(Ok((content, again))) => out.put(&json!({"op": "file", "file": file, "content": content, "bytes": bytes,
            "reserialized_equal": again.map(|b| b == bytes).unwrap_or(false)})),
        other => out.put(&json!({"op": "failed", "file": file, "why": format!("{:?}", other.map(|x| x.map(|_| ()).map_err(|e| e.to_string())))})),
    }
    out.finish();
}

fn main() {
    install_panic_hook();
    let args: Vec<String> = std::env::args().skip(1).collect();
    let a: Vec<&str> = args.iter().map(|s| s.as_str()).collect();
    match a.as_slice() {
        ["format-replay", cases, out] => format_replay(cases, out),
        ["format-record", out, n, maxcells] => format_record(out, n.parse().unwrap(), maxcells.parse().unwrap()),
        ["dump", file, endian, out] => dump(file, endian, out),
        _ => usage("mvh_bin format-replay|format-record|dump ..."),
    }
    let _ = (BinArchiveReader::new, BinArchiveWriter::new, Endian::Little);
}
