//! mvh_bin — bin archive: file format (C01, C02) and state machine (C03, C04) conformance.
//!   format-replay <cases.ndjson> <out.ndjson>      spec -> impl for C01/C02 (cases from Gen_BinFormat)
//!   format-record <out.ndjson> <n> <maxcells>      impl -> spec: random contents, their image and re-parse
//!   dump <file> <le|be> <out.ndjson>               project a file from disk as a format event
//!   sm-replay / sm-record                           see below (state machine)
use mila::{ArchiveError, BinArchive, BinArchiveReader, BinArchiveWriter, EncodedStringReader, Endian};
use mvh::proj::*;
use mvh::util::*;
use serde_json::{json, Value};

// ------------------------------------------------------------------------------------------------
// format: C01 / C02
// ------------------------------------------------------------------------------------------------

/// cells of `expected` that hold a pointer of any kind: raw bytes there are not compared
fn masked_equal(got: &Value, expected: &Value) -> Result<(), String> {
    for k in ["endian", "text", "ptrs", "labels"] {
        if got[k] != expected[k] {
            return Err(format!("{} differs: got {} expected {}", k, got[k], expected[k]));
        }
    }
    let g = json_to_bytes(&got["data"]);
    let e = json_to_bytes(&expected["data"]);
    if g.len() != e.len() {
        return Err(format!("size differs: got {} expected {}", g.len(), e.len()));
    }
    let mut mask = vec![false; e.len()];
    for k in ["text", "ptrs"] {
        for cell in expected[k].as_array().unwrap() {
            let a = cell[0].as_u64().unwrap() as usize;
            for i in a..(a + 4).min(e.len()) {
                mask[i] = true;
            }
        }
    }
    for i in 0..e.len() {
        if !mask[i] && g[i] != e[i] {
            return Err(format!("raw byte {} differs: got {} expected {}", i, g[i], e[i]));
        }
    }
    Ok(())
}

fn cstr_readback(b: &BinArchive, content: &Value) -> Result<(), String> {
    for c in content["cstr"].as_array().unwrap() {
        let a = c[0].as_u64().unwrap() as usize;
        let want = sjis_to_string(&json_to_bytes(&c[1]));
        match b.read_c_string(a) {
            Ok(Some(s)) if s == want => {}
            other => return Err(format!("read_c_string({}) = {:?}, expected {:?}", a, other.map_err(|e| e.to_string()), want)),
        }
    }
    Ok(())
}

fn parse_and_compare(bytes: &[u8], content: &Value, reparsed: &Value) -> Result<(), String> {
    let e = content["endian"].as_str().unwrap();
    // a parse result must depend on the image alone: first let the parser fail on damaged copies of the same image
    // (cut inside the text section / inside the tables), then parse the real one on the same thread
    for cut in [bytes.len().saturating_sub(1), bytes.len().saturating_sub(3), bytes.len() / 2 + 17] {
        if cut < bytes.len() {
            let _ = catch(|| BinArchive::from_bytes(&bytes[..cut], endian_of(&content["endian"])).map(|_| ()));
        }
    }
    let b = BinArchive::from_bytes(bytes, endian_of(&content["endian"])).map_err(|x| format!("from_bytes: {}", x))?;
    masked_equal(&project(&b, e), reparsed)?;
    cstr_readback(&b, content)
}

fn format_replay(cases_path: &str, out_path: &str) {
    let cases = read_ndjson(cases_path);
    let mut out = NdWriter::create(out_path);
    let mut rng = Rng::new(seed_from_env());
    let builds = if tier_is_quick() { 4 } else { 16 };
    let (mut n, mut c01_checks, mut c02_checks) = (0u64, 0u64, 0u64);
    for (i, c) in cases.iter().enumerate() {
        n += 1;
        let content = &c["content"];
        let has_cstr = !content["cstr"].as_array().unwrap().is_empty();
        let exact = c["exact"].as_bool().unwrap();
        let canon = json_to_bytes(&c["canon"]);
        // several builds with different call orders and fresh instances (fresh hash states)
        let mut images: Vec<Vec<u8>> = Vec::new();
        let mut failed = false;
        for _ in 0..builds {
            let mut steps = steps_of(content);
            shuffle_steps(&mut steps, &mut rng);
            let r = catch(|| -> Result<Vec<u8>, String> {
                let a = build_with(content, &steps)?;
                let want = {
                    let mut p = content.clone();
                    p["cstr"] = json!([]);
                    p
                };
                if project(&a, content["endian"].as_str().unwrap()) != want {
                    return Err(format!("harness: built archive does not project to the content: {}", project(&a, "?")));
                }
                a.serialize().map_err(|e| format!("serialize: {}", e))
            });
            match r {
                Ok(Ok(b)) => images.push(b),
                Ok(Err(e)) if e.starts_with("harness:") => {
                    out.put(&json!({"kind": "unbuildable", "i": i, "why": e}));
                    failed = true;
                    break;
                }
                Ok(Err(e)) | Err(e) => {
                    out.put(&json!({"kind": "mismatch", "prop": "C01", "what": "serialize-failed", "i": i, "why": e, "content": content}));
                    failed = true;
                    break;
                }
            }
        }
        if failed {
            continue;
        }
        // C01 (1): serialize -> parse shows the same content
        c01_checks += 1;
        match catch(|| parse_and_compare(&images[0], content, &c["reparsed"])) {
            Ok(Ok(())) => {}
            Ok(Err(e)) | Err(e) => out.put(&json!({"kind": "mismatch", "prop": "C01", "what": "roundtrip", "i": i, "why": e,
                "content": content, "image": bytes_to_json(&images[0]), "has_cstr": has_cstr,
                "mixed": has_cstr && !content["text"].as_array().unwrap().is_empty()})),
        }
        // C01 (2): every conforming layout parses to the same content
        for (li, l) in c["layouts"].as_array().unwrap().iter().enumerate() {
            c01_checks += 1;
            let lb = json_to_bytes(l);
            match catch(|| parse_and_compare(&lb, content, &c["reparsed"])) {
                Ok(Ok(())) => {}
                Ok(Err(e)) | Err(e) => {
                    out.put(&json!({"kind": "mismatch", "prop": "C01", "what": "layout", "i": i, "layout": li, "why": e,
                        "content": content, "image": l, "has_cstr": has_cstr}))
                }
            }
        }
        // C02: determinism over call orders / instances; canonical image; parse+serialize idempotent
        if !has_cstr {
            c02_checks += 1;
            if images.iter().any(|b| b != &images[0]) {
                let other = images.iter().find(|b| *b != &images[0]).unwrap();
                out.put(&json!({"kind": "mismatch", "prop": "C02", "what": "nondeterministic", "i": i, "content": content,
                    "endian": content["endian"], "tie": !exact, "a": bytes_to_json(&images[0]), "b": bytes_to_json(other)}));
            } else if exact && images[0] != canon {
                out.put(&json!({"kind": "mismatch", "prop": "C02", "what": "not-canonical", "i": i, "content": content,
                    "got": bytes_to_json(&images[0]), "canon": c["canon"]}));
            }
            if exact {
                let r = catch(|| -> Result<Vec<u8>, String> {
                    let b = BinArchive::from_bytes(&canon, endian_of(&content["endian"])).map_err(|e| e.to_string())?;
                    b.serialize().map_err(|e| e.to_string())
                });
                match r {
                    Ok(Ok(b)) if b == canon => {}
                    other => out.put(&json!({"kind": "mismatch", "prop": "C02", "what": "reserialize", "i": i, "content": content,
                        "got": format!("{:?}", other)})),
                }
            }
        }
    }
    out.put(&json!({"kind": "summary", "cases": n, "c01_checks": c01_checks, "c02_checks": c02_checks}));
    out.finish();
}

const STRS: &[&str] = &["", "A", "BC", "ｱ", "あ", "ソ", "表", "Hello", "AB", "label", "Count", "日本語ソ", "x\\n",
    // long strings: more than 64 / 128 encoded bytes, double-byte characters straddling those offsets
    "xアニメーションのなまえがとてもながいばあいのてすとアニメーションのなまえがとてもながい",
    "uEAnim_M_ch100_non_0123456789_abcdefghijklmnopqrstuvwxyz_ABCDEFGHIJKLMNOPQRSTUVWXYZ_0123456789_abcdefghijklmnopqrstuvwxyz_ABCDEFGH_表表表"];

/// STRS plus (with `long_k` = k) ONE string whose Shift-JIS encoding has a double-byte character straddling offset k
/// (k-1 single bytes, then kana): readers that work in blocks of k bytes must not split a character.  k cycles over the
/// powers of two from 64 to 512 (1024 in the thorough tier).
fn str_pool(long_k: Option<usize>) -> Vec<String> {
    let mut v: Vec<String> = STRS.iter().map(|s| s.to_string()).collect();
    if let Some(k) = long_k {
        let mut s = String::new();
        for i in 0..k - 1 {
            s.push((b'a' + (i % 26) as u8) as char);
        }
        s.push_str("あソ表");
        v.push(s);
    }
    v
}

/// `variety`: None = word-aligned cells, short strings (state-machine archives); Some(i) = the i-th content of a format
/// run: every fifth has its cells off the word grid, every sixth carries one long straddling string (k cycles)
fn random_content(rng: &mut Rng, maxcells: usize, allow_cstr: bool, variety: Option<usize>) -> Value {
    let endian = if rng.chance(1, 2) { "le" } else { "be" };
    let label_heavy = variety.map(|i| i % 7 == 6).unwrap_or(false);
    let cells = if label_heavy { maxcells.min(28) } else { rng.below(maxcells + 1) };
    let extra = if rng.chance(1, 4) { rng.range(1, 3) } else { 0 }; // unaligned tail
    let size = cells * 4 + extra;
    let data = rng.bytes(size);
    let (mut text, mut ptrs, mut cstr) = (vec![], vec![], vec![]);
    let long_k = match variety {
        Some(i) if i % 6 == 5 => Some(64usize << ((i / 6) % if tier_is_quick() { 4 } else { 5 })),
        _ => None,
    };
    let pool = str_pool(long_k);
    let nstr = rng.range(1, STRS.len());
    // the API takes any byte address: now and then all annotated cells sit off the word grid (still non-overlapping)
    let delta = if variety.map(|i| i % 5 == 4).unwrap_or(false) { rng.range(1, 3) } else { 0 };
    for cidx in 0..cells {
        let a = cidx * 4 + delta;
        if a + 4 > size {
            continue;
        }
        match rng.below(10) {
            0 | 1 => text.push(json!([a, string_to_sjis(&pool[rng.below(nstr)]).unwrap()])),
            2 | 3 => ptrs.push(json!([a, if rng.chance(1, 5) { size } else { rng.below(size + 1) }])),
            4 if allow_cstr => cstr.push(json!([a, string_to_sjis(&pool[rng.below(nstr)]).unwrap()])),
            _ => {}
        }
    }
    let mut laddrs: Vec<usize> = Vec::new();
    // every seventh content of a format run is label-heavy: (almost) every address labelled, several names each
    let many_labels = label_heavy;
    if many_labels {
        for a in 0..=size {
            if a % 4 == 0 || rng.chance(1, 6) {
                laddrs.push(a);
            }
        }
    }
    let nl = if many_labels { 0 } else { rng.below(cells + 2) };
    for _ in 0..nl {
        let a = match rng.below(6) {
            0 => size,
            1 => rng.below(size + 1),
            _ => (rng.below(cells + 1) * 4).min(size),
        };
        if !laddrs.contains(&a) {
            laddrs.push(a);
        }
    }
    laddrs.sort();
    // big-endian ordering is only determined when first names are distinct ASCII: generate both kinds
    let distinct_names = rng.chance(2, 3);
    let labels: Vec<Value> = laddrs
        .iter()
        .enumerate()
        .map(|(i, a)| {
            let k = if many_labels { rng.range(1, 4) } else if rng.chance(1, 4) { 2 } else { 1 };
            let names: Vec<Value> = (0..k)
                .map(|j| {
                    let s = if distinct_names && j == 0 { format!("L{:03}", i) } else { pool[rng.below(pool.len())].clone() };
                    json!(string_to_sjis(&s).unwrap())
                })
                .collect();
            json!([a, names])
        })
        .collect();
    let mut content = json!({"endian": endian, "data": data, "text": text, "ptrs": ptrs, "labels": labels, "cstr": cstr});
    // the long string is used at least once: as a string, a label name or a c-string in turn
    if let (Some(_), Some(i)) = (long_k, variety) {
        let long = json!(string_to_sjis(pool.last().unwrap()).unwrap());
        let order = [["text", "labels", "cstr"], ["labels", "cstr", "text"], ["cstr", "text", "labels"]][(i / 6) % 3];
        let mut placed = false;
        for key in order {
            if !content[key].as_array().unwrap().is_empty() {
                if key == "labels" {
                    content[key][0][1][0] = long.clone();
                } else {
                    content[key][0][1] = long.clone();
                }
                placed = true;
                break;
            }
        }
        if !placed {
            content["labels"] = json!([[0, [long]]]);
        }
    }
    content
}

fn format_event(content: &Value, from_api: bool) -> Value {
    let e = content["endian"].as_str().unwrap();
    let r = catch(|| -> Result<Value, String> {
        let a = build(content)?;
        let bytes = a.serialize().map_err(|x| format!("serialize: {}", x))?;
        let b = BinArchive::from_bytes(&bytes, endian_of(&content["endian"])).map_err(|x| format!("from_bytes: {}", x))?;
        let mut cread = vec![];
        for c in content["cstr"].as_array().unwrap() {
            let addr = c[0].as_u64().unwrap() as usize;
            match b.read_c_string(addr) {
                Ok(Some(s)) => cread.push(json!([addr, string_to_sjis(&s).unwrap_or_default()])),
                _ => cread.push(json!([addr, [0]])),
            }
        }
        let again = b.serialize().map_err(|x| format!("serialize(2): {}", x))?;
        Ok(json!({"bytes": bytes, "reparsed": project(&b, e), "cstr_read": cread, "stable": again == bytes}))
    });
    match r {
        Ok(Ok(mut v)) => {
            v["op"] = json!("image");
            v["content"] = content.clone();
            v["from_api"] = json!(from_api);
            v
        }
        Ok(Err(e)) | Err(e) => json!({"op": "failed", "content": content, "why": e}),
    }
}

/// Large archives built by rule (counts beyond 2^16): only the header and a summary travel to TLC, which checks the
/// header totals against the rule's numbers; the full comparison of the re-parsed archive with the built content is
/// done here (assumption recorded in the evidence: the middle of such an image is not examined by the specification).
fn big_event(endian: &str, cells: usize, every_text: usize, every_ptr: usize, every_label: usize) -> Value {
    let r = catch(|| -> Result<Value, String> {
        let en = endian_of(&json!(endian));
        let mut a = BinArchive::new(en);
        a.allocate_at_end(cells * 4);
        let (mut nt, mut np, mut nl) = (0usize, 0usize, 0usize);
        for c in 0..cells {
            let addr = c * 4;
            if every_text > 0 && c % every_text == 0 {
                a.write_string(addr, Some(&format!("s{:03}", c % 300))).map_err(|e| e.to_string())?;
                nt += 1;
            } else if every_ptr > 0 && c % every_ptr == 1 {
                a.write_pointer(addr, Some((c * 7) % (cells * 4 + 1))).map_err(|e| e.to_string())?;
                np += 1;
            } else {
                a.write_u32(addr, 0x0101_0101u32.wrapping_mul(c as u32 | 1)).map_err(|e| e.to_string())?;
            }
            if every_label > 0 && c % every_label == 0 {
                a.write_label(addr, &format!("L{:06}", c)).map_err(|e| e.to_string())?;
                nl += 1;
                // every fifth labelled address carries a second and third name (their order is part of the content)
                if c % 5 == 0 {
                    a.write_label(addr, &format!("Z{:06}", c)).map_err(|e| e.to_string())?;
                    a.write_label(addr, &format!("A{:06}", c)).map_err(|e| e.to_string())?;
                    nl += 2;
                }
            }
        }
        let before = project(&a, endian);
        let bytes = a.serialize().map_err(|e| format!("serialize: {}", e))?;
        let b = BinArchive::from_bytes(&bytes, en).map_err(|e| format!("from_bytes: {}", e))?;
        let after = project(&b, endian);
        let equal = masked_equal(&after, &before).is_ok();
        let again = b.serialize().map(|x| x == bytes).unwrap_or(false);
        Ok(json!({"op": "big", "endian": endian, "size": cells * 4, "n_text": nt, "n_ptrs": np, "n_label_names": nl,
                  "len": bytes.len(), "head": bytes[..32.min(bytes.len())].to_vec(), "reparsed_equal": equal, "stable": again}))
    });
    match r {
        Ok(Ok(v)) => v,
        Ok(Err(e)) | Err(e) => json!({"op": "failed", "why": e, "content": {"endian": endian, "data": [], "text": [], "ptrs": [], "labels": [], "cstr": []}}),
    }
}

fn format_record(out_path: &str, n: usize, maxcells: usize) {
    let mut rng = Rng::new(seed_from_env() ^ 0xC01);
    let mut out = NdWriter::create(out_path);
    // counts around and beyond 2^16 (pointer table, label table, string cells)
    out.put(&big_event("le", 70_000, 1, 0, 0));        // 70 000 string cells
    out.put(&big_event("be", 70_000, 0, 2, 0));        // 35 000 internal pointers
    out.put(&big_event("le", 66_000, 3, 3, 1));        // 66 000 labels + mixed cells
    out.put(&big_event("be", 65_537, 2, 2, 2));
    for i in 0..n {
        let mc = if i % 10 == 9 || i % 7 == 6 { maxcells } else { 1 + (i % 12).min(maxcells) };
        let content = random_content(&mut rng, mc, i % 3 != 0, Some(i));
        out.put(&format_event(&content, true));
    }
    out.finish();
}

fn dump(file: &str, endian: &str, out_path: &str) {
    let bytes = std::fs::read(file).unwrap_or_else(|e| {
        eprintln!("{}: {}", file, e);
        std::process::exit(2)
    });
    let mut out = NdWriter::create(out_path);
    let r = catch(|| BinArchive::from_bytes(&bytes, endian_of(&json!(endian))).map(|a| (project(&a, endian), a.serialize().map_err(|e| e.to_string()))));
    match r {
        Ok(Ok((content, again))) => out.put(&json!({"op": "file", "file": file, "content": content, "bytes": bytes,
            "reserialized_equal": again.map(|b| b == bytes).unwrap_or(false)})),
        other => out.put(&json!({"op": "failed", "file": file, "why": format!("{:?}", other.map(|x| x.map(|_| ()).map_err(|e| e.to_string())))})),
    }
    out.finish();
}


// ------------------------------------------------------------------------------------------------
// state machine: C03 / C04
// ------------------------------------------------------------------------------------------------
const MAXU: i64 = 536870911; // stands for usize::MAX in the specification (2^29 - 1, congruent to 3 mod 4)

fn to_usize(v: i64) -> usize {
    if v >= (1 << 28) {
        usize::MAX - (MAXU - v) as usize
    } else {
        v as usize
    }
}
fn from_usize(u: usize) -> i64 {
    if u > (1usize << 40) {
        MAXU - (usize::MAX - u) as i64
    } else {
        u as i64
    }
}

fn res_err() -> Value {
    json!({"ok": false, "some": false, "v": []})
}
/// A refused typed / raw access (C04: "otherwise it returns an out-of-bounds error"): the out-of-bounds error is the
/// specification's ResErr; an error of any other kind is reported with v = [-2], which no outcome allows.
fn err_kind(e: &ArchiveError) -> Value {
    match e {
        ArchiveError::OutOfBoundsAddress(..) => res_err(),
        _ => json!({"ok": false, "some": false, "v": [-2]}),
    }
}
fn typed<T>(r: Result<T, ArchiveError>, f: impl FnOnce(T) -> Value) -> Value {
    match r {
        Ok(x) => f(x),
        Err(e) => err_kind(&e),
    }
}
fn res_unit() -> Value {
    json!({"ok": true, "some": false, "v": []})
}
fn res_val(v: Value) -> Value {
    json!({"ok": true, "some": true, "v": v})
}
fn unit_of<T, E>(r: Result<T, E>) -> Value {
    match r {
        Ok(_) => res_unit(),
        Err(_) => res_err(),
    }
}
fn opt_of<E>(r: Result<Option<Value>, E>) -> Value {
    match r {
        Ok(Some(v)) => res_val(v),
        Ok(None) => res_unit(),
        Err(_) => res_err(),
    }
}
fn sj_json(s: &str) -> Value {
    match string_to_sjis(s) {
        Some(b) => bytes_to_json(&b),
        None => json!([-1]),
    }
}
/// text read by read_c_string: its bytes when plain ASCII, else [-1] (the decoder is lossy on arbitrary bytes)
fn cstr_json(s: &str) -> Value {
    if s.is_ascii() {
        bytes_to_json(s.as_bytes())
    } else {
        json!([-1])
    }
}
fn digits_be(x: u32, w: usize) -> Value {
    let b = x.to_be_bytes();
    bytes_to_json(&b[4 - w..])
}
fn digits_val(d: &Value) -> u32 {
    let b = json_to_bytes(d);
    b.iter().fold(0u32, |acc, x| (acc << 8) | *x as u32)
}

thread_local! {
    /// endianness of the archive under test (true = big), for the stateless Endian codec events
    static CUR_ENDIAN: std::cell::RefCell<bool> = std::cell::RefCell::new(false);
}

fn is_reader_op(op: &str) -> bool {
    matches!(op, "s_read_val" | "s_read_bytes" | "s_read_string" | "s_read_pointer" | "s_read_labels" | "s_read_c_string" | "s_read_label" | "s_read_sjis" | "s_read_utf16")
}

/// One call on a live reader (the cursor is the reader's own); seek / skip included.
fn reader_call(rd: &mut BinArchiveReader, ev: &Value) -> Value {
    let op = ev["op"].as_str().unwrap();
    let n = to_usize(ev["n"].as_i64().unwrap());
    let ty = ev["ty"].as_str().unwrap_or("");
    match op {
        "seek" => {
            rd.seek(to_usize(ev["a"].as_i64().unwrap()));
            res_unit()
        }
        "skip" => {
            rd.skip(n);
            res_unit()
        }
        "s_read_val" => {
            let dg = |x: u32| res_val(digits_be(x, n));
            match (n, ty) {
                (1, "u") => typed(rd.read_u8(), |x| dg(x as u32)),
                (1, _) => typed(rd.read_i8(), |x| dg(x as u8 as u32)),
                (2, "u") => typed(rd.read_u16(), |x| dg(x as u32)),
                (2, _) => typed(rd.read_i16(), |x| dg(x as u16 as u32)),
                (4, "u") => typed(rd.read_u32(), dg),
                (4, "i") => typed(rd.read_i32(), |x| dg(x as u32)),
                (4, _) => typed(rd.read_f32(), |x| dg(x.to_bits())),
                _ => usage("s_read_val width"),
            }
        }
        "s_read_bytes" => typed(rd.read_bytes(n), |b| res_val(bytes_to_json(&b))),
        "s_read_string" => opt_of(rd.read_string().map(|o| o.map(|s| sj_json(&s)))),
        "s_read_pointer" => opt_of(rd.read_pointer().map(|o| o.map(|p| json!([from_usize(p)])))),
        "s_read_labels" => opt_of(rd.read_labels().map(|o| o.map(|l| Value::Array(l.iter().map(|x| sj_json(x)).collect())))),
        "s_read_c_string" => opt_of(rd.read_c_string().map(|o| o.map(|s| cstr_json(&s)))),
        "s_read_label" => opt_of(rd.read_label(n).map(|o| o.map(|s| sj_json(&s)))),
        // cursor string readers (trait EncodedStringReader)
        "s_read_sjis" => match rd.read_shift_jis_string() {
            Ok(s) => res_val(cstr_json(&s)),
            Err(_) => res_err(),
        },
        "s_read_utf16" => match rd.read_utf_16_string() {
            Ok(s) => res_val(Value::Array(s.encode_utf16().map(|u| json!(u)).collect())),
            Err(_) => res_err(),
        },
        other => usage(&format!("unknown reader op {}", other)),
    }
}

/// One call on a live writer; seek / skip / allocate_at_end / size included.
fn writer_call(w: &mut BinArchiveWriter, ev: &Value) -> Value {
    let op = ev["op"].as_str().unwrap();
    let n = to_usize(ev["n"].as_i64().unwrap());
    let ge = ev["ge"].as_bool().unwrap();
    let ty = ev["ty"].as_str().unwrap_or("");
    let bs = &ev["bs"];
    let t = to_usize(ev["t"].as_i64().unwrap_or(0));
    let s_of = |v: &Value| sjis_to_string(&json_to_bytes(v));
    match op {
        "seek" => {
            w.seek(to_usize(ev["a"].as_i64().unwrap()));
            res_unit()
        }
        "skip" => {
            w.skip(n);
            res_unit()
        }
        "w_allocate_at_end" => {
            w.allocate_at_end(n);
            res_unit()
        }
        // both size observers of the writer in one step
        "w_size" => res_val(json!([from_usize(w.size()), from_usize(w.length())])),
        "s_allocate" => unit_of(w.allocate(n, ge)),
        "s_write_val" => {
            let x = digits_val(bs);
            let r = match (n, ty) {
                (1, "u") => w.write_u8(x as u8),
                (1, _) => w.write_i8(x as u8 as i8),
                (2, "u") => w.write_u16(x as u16),
                (2, _) => w.write_i16(x as u16 as i16),
                (4, "u") => w.write_u32(x),
                (4, "i") => w.write_i32(x as i32),
                (4, _) => w.write_f32(f32::from_bits(x)),
                _ => usage("s_write_val width"),
            };
            typed(r, |_| res_unit())
        }
        "s_write_bytes" => typed(w.write_bytes(&json_to_bytes(bs)), |_| res_unit()),
        "s_write_string" => unit_of(w.write_string(Some(&s_of(bs)))),
        "s_delete_string" => unit_of(w.write_string(None)),
        "s_write_pointer" => unit_of(w.write_pointer(Some(t))),
        "s_delete_pointer" => unit_of(w.write_pointer(None)),
        "s_write_c_string" => unit_of(w.write_c_string(s_of(bs))),
        "s_write_label" => unit_of(w.write_label(&s_of(bs))),
        other => usage(&format!("unknown writer op {}", other)),
    }
}

/// A session: ONE reader or writer object (kind "r" / "w") created at cursor `a` and used for every step in turn.
/// The result lists, per step, the call's result and the cursor reported by tell() after it.
fn session_apply(a: &mut BinArchive, ev: &Value) -> (Value, i64) {
    let start = to_usize(ev["a"].as_i64().unwrap());
    let steps = ev["steps"].as_array().unwrap();
    let mut obs = Vec::new();
    let last;
    if ev["kind"].as_str() == Some("r") {
        let mut rd = BinArchiveReader::new(a, start);
        for st in steps {
            let r = reader_call(&mut rd, st);
            obs.push(json!({"res": r, "pos": from_usize(rd.tell())}));
        }
        last = from_usize(rd.tell());
    } else {
        let mut w = BinArchiveWriter::new(a, start);
        for st in steps {
            let r = writer_call(&mut w, st);
            obs.push(json!({"res": r, "pos": from_usize(w.tell())}));
        }
        last = from_usize(w.tell());
    }
    (json!({"steps": obs}), last)
}


/// Apply one event to the archive; returns (res, cursor position reported: 0 for positional calls).
fn sm_apply(a: &mut BinArchive, ev: &Value) -> (Value, i64) {
    let op = ev["op"].as_str().unwrap();
    let addr = to_usize(ev["a"].as_i64().unwrap());
    let n = to_usize(ev["n"].as_i64().unwrap());
    let ge = ev["ge"].as_bool().unwrap();
    let ty = ev["ty"].as_str().unwrap_or("");
    let bs = &ev["bs"];
    let t = to_usize(ev["t"].as_i64().unwrap_or(0));
    let s_of = |v: &Value| sjis_to_string(&json_to_bytes(v));
    match op {
        "allocate" => (unit_of(a.allocate(addr, n, ge)), 0),
        "allocate_at_end" => {
            a.allocate_at_end(n);
            (res_unit(), 0)
        }
        "deallocate" => (unit_of(a.deallocate(addr, n, ge)), 0),
        "truncate" => (unit_of(a.truncate(addr)), 0),
        "read_bytes" => (typed(a.read_bytes(addr, n), |b| res_val(bytes_to_json(b))), 0),
        "write_bytes" => (typed(a.write_bytes(addr, &json_to_bytes(bs)), |_| res_unit()), 0),
        "read_val" => {
            let dg = |x: u32| res_val(digits_be(x, n));
            let r = match (n, ty) {
                (1, "u") => typed(a.read_u8(addr), |x| dg(x as u32)),
                (1, _) => typed(a.read_i8(addr), |x| dg(x as u8 as u32)),
                (2, "u") => typed(a.read_u16(addr), |x| dg(x as u32)),
                (2, _) => typed(a.read_i16(addr), |x| dg(x as u16 as u32)),
                (4, "u") => typed(a.read_u32(addr), dg),
                (4, "i") => typed(a.read_i32(addr), |x| dg(x as u32)),
                (4, _) => typed(a.read_f32(addr), |x| dg(x.to_bits())),
                _ => usage("read_val width"),
            };
            (r, 0)
        }
        "write_val" => {
            let x = digits_val(bs);
            let r = match (n, ty) {
                (1, "u") => a.write_u8(addr, x as u8),
                (1, _) => a.write_i8(addr, x as u8 as i8),
                (2, "u") => a.write_u16(addr, x as u16),
                (2, _) => a.write_i16(addr, x as u16 as i16),
                (4, "u") => a.write_u32(addr, x),
                (4, "i") => a.write_i32(addr, x as i32),
                (4, _) => a.write_f32(addr, f32::from_bits(x)),
                _ => usage("write_val width"),
            };
            (typed(r, |_| res_unit()), 0)
        }
        "read_string" => (opt_of(a.read_string(addr).map(|o| o.map(|s| sj_json(&s)))), 0),
        "read_pointer" => (opt_of(a.read_pointer(addr).map(|o| o.map(|p| json!([from_usize(p)])))), 0),
        "read_labels" => (opt_of(a.read_labels(addr).map(|o| o.map(|l| Value::Array(l.iter().map(|x| sj_json(x)).collect())))), 0),
        "read_c_string" => (opt_of(a.read_c_string(addr).map(|o| o.map(|s| cstr_json(&s)))), 0),
        "write_string" => (unit_of(a.write_string(addr, Some(&s_of(bs)))), 0),
        "delete_string" => (unit_of(a.delete_string(addr)), 0),
        "write_pointer" => (unit_of(a.write_pointer(addr, Some(t))), 0),
        "delete_pointer" => (unit_of(a.delete_pointer(addr)), 0),
        "write_c_string" => (unit_of(a.write_c_string(addr, s_of(bs))), 0),
        "write_label" => (unit_of(a.write_label(addr, &s_of(bs))), 0),
        "write_labels" => (unit_of(a.write_labels(addr, bs.as_array().unwrap().iter().map(|x| s_of(x)).collect())), 0),
        "delete_labels" => (unit_of(a.delete_labels(addr)), 0),
        "delete_label" => (unit_of(a.delete_label(addr, n)), 0),
        "get_labels" => (
            res_val(Value::Array(a.get_labels().iter().map(|(ad, nm)| json!([from_usize(*ad), sj_json(nm)])).collect())),
            0,
        ),
        "find_label" => (
            match a.find_label_address(&s_of(bs)) {
                Some(ad) => res_val(json!([from_usize(ad)])),
                None => res_unit(),
            },
            0,
        ),
        "pointer_destinations" => {
            let mut d: Vec<usize> = a.pointer_destinations().into_iter().collect();
            d.sort();
            (res_val(Value::Array(d.iter().map(|x| json!(from_usize(*x))).collect())), 0)
        }
        "equal_regions" => {
            let b: &BinArchive = a;
            (unit_of(b.assert_equal_regions(b, addr, t, n)), 0)
        }
        "endian_encode" | "endian_decode" => {
            let e = CUR_ENDIAN.with(|c| *c.borrow());
            let en = if e { Endian::Big } else { Endian::Little };
            if op == "endian_encode" {
                let x = digits_val(bs);
                let out = match (n, ty) {
                    (2, "u") => en.encode_u16(x as u16),
                    (2, _) => en.encode_i16(x as u16 as i16),
                    (4, "u") => en.encode_u32(x),
                    (4, "i") => en.encode_i32(x as i32),
                    (4, _) => en.encode_f32(f32::from_bits(x)),
                    _ => usage("endian_encode width"),
                };
                (res_val(bytes_to_json(&out)), 0)
            } else {
                let b = json_to_bytes(bs);
                let r = match (n, ty) {
                    (2, "u") => en.decode_u16(&b).map(|x| x as u32).ok(),
                    (2, _) => en.decode_i16(&b).map(|x| x as u16 as u32).ok(),
                    (4, "u") => en.decode_u32(&b).ok(),
                    (4, "i") => en.decode_i32(&b).map(|x| x as u32).ok(),
                    (4, _) => en.decode_f32(&b).map(|x| x.to_bits()).ok(),
                    _ => usage("endian_decode width"),
                };
                (r.map(|x| res_val(digits_be(x, n))).unwrap_or_else(res_err), 0)
            }
        }
        "session" => session_apply(a, ev),
        o if o.starts_with("s_") => {
            // one-shot stream call: an object created at the cursor, one call, tell()
            if is_reader_op(o) {
                let mut rd = BinArchiveReader::new(a, addr);
                let r = reader_call(&mut rd, ev);
                (r, from_usize(rd.tell()))
            } else {
                let mut w = BinArchiveWriter::new(a, addr);
                let r = writer_call(&mut w, ev);
                (r, from_usize(w.tell()))
            }
        }
        other => usage(&format!("unknown op {}", other)),
    }
}

/// full observable state incl. pending c-strings (hook)
fn sm_project(a: &BinArchive, endian: &str) -> Value {
    match catch(|| project_full(a, endian)) {
        Ok(p) => p,
        Err(p) => json!({"unobservable": format!("panic {}", p)}),
    }
}

fn res_matches(o: &Value, got: &Value) -> bool {
    match (o["steps"].as_array(), got["steps"].as_array()) {
        // session: step by step, an open cursor (-1) matches every cursor
        (Some(a), Some(b)) => a.len() == b.len() && a.iter().zip(b).all(|(x, y)| x["res"] == y["res"] && (x["pos"].as_i64() == Some(-1) || x["pos"] == y["pos"])),
        _ => o == got,
    }
}

fn outcome_matches(o: &Value, got: &Value) -> bool {
    res_matches(&o["res"], &got["res"]) && o["st"] == got["st"] && (o["pos"].as_i64() == Some(-1) || o["pos"] == got["pos"])
}

fn sm_replay(cases_path: &str, out_path: &str) {
    let cases = read_ndjson(cases_path);
    let mut out = NdWriter::create(out_path);
    let (mut n, mut bad, mut unb) = (0u64, 0u64, 0u64);
    for (i, c) in cases.iter().enumerate() {
        n += 1;
        let pre = &c["pre"];
        let e = pre["endian"].as_str().unwrap();
        CUR_ENDIAN.with(|c| *c.borrow_mut() = e == "be");
        let built = catch(|| -> Result<BinArchive, String> {
            // the pre-state is established in a different call order from case to case (per-address label order
            // kept): internal state that depends on the order of earlier writes must not matter
            let mut steps = steps_of(pre);
            if i % 2 == 1 {
                let mut r = Rng::new(seed_from_env() ^ (i as u64).wrapping_mul(0x9E37));
                shuffle_steps(&mut steps, &mut r);
            }
            let a = build_with(pre, &steps)?;
            let p = sm_project(&a, e);
            if &p != pre {
                return Err(format!("cannot establish pre-state: got {}", p));
            }
            Ok(a)
        });
        let mut a = match built {
            Ok(Ok(a)) => a,
            Ok(Err(why)) | Err(why) => {
                unb += 1;
                if unb <= 5 {
                    out.put(&json!({"kind": "unbuildable", "i": i, "why": why, "pre": pre}));
                }
                continue;
            }
        };
        let got = match catch(|| {
            let (res, pos) = sm_apply(&mut a, &c["ev"]);
            (res, pos)
        }) {
            Ok((res, pos)) => json!({"res": res, "pos": pos, "st": sm_project(&a, e)}),
            Err(p) => json!({"panic": p}),
        };
        if !c["allowed"].as_array().unwrap().iter().any(|o| outcome_matches(o, &got)) {
            bad += 1;
            out.put(&json!({"kind": "mismatch", "i": i, "case": c, "got": got}));
        }
    }
    out.put(&json!({"kind": "summary", "cases": n, "mismatches": bad, "unbuildable": unb}));
    out.finish();
}

// ---- recording random histories (impl -> spec) ------------------------------------------------------
fn ev(op: &str, a: i64, n: i64, ge: bool, bs: Value, t: i64, ty: &str) -> Value {
    json!({"op": op, "a": a, "n": n, "ge": ge, "bs": bs, "t": t, "ty": ty})
}

fn cell_has(p: &Value, key: &str, a: i64) -> bool {
    p[key].as_array().unwrap().iter().any(|x| x[0].as_i64() == Some(a))
}

/// A random session (one live reader / writer used for several calls).  Annotation writes are only made right after a
/// seek to a cell known to be free (one annotation per cell is the domain of the properties); after an insert the
/// free cells are no longer known and none is made.
fn random_session(rng: &mut Rng, p: &Value, focus: &str) -> Value {
    let size0 = p["data"].as_array().unwrap().len() as i64;
    let names: [&[u8]; 3] = [b"A", b"BC", b"Lbl"];
    let writer = focus == "c03" || rng.chance(1, 2);
    let mut free: Vec<i64> = (0..size0 / 4).map(|c| 4 * c).filter(|a| !cell_has(p, "text", *a) && !cell_has(p, "ptrs", *a) && !cell_has(p, "cstr", *a)).collect();
    let mut sz = size0; // size as the session is expected to leave it (an estimate: the specification decides)
    let mut hi = false; // cursor possibly near usize::MAX: no skip
    let mut steps: Vec<Value> = Vec::new();
    let start = match rng.below(4) {
        0 => 0,
        1 => size0,
        _ => rng.below(size0 as usize + 1) as i64 / if focus == "c03" { 4 } else { 1 } * if focus == "c03" { 4 } else { 1 },
    };
    let n_steps = rng.range(2, 7);
    while steps.len() < n_steps {
        let r = rng.below(100);
        if r < 22 {
            let a = match rng.below(8) {
                0 => 0,
                1 => size0,
                2 => sz,
                3 => sz + 4,
                4 if focus == "c04" => MAXU - rng.below(5) as i64,
                5 => rng.below(sz as usize + 2) as i64,
                _ => 4 * rng.below((sz / 4).max(1) as usize) as i64,
            };
            hi = a >= (1 << 28);
            steps.push(ev("seek", a, 0, false, json!([]), 0, ""));
        } else if r < 27 && !hi {
            steps.push(ev("skip", 0, [0i64, 1, 4][rng.below(3)], false, json!([]), 0, ""));
        } else if !writer {
            let w = [1i64, 2, 4][rng.below(3)];
            let ty = if w == 4 { ["u", "i", "f"][rng.below(3)] } else { ["u", "i"][rng.below(2)] };
            steps.push(match rng.below(10) {
                0..=3 => ev("s_read_val", 0, w, false, json!([]), 0, ty),
                4..=5 => ev("s_read_bytes", 0, rng.below(6) as i64, false, json!([]), 0, ""),
                6 => ev("s_read_string", 0, 0, false, json!([]), 0, ""),
                7 => ev("s_read_pointer", 0, 0, false, json!([]), 0, ""),
                8 => ev("s_read_labels", 0, 0, false, json!([]), 0, ""),
                _ => ev(["s_read_c_string", "s_read_sjis", "s_read_utf16"][rng.below(3)], 0, 0, false, json!([]), 0, ""),
            });
        } else if r < 40 && focus == "c03" && sz <= 200 {
            let n = [0i64, 3, 4, 8][rng.below(4)];
            sz += n;
            steps.push(ev("w_allocate_at_end", 0, n, false, json!([]), 0, ""));
        } else if r < 55 && focus == "c03" && sz <= 200 {
            let n = [0i64, 4, 8, 3][rng.below(4)];
            if n % 4 == 0 {
                sz += n;
            }
            free.clear();
            steps.push(ev("s_allocate", 0, n, rng.chance(1, 2), json!([]), 0, ""));
        } else if r < 70 && !free.is_empty() {
            let a = free.swap_remove(rng.below(free.len()));
            hi = false;
            steps.push(ev("seek", a, 0, false, json!([]), 0, ""));
            let nm = bytes_to_json(names[rng.below(3)]);
            steps.push(match rng.below(3) {
                0 => ev("s_write_string", 0, 0, false, nm, 0, ""),
                1 => ev("s_write_pointer", 0, 0, false, json!([]), rng.below(sz as usize + 1) as i64, ""),
                _ => ev("s_write_c_string", 0, 0, false, nm, 0, ""),
            });
        } else if r < 73 && writer {
            // the same cell written twice with values that are equal as numbers but not as bits (+0.0 / -0.0)
            let a = 4 * rng.below((sz / 4).max(1) as usize) as i64;
            let first = if rng.chance(1, 2) { 0x80 } else { 0 };
            hi = false;
            steps.push(ev("seek", a, 0, false, json!([]), 0, ""));
            steps.push(ev("s_write_val", 0, 4, false, json!([first, 0, 0, 0]), 0, "f"));
            steps.push(ev("seek", a, 0, false, json!([]), 0, ""));
            steps.push(ev("s_write_val", 0, 4, false, json!([first ^ 0x80, 0, 0, 0]), 0, "f"));
        } else if r < 76 {
            steps.push(ev("s_write_label", 0, 0, false, bytes_to_json(names[rng.below(3)]), 0, ""));
        } else if r < 80 {
            steps.push(ev(if rng.chance(1, 2) { "s_delete_string" } else { "s_delete_pointer" }, 0, 0, false, json!([]), 0, ""));
        } else if r < 85 {
            steps.push(ev("w_size", 0, 0, false, json!([]), 0, ""));
        } else if r < 92 && focus == "c04" {
            let k = rng.below(6);
            steps.push(ev("s_write_bytes", 0, 0, false, bytes_to_json(&rng.bytes(k)), 0, ""));
        } else {
            let w = if focus == "c03" { 4 } else { [1i64, 2, 4][rng.below(3)] };
            let ty = if w == 4 { ["u", "i", "f"][rng.below(3)] } else { ["u", "i"][rng.below(2)] };
            steps.push(ev("s_write_val", 0, w, false, bytes_to_json(&rng.bytes(w as usize)), 0, ty));
        }
    }
    let mut e = ev("session", start, 0, false, json!([]), 0, "");
    e["kind"] = json!(if writer { "w" } else { "r" });
    e["steps"] = Value::Array(steps);
    e
}

fn random_event(rng: &mut Rng, p: &Value, focus: &str) -> Value {
    let size = p["data"].as_array().unwrap().len() as i64;
    let cells = size / 4;
    let names: [&[u8]; 4] = [b"A", b"BC", b"Lbl", b""];
    let name = |rng: &mut Rng| bytes_to_json(names[rng.below(4)]);
    // an address: mostly a valid cell, sometimes misaligned / at the end / beyond / near usize::MAX
    let addr = |rng: &mut Rng| -> i64 {
        match rng.below(20) {
            0 => size,
            1 => size + 4,
            2 => rng.below(size as usize + 2) as i64,
            3 => MAXU - rng.below(9) as i64,
            _ => 4 * rng.below(cells.max(1) as usize) as i64,
        }
    };
    let len = |rng: &mut Rng| -> i64 {
        match rng.below(20) {
            0 => 0,
            1 => 3,
            2 => MAXU - rng.below(9) as i64,
            3 => size + 4,
            _ => 4 * rng.range(1, 3) as i64,
        }
    };
    let free_cell = |rng: &mut Rng, p: &Value| -> Option<i64> {
        if cells == 0 {
            return None;
        }
        for _ in 0..8 {
            let a = 4 * rng.below(cells as usize) as i64;
            if !cell_has(p, "text", a) && !cell_has(p, "ptrs", a) && !cell_has(p, "cstr", a) {
                return Some(a);
            }
        }
        None
    };
    if rng.chance(1, 9) {
        return random_session(rng, p, focus);
    }
    let stream = rng.chance(1, 2);
    let pre = |o: &str| if stream { format!("s_{}", o) } else { o.to_string() };
    if focus == "c03" {
        match rng.below(100) {
            0..=19 if size <= 200 => ev("allocate", addr(rng), len(rng).min(64), rng.chance(1, 2), json!([]), 0, ""),
            20..=24 if size <= 200 => ev("allocate_at_end", 0, [0, 3, 4, 8][rng.below(4)], false, json!([]), 0, ""),
            25..=32 if size <= 200 => ev("s_allocate", addr(rng), len(rng).min(64), rng.chance(1, 2), json!([]), 0, ""),
            33..=54 => ev("deallocate", addr(rng), len(rng), rng.chance(1, 2), json!([]), 0, ""),
            55..=59 => ev("truncate", 4 * rng.below(cells as usize + 2) as i64, 0, false, json!([]), 0, ""),
            60..=67 => match free_cell(rng, p) {
                Some(a) => ev(&pre("write_string"), a, 0, false, name(rng), 0, ""),
                None => ev("read_string", addr(rng), 0, false, json!([]), 0, ""),
            },
            68..=75 => match free_cell(rng, p) {
                Some(a) => ev(&pre("write_pointer"), a, 0, false, json!([]), if rng.chance(1, 4) { size } else { rng.below(size as usize + 1) as i64 }, ""),
                None => ev("read_pointer", addr(rng), 0, false, json!([]), 0, ""),
            },
            76..=80 => match free_cell(rng, p) {
                Some(a) if !rng.chance(1, 4) => ev(&pre("write_c_string"), a, 0, false, name(rng), 0, ""),
                // an address at which no cell fits: the write is refused (or, where the statements are silent, performed)
                _ => ev(&pre(["write_c_string", "write_string", "write_pointer"][rng.below(3)]),
                        [size, size + 4, (size - 2).max(0) + 1, MAXU - 3, MAXU][rng.below(5)], 0, false, name(rng), 0, ""),
            },
            81..=88 => ev(&pre("write_label"), if rng.chance(1, 3) { rng.below(size as usize + 1) as i64 } else { addr(rng) }, 0, false, name(rng), 0, ""),
            89..=90 => ev("write_labels", addr(rng), 0, false, json!([name(rng), name(rng)]), 0, ""),
            91..=93 => ev(&pre("delete_string"), addr(rng), 0, false, json!([]), 0, ""),
            94..=96 => ev(&pre("delete_pointer"), addr(rng), 0, false, json!([]), 0, ""),
            97 => ev("delete_labels", addr(rng), 0, false, json!([]), 0, ""),
            _ => ev("write_val", addr(rng), 4, false, bytes_to_json(&rng.bytes(4)), 0, "u"),
        }
    } else {
        // any byte address
        let baddr = |rng: &mut Rng| -> i64 {
            match rng.below(12) {
                0 => size,
                1 => size + 1,
                2 => MAXU - rng.below(6) as i64,
                3 => (size - rng.below(5) as i64).max(0),
                _ => rng.below(size.max(1) as usize) as i64,
            }
        };
        let w = [1i64, 2, 4][rng.below(3)];
        let ty = if w == 4 { ["u", "i", "f"][rng.below(3)] } else { ["u", "i"][rng.below(2)] };
        match rng.below(100) {
            0..=17 => ev(&pre("read_val"), baddr(rng), w, false, json!([]), 0, ty),
            18..=39 => {
                let mut d = rng.bytes(w as usize);
                if rng.chance(1, 4) && w == 4 {
                    d = vec![0x7f, 0xc0 | (rng.next() as u8 & 0x3f), rng.next() as u8, 1]; // NaN payloads
                } else if rng.chance(1, 5) && w == 4 {
                    d = vec![if rng.chance(1, 2) { 0x80 } else { 0 }, 0, 0, 0]; // +0.0 / -0.0 (and 0 / i32::MIN)
                }
                ev(&pre("write_val"), baddr(rng), w, false, bytes_to_json(&d), 0, ty)
            }
            40..=51 => ev(&pre("read_bytes"), baddr(rng), match rng.below(8) { 0 => 0, 1 => MAXU - rng.below(3) as i64, 2 => size + 1, _ => rng.below(size as usize + 2) as i64 }, false, json!([]), 0, ""),
            52..=63 => {
                let k = match rng.below(6) { 0 => 0, 1 => size as usize + 1, _ => rng.below(size as usize + 1) };
                // now and then text-like content: small code units with NULs in between (the cursor string readers find terminators)
                let mut b = rng.bytes(k);
                if rng.chance(1, 2) {
                    for x in b.iter_mut() {
                        *x = if *x % 3 == 0 { 0 } else { 0x41 + *x % 8 };
                    }
                }
                ev(&pre("write_bytes"), baddr(rng), 0, false, bytes_to_json(&b), 0, "")
            }
            64..=66 => ev(&pre("read_string"), addr(rng), 0, false, json!([]), 0, ""),
            67..=69 => ev(&pre("read_c_string"), addr(rng), 0, false, json!([]), 0, ""),
            70..=75 => ev(&pre("read_pointer"), addr(rng), 0, false, json!([]), 0, ""),
            76..=81 => ev(&pre("read_labels"), addr(rng), 0, false, json!([]), 0, ""),
            82..=85 => match free_cell(rng, p) {
                Some(a) => ev(&pre("write_string"), a, 0, false, name(rng), 0, ""),
                None => ev("read_string", addr(rng), 0, false, json!([]), 0, ""),
            },
            86..=89 => match free_cell(rng, p) {
                Some(a) => ev(&pre("write_pointer"), a, 0, false, json!([]), rng.below(size as usize + 1) as i64, ""),
                None => ev("read_pointer", addr(rng), 0, false, json!([]), 0, ""),
            },
            90..=93 => ev(&pre("write_label"), addr(rng), 0, false, name(rng), 0, ""),
            94 => ev(&pre("delete_string"), addr(rng), 0, false, json!([]), 0, ""),
            95 => match free_cell(rng, p) {
                Some(a) if rng.chance(1, 2) => ev(&pre("write_c_string"), a, 0, false, name(rng), 0, ""),
                _ => ev(&pre("write_c_string"), [size, size + 1, (size - 3).max(0), MAXU - 3, MAXU][rng.below(5)], 0, false, name(rng), 0, ""),
            },
            96 => ev("delete_label", addr(rng), rng.below(3) as i64, false, json!([]), 0, ""),
            97 => match rng.below(3) {
                0 => ev("s_read_label", addr(rng), rng.below(3) as i64, false, json!([]), 0, ""),
                1 => ev("s_read_sjis", baddr(rng), 0, false, json!([]), 0, ""),
                _ => ev("s_read_utf16", baddr(rng), 0, false, json!([]), 0, ""),
            },
            98 => match rng.below(3) {
                0 => ev("get_labels", 0, 0, false, json!([]), 0, ""),
                1 => ev("pointer_destinations", 0, 0, false, json!([]), 0, ""),
                _ => ev("find_label", 0, 0, false, name(rng), 0, ""),
            },
            _ => ev(&pre("delete_pointer"), addr(rng), 0, false, json!([]), 0, ""),
        }
    }
}

fn sm_initial(rng: &mut Rng, focus: &str, maxcells: usize) -> (BinArchive, String) {
    let mut content = random_content(rng, maxcells, focus == "c03", None);
    if focus == "c03" {
        // structural operations are about cell-aligned archives
        let n = content["data"].as_array().unwrap().len() / 4 * 4;
        content["data"].as_array_mut().unwrap().truncate(n);
        let lab: Vec<Value> = content["labels"].as_array().unwrap().iter().filter(|l| l[0].as_u64().unwrap() as usize <= n).cloned().collect();
        content["labels"] = Value::Array(lab);
        for p in content["ptrs"].as_array_mut().unwrap() {
            if p[1].as_u64().unwrap() as usize > n {
                p[1] = json!(n);
            }
        }
    }
    let e = content["endian"].as_str().unwrap().to_string();
    match build(&content) {
        Ok(a) => (a, e),
        Err(why) => {
            eprintln!("record: cannot build initial archive: {}", why);
            std::process::exit(2)
        }
    }
}

fn serialize_event(a: &BinArchive, e: &str) -> Value {
    let mut sv = ev("serialize", 0, 0, false, json!([]), 0, "");
    sv["res"] = match catch(|| a.serialize()) {
        Ok(Ok(bytes)) => res_val(bytes_to_json(&bytes)),
        Ok(Err(_)) => res_err(),
        Err(pn) => json!({"panic": pn}),
    };
    sv["pos"] = json!(0);
    sv["post"] = sm_project(a, e);
    sv
}

/// Random histories.  Every third run drives TWO archives alive at the same time (calls interleaved at random,
/// events carry "obj"): nothing done to one archive may show in the other.
fn sm_record(out_path: &str, focus: &str, runs: usize, len: usize) {
    let mut rng = Rng::new(seed_from_env() ^ 0x5EED);
    let mut out = NdWriter::create(out_path);
    for run in 0..runs {
        let maxcells = if focus == "c04" { 1 + run % 6 } else { 1 + run % 16 };
        let twin = run % 3 == 1;
        let nobj = if twin { 2 } else { 1 };
        let mut objs: Vec<(BinArchive, String)> = (0..nobj).map(|_| sm_initial(&mut rng, focus, maxcells)).collect();
        let tag = |v: &mut Value, o: usize| {
            if twin {
                v["obj"] = json!(o);
            }
        };
        let reset = |a: &BinArchive, e: &str, o: usize| {
            let mut r = json!({"op": "reset", "a": 0, "n": 0, "ge": false, "bs": [], "t": 0, "ty": "", "res": res_unit(), "pos": 0, "post": sm_project(a, e)});
            if twin {
                r["obj"] = json!(o);
            }
            r
        };
        for o in 0..nobj {
            out.put(&reset(&objs[o].0, &objs[o].1, o));
        }
        for step in 0..len {
            let o = if twin { rng.below(2) } else { 0 };
            let e = objs[o].1.clone();
            CUR_ENDIAN.with(|c| *c.borrow_mut() = e == "be");
            let a = &mut objs[o].0;
            let p = sm_project(a, &e);
            // now and then (and at the end of every run): serialize the archive as the history left it
            if step + 1 == len || rng.chance(1, 40) {
                let mut sv = serialize_event(a, &e);
                tag(&mut sv, o);
                out.put(&sv);
            }
            // twin histories: now and then compare a region of this archive with a region of the other one
            if twin && rng.chance(1, 20) {
                let osz = objs[1 - o].0.size() as i64;
                let mut cmp = ev("equal_regions2", 4 * rng.below((p["data"].as_array().unwrap().len() / 4).max(1)) as i64,
                                 [0i64, 4, 8, 5][rng.below(4)], false, json!([]), 4 * rng.below((osz / 4).max(1) as usize) as i64, "");
                tag(&mut cmp, o);
                let (me, other) = (&objs[o].0, &objs[1 - o].0);
                let (aa, tt, nn) = (to_usize(cmp["a"].as_i64().unwrap()), to_usize(cmp["t"].as_i64().unwrap()), to_usize(cmp["n"].as_i64().unwrap()));
                cmp["res"] = match catch(|| me.assert_equal_regions(other, aa, tt, nn)) {
                    Ok(r) => unit_of(r),
                    Err(pn) => json!({"panic": pn}),
                };
                cmp["pos"] = json!(0);
                cmp["post"] = sm_project(me, &e);
                out.put(&cmp);
                continue;
            }
            let a = &mut objs[o].0;
            let mut evv = random_event(&mut rng, &p, focus);
            tag(&mut evv, o);
            match catch(|| sm_apply(a, &evv)) {
                Ok((res, pos)) => {
                    // a refused call must leave nothing behind - not even something only a later serialize() shows
                    let refused = res["ok"].as_bool() == Some(false);
                    evv["res"] = res;
                    evv["pos"] = json!(pos);
                    evv["post"] = sm_project(a, &e);
                    out.put(&evv);
                    if refused && rng.chance(1, 3) {
                        let mut sv = serialize_event(a, &e);
                        tag(&mut sv, o);
                        out.put(&sv);
                    }
                }
                Err(pn) => {
                    evv["res"] = json!({"panic": pn});
                    evv["pos"] = json!(0);
                    evv["post"] = sm_project(a, &e);
                    out.put(&evv);
                    out.put(&reset(a, &e, o));
                }
            }
        }
    }
    out.finish();
}

fn main() {
    install_panic_hook();
    let args: Vec<String> = std::env::args().skip(1).collect();
    let a: Vec<&str> = args.iter().map(|s| s.as_str()).collect();
    match a.as_slice() {
        ["format-replay", cases, out] => format_replay(cases, out),
        ["format-record", out, n, maxcells] => format_record(out, n.parse().unwrap(), maxcells.parse().unwrap()),
        ["dump", file, endian, out] => dump(file, endian, out),
        ["sm-replay", cases, out] => sm_replay(cases, out),
        ["sm-record", out, focus, runs, len] => sm_record(out, focus, runs.parse().unwrap(), len.parse().unwrap()),
        _ => usage("mvh_bin format-replay|format-record|dump ..."),
    }
    let _ = Endian::Little;
}
