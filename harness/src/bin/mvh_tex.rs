//! Textures (C19 pixel decoding, C20 texture containers).
//!
//!   replay  <cases.ndjson> <out.ndjson>       C19 spec->impl: cases printed by Gen_Pixel / Gen_Etc1
//!                                              (input + lowest/highest allowed output bytes)
//!   record  <templates.ndjson> <out.ndjson>   C19 impl->spec: payloads (position, all 16-bit values, byte
//!                                              lanes, random) put into the container templates printed by
//!                                              Gen_Pixel, decoded by mila, logged for Trace_Pixel
//!   readers <cases.ndjson> <out.ndjson> <trace.ndjson> [--from K]
//!                                              C20: files printed by Gen_TexContainers read in full, on every
//!                                              strict prefix and with a damaged magic number (isolated
//!                                              protocol); reader outputs logged for Trace_TexContainers
//!
//! No decoding rule lives here: this file builds inputs, calls mila and compares with / logs for the spec.
use mila::{ColorFormat, Texture};
use mvh::util::*;
use serde_json::{json, Value};

// ------------------------------------------------------------------------------------------------ calls
#[derive(Clone)]
enum Out {
    Ok(Vec<Tex>),
    Err(String),
    Panic(String),
}
#[derive(Clone)]
struct Tex {
    name: String,
    w: usize,
    h: usize,
    px: Vec<u8>,
}
fn conv(t: Vec<Texture>) -> Vec<Tex> {
    t.into_iter().map(|t| Tex { name: t.filename, w: t.width, h: t.height, px: t.pixel_data }).collect()
}
fn read_container(c: &str, file: &[u8]) -> Out {
    let r = catch(|| match c {
        "ctpk" => mila::ctpk::read(file).map(conv).map_err(|e| format!("{:?}", e)),
        "bch" => mila::bch::read(file).map(conv).map_err(|e| format!("{:?}", e)),
        "cgfx" => mila::cgfx::read(file).map(conv).map_err(|e| format!("{:?}", e)),
        "tpl" => mila::tpl::Tpl::extract_textures(file).map(conv).map_err(|e| format!("{:?}", e)),
        _ => usage("container: ctpk|bch|cgfx|tpl"),
    });
    match r {
        Ok(Ok(t)) => Out::Ok(t),
        Ok(Err(e)) => Out::Err(e),
        Err(p) => Out::Panic(p),
    }
}
/// (ok, pixels, err) of a call that must yield exactly one w x h image
fn single(o: Out, w: usize, h: usize) -> (bool, Vec<u8>, String) {
    match o {
        Out::Ok(t) => {
            if t.len() != 1 {
                (false, vec![], format!("{} textures returned", t.len()))
            } else if t[0].w != w || t[0].h != h {
                (false, vec![], format!("dimensions {}x{} returned", t[0].w, t[0].h))
            } else {
                (true, t[0].px.clone(), String::new())
            }
        }
        Out::Err(e) => (false, vec![], format!("Err({})", e)),
        Out::Panic(p) => (false, vec![], format!("panic {}", p)),
    }
}
fn raw(r: Result<Result<Vec<u8>, String>, String>) -> (bool, Vec<u8>, String) {
    match r {
        Ok(Ok(p)) => (true, p, String::new()),
        Ok(Err(e)) => (false, vec![], format!("Err({})", e)),
        Err(p) => (false, vec![], format!("panic {}", p)),
    }
}
fn etc_decode(payload: &[u8], w: usize, h: usize, alpha: bool) -> (bool, Vec<u8>, String) {
    raw(catch(|| mila::decode(payload, w, h, alpha).map_err(|e| format!("{:?}", e))))
}
fn rgb5a3_decode(payload: &[u8]) -> (bool, Vec<u8>, String) {
    raw(catch(|| ColorFormat::RGB5A3.decode(payload).map_err(|e| format!("{:?}", e))))
}
fn indexed_decode(idx: &[u8], rgba: &[u8]) -> (bool, Vec<u8>, String) {
    raw(catch(|| ColorFormat::CI8.decode_indexed(idx, rgba).map_err(|e| format!("{:?}", e))))
}

fn u(v: &Value) -> usize {
    v.as_u64().expect("number") as usize
}

// ------------------------------------------------------------------------------------------------ replay
/// first index at which got is outside [lo, hi] (or the length differs)
fn first_bad(got: &[u8], lo: &[u8], hi: &[u8]) -> Option<usize> {
    if got.len() != lo.len() {
        return Some(got.len().min(lo.len()));
    }
    (0..got.len()).find(|&k| got[k] < lo[k] || got[k] > hi[k])
}

fn replay(cases_path: &str, out_path: &str) {
    let cases = read_ndjson(cases_path);
    let mut out = NdWriter::create(out_path);
    let mut bytes = 0usize;
    let mut calls = 0usize;
    for (n, c) in cases.iter().enumerate() {
        let api = c["api"].as_str().unwrap();
        let (w, h, fmt) = (u(&c["w"]), u(&c["h"]), u(&c["fmt"]));
        let payload = json_to_bytes(&c["payload"]);
        let file = json_to_bytes(&c["file"]);
        let lo = json_to_bytes(&c["lo"]);
        let hi = json_to_bytes(&c["hi"]);
        let mut runs: Vec<(&str, (bool, Vec<u8>, String))> = Vec::new();
        // the 3DS container the case is wrapped in (default CTPK)
        let cont = c["c"].as_str().unwrap_or("ctpk");
        let via_cont = match cont {
            "bch" => "bch::read",
            "cgfx" => "cgfx::read",
            _ => "ctpk::read",
        };
        match api {
            "ctpk" => runs.push((via_cont, single(read_container(cont, &file), w, h))),
            "etc" => {
                runs.push((via_cont, single(read_container(cont, &file), w, h)));
                runs.push(("mila::decode", etc_decode(&payload, w, h, fmt == 13)));
            }
            "tpl" => runs.push(("Tpl::extract_textures", single(read_container("tpl", &file), w, h))),
            "rgb5a3" => runs.push(("ColorFormat::decode", rgb5a3_decode(&payload))),
            "indexed" => runs.push(("ColorFormat::decode_indexed", indexed_decode(&payload, &json_to_bytes(&c["pal"])))),
            _ => usage("case api: ctpk|etc|tpl|rgb5a3|indexed"),
        }
        for (via, (ok, px, err)) in runs {
            calls += 1;
            bytes += lo.len();
            let bad = if ok { first_bad(&px, &lo, &hi) } else { Some(0) };
            if let Some(k) = bad {
                let p = k / 4;
                out.put(&json!({"kind": "mismatch", "case": n, "api": api, "via": via, "fmt": fmt, "w": w, "h": h,
                    "ok": ok, "err": err, "at": k, "x": if w > 0 { p % w } else { 0 }, "y": if w > 0 { p / w } else { 0 }, "channel": k % 4,
                    "got": px.get(k).map(|b| *b as i64).unwrap_or(-1),
                    "lo": lo.get(k).map(|b| *b as i64).unwrap_or(-1), "hi": hi.get(k).map(|b| *b as i64).unwrap_or(-1),
                    "got_len": px.len(), "want_len": lo.len()}));
            }
        }
    }
    out.put(&json!({"kind": "summary", "cases": cases.len(), "calls": calls, "bytes": bytes}));
    out.finish();
}

// ------------------------------------------------------------------------------------------------ record
fn bpp(fmt: usize) -> usize {
    // storage size of the formats of the statement, needed to size the inputs
    match fmt {
        0 => 4,
        2..=5 => 2,
        _ => 1,
    }
}
fn is_etc(fmt: usize) -> bool {
    fmt == 12 || fmt == 13
}
/// Random ETC payload restricted to the domain of the ETC1 rules: a differential block whose base + delta
/// would leave 0..31 in some channel gets that delta cleared.  (Trace_Pixel counts blocks outside the
/// domain - "open" - so a mistake here shows up there, not as a wrong verdict.)
fn random_etc(rng: &mut Rng, w: usize, h: usize, alpha: bool) -> Vec<u8> {
    let blocks = (w / 4) * (h / 4);
    let mut out = Vec::new();
    for _ in 0..blocks {
        if alpha {
            // structured alpha words as well as random ones: fully transparent / fully opaque blocks and
            // blocks with a single non-zero nibble are what real textures contain
            match rng.below(8) {
                0 => out.extend([0u8; 8]),
                1 => out.extend([0xFFu8; 8]),
                2 => {
                    let mut a = [0u8; 8];
                    a[rng.below(8)] = if rng.chance(1, 2) { 0x0F } else { 0xF0 };
                    out.extend(a);
                }
                _ => out.extend(rng.bytes(8)),
            }
        }
        let mut b = rng.bytes(8);
        match rng.below(8) {
            0 => b[4] |= 2,
            1 => b[4] &= !2,
            _ => {}
        }
        if b[4] & 2 != 0 {
            for k in 5..8 {
                let base = (b[k] >> 3) as i32;
                let d = (b[k] & 7) as i32;
                let d = if d >= 4 { d - 8 } else { d };
                if base + d < 0 || base + d > 31 {
                    b[k] &= 0xF8;
                }
            }
        }
        out.extend(b);
    }
    out
}

/// a palette index below npal; one in eight is an end of the range (0, 1, npal-2, npal-1)
fn index_in(rng: &mut Rng, npal: usize) -> u8 {
    if rng.chance(1, 8) {
        [0, 1 % npal, (2 * npal - 2) % npal, npal - 1][rng.below(4)] as u8
    } else {
        rng.below(npal) as u8
    }
}

struct Recorder {
    out: NdWriter,
    n: usize,
}
impl Recorder {
    #[allow(clippy::too_many_arguments)]
    fn ev(&mut self, kind: &str, api: &str, gen: &str, fmt: usize, w: usize, h: usize, payload: &[u8], pal: &[u8], r: (bool, Vec<u8>, String)) {
        self.out.put(&json!({"kind": kind, "api": api, "gen": gen, "fmt": fmt, "w": w, "h": h,
            "payload": bytes_to_json(payload), "pal": bytes_to_json(pal),
            "ok": r.0, "pixels": bytes_to_json(&r.1), "err": r.2}));
        self.n += 1;
    }
}

fn record(templates_path: &str, out_path: &str) {
    let templates = read_ndjson(templates_path);
    let mut rng = Rng::new(seed_from_env());
    let n_rand_misc = if tier_is_quick() { 1 } else { 4 };
    let mut rec = Recorder { out: NdWriter::create(out_path), n: 0 };
    // the largest 16-bit template carries the sweep over all 65536 values
    let max_side = templates
        .iter()
        .filter(|t| t["kind"] == "ctpk" && bpp(u(&t["fmt"])) == 2 && !is_etc(u(&t["fmt"])))
        .map(|t| u(&t["w"]) * u(&t["h"]))
        .max()
        .unwrap_or(0);
    for t in &templates {
        let n_rand = u(&t["nrand"]);
        match t["kind"].as_str().unwrap() {
            "ctpk" => {
                let (fmt, w, h) = (u(&t["fmt"]), u(&t["w"]), u(&t["h"]));
                let head = json_to_bytes(&t["head"]);
                let cont = t["c"].as_str().unwrap_or("ctpk").to_string();
                let run = |payload: &[u8]| {
                    let mut f = head.clone();
                    f.extend_from_slice(payload);
                    single(read_container(&cont, &f), w, h)
                };
                if is_etc(fmt) {
                    for _ in 0..n_rand {
                        let p = random_etc(&mut rng, w, h, fmt == 13);
                        rec.ev("tex", &cont, "random", fmt, w, h, &p, &[], run(&p));
                        if cont == "ctpk" {
                            let p = random_etc(&mut rng, w, h, fmt == 13);
                            rec.ev("tex", "decode", "random", fmt, w, h, &p, &[], etc_decode(&p, w, h, fmt == 13));
                        }
                    }
                    continue;
                }
                let b = bpp(fmt);
                // position: pixel i carries the value i
                let mut p = Vec::with_capacity(w * h * b);
                for i in 0..w * h {
                    p.extend_from_slice(&(i as u32).to_le_bytes()[..b]);
                }
                rec.ev("tex", &cont, "position", fmt, w, h, &p, &[], run(&p));
                // byte lanes (RGBA8): one lane varies with the position, the others are constant
                if b == 4 && n_rand > 0 {
                    for lane in 0..4 {
                        let mut p = Vec::with_capacity(w * h * 4);
                        for i in 0..w * h {
                            let mut px = [0x10u8, 0x50, 0x90, 0xD0];
                            px.rotate_left(lane);
                            px[lane] = (i * 37 + lane * 11) as u8;
                            p.extend_from_slice(&px);
                        }
                        rec.ev("tex", &cont, "lane", fmt, w, h, &p, &[], run(&p));
                    }
                }
                // every 16-bit value, on the largest template
                if b == 2 && w * h == max_side {
                    let per = w * h;
                    let mut v = 0usize;
                    while v < 65536 {
                        let mut p = Vec::with_capacity(per * 2);
                        for i in 0..per {
                            p.extend_from_slice(&(((v + i) % 65536) as u16).to_le_bytes());
                        }
                        rec.ev("tex", &cont, "all16", fmt, w, h, &p, &[], run(&p));
                        v += per;
                    }
                }
                for _ in 0..n_rand {
                    let p = rng.bytes(w * h * b);
                    rec.ev("tex", &cont, "random", fmt, w, h, &p, &[], run(&p));
                }
            }
            "tpl" => {
                let (w, h, npal) = (u(&t["w"]), u(&t["h"]), u(&t["npal"]));
                let (pal_at, img_at, img_len) = (u(&t["pal_at"]), u(&t["img_at"]), u(&t["img_len"]));
                let mut f = json_to_bytes(&t["file"]);
                for _ in 0..n_rand {
                    let pal = rng.bytes(2 * npal);
                    // texels inside the crop (offsets printed by the spec): random indices, one in eight an end
                    // of the index range (0, 1, npal-2, npal-1); the other texels are padding, "don't care":
                    // 0xFF, the first value that is no palette index, any byte, or valid indices
                    let pad_mode = rng.below(4);
                    let mut img: Vec<u8> = (0..img_len)
                        .map(|_| match pad_mode {
                            0 => 0xFF,
                            1 => npal.min(255) as u8,
                            2 => rng.next() as u8,
                            _ => rng.below(npal) as u8,
                        })
                        .collect();
                    for o in t["crop"].as_array().unwrap() {
                        img[u(o)] = index_in(&mut rng, npal);
                    }
                    f[pal_at..pal_at + pal.len()].copy_from_slice(&pal);
                    f[img_at..img_at + img_len].copy_from_slice(&img);
                    rec.ev("ci8", "tpl", "random", 100, w, h, &img, &pal, single(read_container("tpl", &f), w, h));
                }
            }
            _ => usage("template kind: ctpk|tpl"),
        }
    }
    // RGB5A3: every 16-bit value, then random runs
    for chunk in 0..4usize {
        let mut p = Vec::with_capacity(32768);
        for v in chunk * 16384..(chunk + 1) * 16384 {
            p.extend_from_slice(&(v as u16).to_be_bytes());
        }
        rec.ev("rgb5a3", "decode", "all16", 101, 16384, 1, &p, &[], rgb5a3_decode(&p));
    }
    for _ in 0..n_rand_misc {
        let n = rng.range(1, 2000);
        let p = rng.bytes(2 * n);
        rec.ev("rgb5a3", "decode", "random", 101, n, 1, &p, &[], rgb5a3_decode(&p));
    }
    // palette look-up on linear indices
    let mut sizes: Vec<usize> = vec![1, 2, 255, 256];
    for _ in 0..(4 * n_rand_misc) {
        sizes.push(rng.range(1, 256));
    }
    for npal in sizes {
        let n = rng.range(0, 600);
        let rgba = rng.bytes(4 * npal);
        let idx: Vec<u8> = (0..n).map(|_| index_in(&mut rng, npal)).collect();
        rec.ev("indexed", "decode_indexed", "random", 100, n, 1, &idx, &rgba, indexed_decode(&idx, &rgba));
    }
    let n = rec.n;
    rec.out.finish();
    println!("{}", json!({"events": n}));
}

// ------------------------------------------------------------------------------------------------ readers (C20)
fn tex_json(t: &[Tex], keys: Option<&[String]>) -> Value {
    Value::Array(
        t.iter()
            .enumerate()
            .map(|(i, t)| {
                let key = keys.map(|k| k[i].clone()).unwrap_or_else(|| t.name.clone());
                json!({"key": str_to_codes(&key), "name": str_to_codes(&t.name), "w": t.w, "h": t.h, "pixels": bytes_to_json(&t.px)})
            })
            .collect(),
    )
}

/// The same file written into a LayeredFilesystem (FE14: `.lz` names are LZ13-compressed on write and
/// expanded on read) and read back with the typed texture readers.  3DS containers come back as a map
/// keyed by name: returned as (keys, textures) in arbitrary order.
fn lfs_read(cont: &str, file: &[u8], fname: &str) -> Result<(Vec<String>, Vec<Tex>), String> {
    use mila::{Game, Language, LayeredFilesystem};
    let dir = std::env::temp_dir().join(format!("mvhtex{}", std::process::id()));
    let _ = std::fs::remove_dir_all(&dir);
    std::fs::create_dir_all(&dir).map_err(|e| format!("mkdir: {}", e))?;
    let r = catch(|| -> Result<(Vec<String>, Vec<Tex>), String> {
        let fs = LayeredFilesystem::new(vec![dir.display().to_string()], Language::EnglishNA, Game::FE14)
            .map_err(|e| format!("new: {:?}", e))?;
        fs.write(fname, file, false).map_err(|e| format!("write: {:?}", e))?;
        let map = match cont {
            "ctpk" => fs.read_ctpk_textures(fname, false),
            "bch" => fs.read_bch_textures(fname, false),
            "cgfx" => fs.read_cgfx_textures(fname, false),
            _ => {
                let v = fs.read_tpl_textures(fname, false).map_err(|e| format!("read: {:?}", e))?;
                let t = conv(v);
                return Ok((t.iter().map(|t| t.name.clone()).collect(), t));
            }
        }
        .map_err(|e| format!("read: {:?}", e))?;
        let mut keys = Vec::new();
        let mut tex = Vec::new();
        // (the map's iteration order is arbitrary: sorted by key to make the log reproducible)
        let mut entries: Vec<(String, Texture)> = map.into_iter().collect();
        entries.sort_by(|a, b| a.0.cmp(&b.0));
        for (k, t) in entries {
            keys.push(k);
            tex.push(Tex { name: t.filename, w: t.width, h: t.height, px: t.pixel_data });
        }
        Ok((keys, tex))
    });
    let _ = std::fs::remove_dir_all(&dir);
    match r {
        Ok(x) => x,
        Err(p) => Err(format!("panic {}", p)),
    }
}

fn names_dims(t: &[Tex]) -> Value {
    Value::Array(t.iter().map(|t| json!({"name": str_to_codes(&t.name), "w": t.w, "h": t.h})).collect())
}

/// One case = one generated file: {id, c, v, file, exp:[{name,w,h}], min_ok, magic, reject_by}.
/// Result: the full reading compared with exp; the outcome class of every strict prefix compared with
/// min_ok (a prefix shorter than min_ok must be an error, none may panic); where `magic`, a damaged magic
/// number must be an error.  Second value: the trace line {id, c, v, ok, out} for Trace_TexContainers.
fn readers_case(c: &Value) -> (Value, Vec<Value>) {
    let cont = c["c"].as_str().unwrap();
    let file = json_to_bytes(&c["file"]);
    let min_ok = u(&c["min_ok"]);
    let mut problems: Vec<Value> = Vec::new();
    // full file
    let (full_class, out_json) = match read_container(cont, &file) {
        Out::Ok(t) => {
            if names_dims(&t) != c["exp"] {
                problems.push(json!({"what": "full", "got": names_dims(&t)}));
            }
            ("ok", tex_json(&t, None))
        }
        Out::Err(e) => {
            problems.push(json!({"what": "full", "got": format!("Err({})", e)}));
            ("err", json!([]))
        }
        Out::Panic(p) => {
            problems.push(json!({"what": "full", "got": format!("panic {}", p)}));
            ("panic", json!([]))
        }
    };
    let mut lines = vec![json!({"id": c["id"], "c": cont, "v": c["v"], "mode": "list", "via": "direct",
                                "ok": full_class == "ok", "out": out_json})];
    // a sample of the files (first placement of every list, small files) also through the layered filesystem
    if c["id"][2] == 1 && file.len() <= 8192 {
        for fname in ["tex.bin", "tex.bin.lz"] {
            let mode = if cont == "tpl" { "list" } else { "map" };
            let (ok, out) = match lfs_read(cont, &file, fname) {
                Ok((keys, tex)) => (true, tex_json(&tex, Some(&keys))),
                Err(e) => {
                    problems.push(json!({"what": "layered filesystem", "file": fname, "got": e}));
                    (false, json!([]))
                }
            };
            lines.push(json!({"id": c["id"], "c": cont, "v": c["v"], "mode": mode, "via": format!("lfs:{}", fname),
                              "ok": ok, "out": out}));
        }
    }
    // every strict prefix
    let mut ok_prefixes = 0usize;
    let mut err_prefixes = 0usize;
    let mut first_ok: i64 = -1;
    for k in 0..file.len() {
        match read_container(cont, &file[..k]) {
            Out::Ok(_) => {
                ok_prefixes += 1;
                if first_ok < 0 {
                    first_ok = k as i64;
                }
                if k < min_ok {
                    problems.push(json!({"what": "prefix", "k": k, "got": "Ok"}));
                }
            }
            Out::Err(_) => err_prefixes += 1,
            Out::Panic(p) => problems.push(json!({"what": "prefix", "k": k, "got": format!("panic {}", p)})),
        }
        if problems.len() > 40 {
            break;
        }
    }
    // damaged magic number: every byte of the magic, two damages each
    let mut magic_cases = 0usize;
    if c["magic"].as_bool().unwrap() {
        for k in 0..4 {
            for d in [1u8, 0x80] {
                let mut f = file.clone();
                f[k] ^= d;
                magic_cases += 1;
                match read_container(cont, &f) {
                    Out::Err(_) => {}
                    Out::Ok(_) => problems.push(json!({"what": "magic", "k": k, "xor": d, "got": "Ok"})),
                    Out::Panic(p) => problems.push(json!({"what": "magic", "k": k, "xor": d, "got": format!("panic {}", p)})),
                }
            }
        }
    }
    // readers of the other containers whose magic number the file does not carry must reject it
    for r in c["reject_by"].as_array().unwrap() {
        let r = r.as_str().unwrap();
        magic_cases += 1;
        match read_container(r, &file) {
            Out::Err(_) => {}
            Out::Ok(_) => problems.push(json!({"what": "foreign", "reader": r, "got": "Ok"})),
            Out::Panic(p) => problems.push(json!({"what": "foreign", "reader": r, "got": format!("panic {}", p)})),
        }
    }
    (
        json!({"id": c["id"], "c": cont, "len": file.len(), "full": full_class, "ok_prefixes": ok_prefixes,
               "err_prefixes": err_prefixes, "first_ok": first_ok, "magic_cases": magic_cases, "problems": problems}),
        lines,
    )
}

fn main() {
    install_panic_hook();
    let a: Vec<String> = std::env::args().collect();
    if a.len() < 2 {
        usage("mvh_tex replay|record|readers ...");
    }
    match a[1].as_str() {
        "replay" if a.len() == 4 => replay(&a[2], &a[3]),
        "record" if a.len() == 4 => record(&a[2], &a[3]),
        "readers" if a.len() >= 5 => {
            use std::io::Write;
            let from = a.iter().position(|x| x == "--from").map(|i| a[i + 1].parse::<usize>().unwrap()).unwrap_or(0);
            let cases = read_ndjson(&a[2]);
            // the trace is appended to: the supervisor restarts this process after a case that died
            let mut tf = std::fs::OpenOptions::new().create(true).append(true).open(&a[4]).expect("open trace");
            run_isolated(&cases, from, &a[3], |_i, c| {
                let (r, lines) = readers_case(c);
                for line in lines {
                    serde_json::to_writer(&mut tf, &line).unwrap();
                    tf.write_all(b"\n").unwrap();
                }
                tf.flush().unwrap();
                r
            });
        }
        _ => usage("mvh_tex replay <cases> <out> | record <templates> <out> | readers <cases> <out> <trace> [--from K]"),
    }
}
