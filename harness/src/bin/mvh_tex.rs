//! mvh_tex — not built yet.
use mvh::util::*;

fn main() {
    install_panic_hook();
    usage("mvh_tex: not implemented yet");
}
