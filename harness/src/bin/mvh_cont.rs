//! mvh_cont — container formats: fe9 "pack" archives (C15), 3DS arc extraction (C16), animation-set files
//! (C17) and asset binaries (C18).  For every format two directions:
//!   <fmt>-replay <cases.ndjson> <out.ndjson>   cases printed by TLC (spec/MC_<X>.tla, Gen_<X>.cfg) replayed on mila
//!   <fmt>-record <out.ndjson> <n> ...          seeded random values driven through mila, logged for Trace_<X>.tla
//! This file only drives mila, projects what it returns and compares with what TLC printed; every expected
//! value comes from the TLA+ specifications.
use indexmap::IndexMap;
use mila::{ASetFile, AssetBinary, AssetSpec, BinArchive, Endian};
use mvh::proj;
use mvh::util::*;
use serde_json::{json, Value};

// ------------------------------------------------------------------------------------------------ common
fn opt_none() -> Value {
    json!({"some": false, "v": []})
}
fn opt_to_json(s: &Option<String>) -> Value {
    match s {
        None => opt_none(),
        Some(s) => match string_to_sjis(s) {
            Some(b) => json!({"some": true, "v": bytes_to_json(&b)}),
            None => json!({"some": true, "v": [], "unencodable": s}),
        },
    }
}
fn json_to_opt(v: &Value) -> Option<String> {
    if v["some"].as_bool().unwrap() {
        Some(sjis_to_string(&json_to_bytes(&v["v"])))
    } else {
        None
    }
}
fn u(v: &Value) -> usize {
    v.as_u64().expect("unsigned") as usize
}

/// Archive content as the specifications see it: the projection of mvh::proj with the four data bytes of
/// every annotated cell (string / pointer) set to zero — after from_bytes those bytes hold file offsets of
/// the text section, which are representation, not content.
fn masked_projection(a: &BinArchive, endian: &str) -> Value {
    let mut p = proj::project(a, endian);
    let mut cells: Vec<usize> = Vec::new();
    for key in ["text", "ptrs"] {
        for e in p[key].as_array().unwrap() {
            cells.push(u(&e[0]));
        }
    }
    let data = p["data"].as_array_mut().unwrap();
    for c in cells {
        for k in 0..4 {
            if c + k < data.len() {
                data[c + k] = json!(0);
            }
        }
    }
    p
}

/// Sample of lossless Shift-JIS characters (1 byte, half-width kana, 2-byte incl. trail bytes 0x5C / 0x7C).
const SJIS_CHARS: &[char] = &[
    'a', 'Z', '0', '_', '.', ' ', '-', 'ｱ', 'ﾝ', 'あ', 'ん', 'ソ', '表', '能', '十', 'Ａ', '　', '漢', '字', '①',
];
fn random_name(rng: &mut Rng, max_chars: usize, allow_empty: bool) -> String {
    loop {
        let n = if allow_empty && rng.chance(1, 10) { 0 } else { rng.range(1, max_chars) };
        let s: String = (0..n).map(|_| *rng.pick(SJIS_CHARS)).collect();
        if sjis_lossless(&s) {
            return s;
        }
    }
}

// ------------------------------------------------------------------------------------------------ C15 pack
fn pack_value_to_map(v: &Value) -> Result<IndexMap<String, Vec<u8>>, String> {
    let mut m = IndexMap::new();
    for f in v.as_array().unwrap() {
        let nb = json_to_bytes(&f[0]);
        let name = sjis_to_string(&nb);
        if string_to_sjis(&name).as_deref() != Some(&nb[..]) {
            return Err(format!("name bytes {:?} are not a lossless Shift-JIS string", nb));
        }
        if m.insert(name, json_to_bytes(&f[1])).is_some() {
            return Err("duplicate name".to_string());
        }
    }
    Ok(m)
}
fn pack_map_to_value(m: &IndexMap<String, Vec<u8>>) -> Value {
    Value::Array(
        m.iter()
            .map(|(k, b)| match string_to_sjis(k) {
                Some(nb) => json!([bytes_to_json(&nb), bytes_to_json(b)]),
                None => json!([{ "unencodable": k }, bytes_to_json(b)]),
            })
            .collect(),
    )
}
/// parse -> {"ok":true,"v":[[name,body]..]} | {"ok":false,"v":[],"err":..} | {"panic":..}
fn pack_parse(bytes: &[u8]) -> Value {
    match catch(|| mila::fe9_arc::parse(bytes)) {
        Ok(Ok(m)) => json!({"ok": true, "v": pack_map_to_value(&m)}),
        Ok(Err(e)) => json!({"ok": false, "v": [], "err": e.to_string()}),
        Err(p) => json!({ "panic": p }),
    }
}
fn pack_serialize(m: &IndexMap<String, Vec<u8>>) -> Result<Vec<u8>, Value> {
    match catch(|| mila::fe9_arc::serialize(m)) {
        Ok(Ok(b)) => Ok(b),
        Ok(Err(e)) => Err(json!({"ok": false, "err": e.to_string()})),
        Err(p) => Err(json!({ "panic": p })),
    }
}

fn pack_replay(cases_path: &str, out_path: &str) {
    let cases = read_ndjson(cases_path);
    let mut out = NdWriter::create(out_path);
    let (mut n, mut bad, mut unbuildable, mut images) = (0u64, 0u64, 0u64, 0u64);
    for (i, c) in cases.iter().enumerate() {
        n += 1;
        let map = match pack_value_to_map(&c["v"]) {
            Ok(m) => m,
            Err(e) => {
                unbuildable += 1;
                out.put(&json!({"kind": "unbuildable", "i": i, "why": e}));
                continue;
            }
        };
        let expect = json!({"ok": true, "v": c["v"]});
        // builder: byte-exact against CanonPack(v)
        match pack_serialize(&map) {
            Ok(b) => {
                if bytes_to_json(&b) != c["canon"] {
                    bad += 1;
                    out.put(&json!({"kind": "mismatch", "what": "serialize", "i": i, "v": c["v"], "expected": c["canon"], "got": bytes_to_json(&b)}));
                }
                let back = pack_parse(&b);
                if back != expect {
                    bad += 1;
                    out.put(&json!({"kind": "mismatch", "what": "parse-own-image", "i": i, "v": c["v"], "image": bytes_to_json(&b), "got": back}));
                }
            }
            Err(e) => {
                bad += 1;
                out.put(&json!({"kind": "mismatch", "what": "serialize", "i": i, "v": c["v"], "expected": c["canon"], "got": e}));
            }
        }
        // reader: the canonical image and every conforming re-arrangement
        let mut imgs: Vec<(&str, usize, &Value)> = vec![("parse-canon", 0, &c["canon"])];
        for (k, l) in c["layouts"].as_array().unwrap().iter().enumerate() {
            imgs.push(("parse-layout", k, l));
        }
        for (what, k, img) in imgs {
            images += 1;
            let got = pack_parse(&json_to_bytes(img));
            if got != expect {
                bad += 1;
                out.put(&json!({"kind": "mismatch", "what": what, "i": i, "layout": k, "v": c["v"], "image": img, "got": got}));
            }
        }
    }
    out.put(&json!({"kind": "summary", "cases": n, "images": images, "mismatches": bad, "unbuildable": unbuildable}));
    out.finish();
}

fn pack_random_len(rng: &mut Rng) -> usize {
    match rng.below(10) {
        0 => 0,
        1..=6 => {
            let k = rng.range(0, 6) * 32;
            let d = *rng.pick(&[-1i64, 0, 1, 0, 31, -31]);
            (k as i64 + d).max(0) as usize
        }
        _ => rng.range(1, 300),
    }
}
fn pack_event(map: &IndexMap<String, Vec<u8>>, mode: &str) -> Value {
    let value = pack_map_to_value(map);
    match pack_serialize(map) {
        Ok(b) => {
            let parsed = pack_parse(&b);
            json!({"mode": mode, "value": value, "ser": "ok", "bytes": bytes_to_json(&b), "parsed": parsed})
        }
        Err(e) => json!({"mode": mode, "value": value, "ser": e.to_string(), "bytes": [], "parsed": {"ok": false, "v": []}}),
    }
}
fn pack_record(out_path: &str, runs: usize, max_files: usize, big: bool) {
    let mut rng = Rng::new(seed_from_env());
    let mut out = NdWriter::create(out_path);
    for run in 0..runs {
        let n = match run {
            0 => 0,
            1 => max_files,
            _ => {
                if rng.chance(1, 4) {
                    rng.range(0, max_files)
                } else {
                    rng.range(0, 12.min(max_files))
                }
            }
        };
        let mut map: IndexMap<String, Vec<u8>> = IndexMap::new();
        while map.len() < n {
            let mut name = random_name(&mut rng, 6, true);
            if map.contains_key(&name) {
                name.push_str(&format!("{}", map.len()));
            }
            if map.contains_key(&name) {
                continue;
            }
            let len = pack_random_len(&mut rng);
            let body = if rng.chance(1, 6) { vec![0u8; len] } else { rng.bytes(len) };
            map.insert(name, body);
        }
        out.put(&pack_event(&map, "full"));
    }
    if big {
        // the statement's upper limit: 65 535 (empty) files
        let mut map: IndexMap<String, Vec<u8>> = IndexMap::new();
        for i in 0..65535usize {
            let name = if i % 1000 == 7 { format!("あ{}", i) } else { format!("f{}", i) };
            map.insert(name, Vec::new());
        }
        out.put(&pack_event(&map, "full"));
    }
    out.finish();
}

// ------------------------------------------------------------------------------------------------ main
fn main() {
    install_panic_hook();
    let args: Vec<String> = std::env::args().skip(1).collect();
    let a: Vec<&str> = args.iter().map(|s| s.as_str()).collect();
    match a.as_slice() {
        ["pack-replay", cases, out] => pack_replay(cases, out),
        ["pack-record", out, runs, max_files] => pack_record(out, runs.parse().unwrap(), max_files.parse().unwrap(), false),
        ["pack-record", out, runs, max_files, "big"] => pack_record(out, runs.parse().unwrap(), max_files.parse().unwrap(), true),
        _ => usage(
            "mvh_cont pack-replay <cases> <out> | pack-record <out> <runs> <max_files> [big]",
        ),
    }
}
