//! mvh_cont — not built yet.
use mvh::util::*;

fn main() {
    install_panic_hook();
    usage("mvh_cont: not implemented yet");
}
